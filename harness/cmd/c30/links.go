//go:build verifshadow

package main

import (
	"bytes"
	"encoding/json"
	"net"
	"os"
	"path/filepath"

	"github.com/pdfcpu/pdfcpu/pkg/api"
	"github.com/pdfcpu/pdfcpu/pkg/pdfcpu/model"
	"verif/harness/internal/netmon"
	"verif/harness/internal/ref/ipclass"
	"verif/harness/internal/vk"
)

// observeLinks drives the one other place where pdfcpu fetches URLs taken from a document: link
// validation (conf.ValidateLinks, `pdfcpu validate -links`), which GETs every URI action with a
// default http.Client. The property text enumerates its fetch sites (revocation checks, remote
// images) and link validation is not among them, so nothing here is judged: what the monitor sees
// is only COUNTED (observed_only/validate-links/...), for the orchestrator to decide.
func observeLinks(t *vk.T, e *env) {
	pngFile := filepath.Join(t.Scratch(), "local.png")
	if err := os.WriteFile(pngFile, e.png, 0o644); err != nil {
		return
	}
	cases := []struct{ label, url string }{
		{"public-name", "http://links.c30.example/s0/h0/x"},
		{"loopback-literal", "http://127.0.0.1:9/admin"},
		{"private-name", "http://intranet.c30.example/"},
		{"metadata-literal", "http://169.254.169.254/latest/meta-data/"},
	}
	for _, c := range cases {
		doc := map[string]any{"paper": "A5", "origin": "LowerLeft", "pages": map[string]any{"1": map[string]any{"content": map[string]any{
			"image": []any{map[string]any{"src": pngFile, "url": c.url, "pos": []int{40, 40}, "width": 60, "height": 60}},
		}}}}
		js, _ := json.Marshal(doc)
		var pdf bytes.Buffer
		conf := model.NewDefaultConfiguration()
		conf.Offline = true
		if err := api.Create(nil, bytes.NewReader(js), &pdf, conf); err != nil {
			t.Count("observed_only/validate-links/setup-failed", 1)
			continue
		}
		sc := &Scenario{ID: 0, Site: "validate-links", Chain: []Hop{{URL: c.url}}}
		e.begin(sc)
		sess := netmon.Begin(&netmon.Script{
			Hosts: map[string][]netmon.Answer{
				"links.c30.example":    {{IPs: []string{"198.51.100.7"}}},
				"intranet.c30.example": {{IPs: []string{"10.20.30.40"}}},
				canaryName:             {{IPs: []string{canaryIP}}},
			},
			Routes: map[string]string{"198.51.100.7": e.httpAddr, canaryIP: e.canaryAddr},
		})
		before := e.canaryHits.Load()
		func() {
			defer func() { recover() }()
			conf := model.NewDefaultConfiguration()
			conf.Offline = false
			conf.ValidateLinks = true
			conf.Timeout = 3
			_ = api.Validate(bytes.NewReader(pdf.Bytes()), conf)
		}()
		evs := sess.End()
		e.end()
		for _, ev := range evs {
			if ev.Kind != netmon.Dial {
				continue
			}
			host, _, _ := net.SplitHostPort(ev.Addr)
			if netmon.CanonIP(host) == canaryIP {
				t.Count("observed_only/validate-links/"+c.label+"/proxy-used", 1)
				continue
			}
			t.Count("observed_only/validate-links/"+c.label+"/dial-"+string(ipclass.ClassifyString(host).Class), 1)
		}
		if e.canaryHits.Load() > before {
			t.Count("observed_only/validate-links/"+c.label+"/proxy-canary-connections", e.canaryHits.Load()-before)
		}
	}
}
