//go:build verifshadow

// Reproducer for C30 keys site=create-image/class=offline-lookup|offline-dial (and form-image):
// api.Create ignores conf.Offline for remote image boxes (create.parseFromJSON never copies
// Offline/Timeout into primitives.PDF; form.addImages does).
//
//	. /verif/env.sh; cd /verif/harness
//	GOROOT=$SHADOW_GOROOT $SHADOW_GOROOT/bin/go run -tags "verif verifshadow" ./cmd/c30/repro/offline
package main

import (
	"bytes"
	"fmt"
	"net/http"
	"net/http/httptest"

	"github.com/pdfcpu/pdfcpu/pkg/api"
	"github.com/pdfcpu/pdfcpu/pkg/pdfcpu/model"
	"verif/harness/internal/netmon"
)

func main() {
	api.DisableConfigDir()
	hits := 0
	srv := httptest.NewServer(http.HandlerFunc(func(w http.ResponseWriter, r *http.Request) { hits++; http.NotFound(w, r) }))
	defer srv.Close()
	s := netmon.Begin(&netmon.Script{
		Hosts:  map[string][]netmon.Answer{"img.example.org": {{IPs: []string{"93.184.216.34"}}}},
		Routes: map[string]string{"93.184.216.34": srv.Listener.Addr().String()},
	})
	conf := model.NewDefaultConfiguration()
	conf.Offline = true
	js := `{"paper":"A5","pages":{"1":{"content":{"image":[{"src":"http://img.example.org/logo.png","pos":[40,40],"width":60}]}}}}`
	var out bytes.Buffer
	err := api.Create(nil, bytes.NewReader([]byte(js)), &out, conf)
	for _, e := range s.End() {
		fmt.Printf("%s %s%s %v\n", e.Kind, e.Host, e.Addr, e.Answers)
	}
	fmt.Printf("conf.Offline=true err=%v requests served=%d\n", err, hits)
}
