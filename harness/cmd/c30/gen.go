//go:build verifshadow

package main

import (
	"fmt"
	"math/rand/v2"
	"net/netip"
	"strings"

	"verif/harness/internal/netmon"
	"verif/harness/internal/ref/ipclass"
)

const (
	siteCreate = "create-image" // api.Create, JSON page definition with an image box
	siteForm   = "form-image"   // api.Create, JSON form definition (fields) with an image box
	siteFill   = "fill-image"   // api.FillForm, JSON fill data with a page image box
	siteCRL    = "crl"          // sign.VerifCheckCRL, certificate with CRL distribution points
	siteOCSP   = "ocsp"         // sign.VerifCheckOCSP, certificate with OCSP responder URLs
)

var sites = []string{siteCreate, siteCRL, siteForm, siteOCSP, siteFill}

func isRevocation(site string) bool { return site == siteCRL || site == siteOCSP }

// Hop is one URL of a (redirect) chain together with the part of the world that belongs to it.
type Hop struct {
	URL    string `json:"url"`
	Host   string `json:"host"`   // host as in the URL without brackets/port ("" = none): name or literal
	Scheme string `json:"scheme"` // lower case
	// Via names what is hostile about this hop ("" = nothing): it becomes part of the violation key.
	Via string `json:"via,omitempty"`
	// Forbid: the URL FORM must never be connected to: "scheme" | "userinfo" ("" = form is fine).
	Forbid string `json:"forbid,omitempty"`
	// Answers: DNS script for Host when it is a name (n-th lookup gets Answers[min(n,len-1)]).
	Answers []netmon.Answer `json:"answers,omitempty"`
	// Routed: addresses (canonical text) of this hop that lead to a test server; others are refused.
	Routed []string `json:"routed,omitempty"`
	// Status: redirect status with which the server leaves this hop (0 = 302).
	Status int `json:"status,omitempty"`
}

// Scenario is one case: a fetch site, the URL chain it is given, the DNS answers, the
// allow-list and the offline switch. It is self-contained (replayable from its JSON).
type Scenario struct {
	ID      int      `json:"id"`
	Site    string   `json:"site"`
	Group   string   `json:"group"`
	Label   string   `json:"label"`
	How     string   `json:"how"` // how the URL is handed over (per site)
	Chain   []Hop    `json:"chain"`
	Allow   []string `json:"allow,omitempty"`
	Offline bool     `json:"offline,omitempty"`
	// ExpectFetch: control — the last hop is benign and reachable, so a working fetch must arrive there.
	ExpectFetch bool `json:"expect_fetch,omitempty"`
	// ExpectAllowDial: the chain's first hop is an allow-listed host on a private address: a dial
	// there is permitted; if none is seen the allow-list part of the oracle was vacuous.
	ExpectAllowDial bool `json:"expect_allow_dial,omitempty"`
	// Ghosts own addresses without being part of the chain: alternative readings of a confusing
	// URL (used only to attribute a dialled address to what was hostile about the case).
	Ghosts []Hop `json:"ghosts,omitempty"`
}

func (sc *Scenario) allIPs() []string {
	var out []string
	for _, h := range append(append([]Hop(nil), sc.Chain...), sc.Ghosts...) {
		if c := netmon.CanonIP(h.Host); c != "" {
			out = append(out, c)
		}
		for _, a := range h.Answers {
			for _, ip := range a.IPs {
				if c := netmon.CanonIP(ip); c != "" {
					out = append(out, c)
				}
			}
		}
	}
	return out
}

// ---------------------------------------------------------------- address material

func pubV4(r *rand.Rand) string {
	for {
		a, b, c, d := byte(r.IntN(223)+1), byte(r.IntN(256)), byte(r.IntN(256)), byte(r.IntN(254)+1)
		if ipclass.Classify4(a, b, c, d) == ipclass.Public {
			return fmt.Sprintf("%d.%d.%d.%d", a, b, c, d)
		}
	}
}

func pubV6(r *rand.Rand) string {
	for {
		var p [16]byte
		for i := range p {
			p[i] = byte(r.IntN(256))
		}
		p[0] = 0x20 | byte(r.IntN(16)) // 2000::/4 .. 2f00::/8: global unicast
		if ipclass.Classify16(p).Class == ipclass.Public {
			return netip.AddrFrom16(p).String()
		}
	}
}

func pubIP(r *rand.Rand) string {
	if r.IntN(4) == 0 {
		return pubV6(r)
	}
	return pubV4(r)
}

// forbidden addresses by class; the fixed entries are range boundaries and well-known targets.
func badV4(r *rand.Rand) string {
	fixed := []string{
		"127.0.0.1", "127.0.0.53", "127.255.255.254", "127.0.0.0",
		"10.0.0.1", "10.255.255.255", "10.0.0.0",
		"172.16.0.1", "172.31.255.254", "172.20.10.2",
		"192.168.0.1", "192.168.255.255",
		"169.254.169.254", "169.254.0.1", "169.254.255.255",
		"224.0.0.1", "239.255.255.250", "232.1.2.3",
		"0.0.0.0",
	}
	if r.IntN(3) > 0 {
		return fixed[r.IntN(len(fixed))]
	}
	switch r.IntN(6) {
	case 0:
		return fmt.Sprintf("127.%d.%d.%d", r.IntN(256), r.IntN(256), r.IntN(256))
	case 1:
		return fmt.Sprintf("10.%d.%d.%d", r.IntN(256), r.IntN(256), r.IntN(256))
	case 2:
		return fmt.Sprintf("172.%d.%d.%d", 16+r.IntN(16), r.IntN(256), r.IntN(256))
	case 3:
		return fmt.Sprintf("192.168.%d.%d", r.IntN(256), r.IntN(256))
	case 4:
		return fmt.Sprintf("169.254.%d.%d", r.IntN(256), r.IntN(256))
	}
	return fmt.Sprintf("%d.%d.%d.%d", 224+r.IntN(16), r.IntN(256), r.IntN(256), r.IntN(256))
}

func badV6(r *rand.Rand) string {
	fixed := []string{"::1", "::", "fe80::1", "fe80::1%eth0", "febf::1", "fc00::1", "fd12:3456:789a::1", "fdff::ffff",
		"ff02::1", "ff05::1:3", "ff0e::101"}
	if r.IntN(3) > 0 {
		return fixed[r.IntN(len(fixed))]
	}
	x := r.IntN(0xffff) + 1
	switch r.IntN(3) {
	case 0:
		return fmt.Sprintf("fe80::%x:%x", x, r.IntN(0xffff))
	case 1:
		return fmt.Sprintf("f%c%02x:%x::%x", "cd"[r.IntN(2)], r.IntN(256), x, r.IntN(0xffff))
	}
	return fmt.Sprintf("ff%02x::%x", r.IntN(256), x)
}

func badMapped(r *rand.Rand) string {
	v4 := badV4(r)
	if r.IntN(2) == 0 {
		return "::ffff:" + v4
	}
	a, _ := netip.ParseAddr(v4)
	b := a.As4()
	return fmt.Sprintf("::ffff:%02x%02x:%02x%02x", b[0], b[1], b[2], b[3])
}

func badIP(r *rand.Rand) string {
	switch r.IntN(5) {
	case 0, 1:
		return badV4(r)
	case 2:
		return badV6(r)
	case 3:
		return badMapped(r)
	}
	return badV4(r)
}

// private (RFC 1918 / 4193) address for allow-listed intranet hosts
func intraIP(r *rand.Rand) string {
	switch r.IntN(4) {
	case 0:
		return fmt.Sprintf("10.%d.%d.%d", r.IntN(256), r.IntN(256), 1+r.IntN(254))
	case 1:
		return fmt.Sprintf("172.%d.%d.%d", 16+r.IntN(16), r.IntN(256), 1+r.IntN(254))
	case 2:
		return fmt.Sprintf("fd%02x:%x::%x", r.IntN(256), 1+r.IntN(0xffff), 1+r.IntN(0xffff))
	}
	return fmt.Sprintf("192.168.%d.%d", r.IntN(256), 1+r.IntN(254))
}

// hostInURL renders a literal or name for the authority part.
func hostInURL(h string) string {
	if strings.Contains(h, ":") {
		return "[" + strings.ReplaceAll(h, "%", "%25") + "]"
	}
	return h
}

// ---------------------------------------------------------------- builder

type builder struct {
	r  *rand.Rand
	sc *Scenario
}

func (b *builder) ext() string {
	switch b.sc.Site {
	case siteCRL:
		return "ca.crl"
	case siteOCSP:
		return "ocsp"
	}
	return "logo.png"
}

func (b *builder) path(i int) string { return fmt.Sprintf("/s%d/h%d/%s", b.sc.ID, i, b.ext()) }

var tlds = []string{"example", "test", "example.net", "example.org", "cdn.example.com"}

func (b *builder) name(i int) string {
	return fmt.Sprintf("h%d.s%d.%s", i, b.sc.ID, tlds[b.r.IntN(len(tlds))])
}

func (b *builder) scheme() string {
	if b.r.IntN(4) == 0 {
		return "https"
	}
	return "http"
}

func (b *builder) port(scheme string) string {
	switch b.r.IntN(6) {
	case 0:
		return ":8080"
	case 1:
		if scheme == "https" {
			return ":8443"
		}
		return ":80"
	case 2:
		return fmt.Sprintf(":%d", 1024+b.r.IntN(60000))
	}
	return ""
}

// pubHop appends a benign public hop: a name with 1–2 public answers, all routed.
func (b *builder) pubHop(scheme string) *Hop {
	i := len(b.sc.Chain)
	n := b.name(i)
	ips := []string{pubIP(b.r)}
	if b.r.IntN(3) == 0 {
		ips = append(ips, pubIP(b.r))
	}
	h := Hop{Host: n, Scheme: scheme, Answers: []netmon.Answer{{IPs: ips}}, Routed: canonAll(ips)}
	h.URL = scheme + "://" + n + b.port(scheme) + b.path(i)
	b.sc.Chain = append(b.sc.Chain, h)
	return &b.sc.Chain[i]
}

// nameHop appends a hop whose name resolves as scripted; routed lists which answers are reachable.
func (b *builder) nameHop(scheme, via string, answers []netmon.Answer, routed []string) *Hop {
	i := len(b.sc.Chain)
	n := b.name(i)
	h := Hop{Host: n, Scheme: scheme, Via: via, Answers: answers, Routed: canonAll(routed)}
	h.URL = scheme + "://" + n + b.port(scheme) + b.path(i)
	b.sc.Chain = append(b.sc.Chain, h)
	return &b.sc.Chain[i]
}

// literalHop appends a hop whose host is an IP literal (never routed unless asked).
func (b *builder) literalHop(scheme, via, ip string, routed bool) *Hop {
	i := len(b.sc.Chain)
	h := Hop{Host: ip, Scheme: scheme, Via: via}
	if routed {
		h.Routed = canonAll([]string{ip})
	}
	h.URL = scheme + "://" + hostInURL(ip) + b.port(scheme) + b.path(i)
	b.sc.Chain = append(b.sc.Chain, h)
	return &b.sc.Chain[i]
}

// rawHop appends a hop with a hand-written URL.
func (b *builder) rawHop(url, host, scheme, via, forbid string, answers []netmon.Answer, routed []string) *Hop {
	i := len(b.sc.Chain)
	b.sc.Chain = append(b.sc.Chain, Hop{URL: url, Host: host, Scheme: scheme, Via: via, Forbid: forbid, Answers: answers, Routed: canonAll(routed)})
	return &b.sc.Chain[i]
}

func canonAll(ips []string) []string {
	var out []string
	for _, ip := range ips {
		if c := netmon.CanonIP(ip); c != "" {
			out = append(out, c)
		}
	}
	return out
}

var redirectCodes = []int{301, 302, 303, 307, 308}

func (b *builder) status() int { return redirectCodes[b.r.IntN(len(redirectCodes))] }

// ---------------------------------------------------------------- groups

// Each group is a list of named items; item k of a (site, group) pair is chosen by a counter, so
// that the quick tier walks through the lists instead of sampling them with replacement.
type item struct {
	label string
	build func(b *builder)
}

func one(ip string) []netmon.Answer { return []netmon.Answer{{IPs: []string{ip}}} }

// inetAton gives what getaddrinfo(3)/inet_aton(3) make of legacy numeric host forms.
var legacyNumerics = []struct{ host, means string }{
	{"2130706433", "127.0.0.1"}, {"0x7f000001", "127.0.0.1"}, {"0x7f.1", "127.0.0.1"}, {"0177.0.0.1", "127.0.0.1"},
	{"017700000001", "127.0.0.1"}, {"127.1", "127.0.0.1"}, {"127.0.1", "127.0.0.1"}, {"0x7f.0.0.0x1", "127.0.0.1"},
	{"10.1", "10.0.0.1"}, {"167772161", "10.0.0.1"}, {"0xa9fea9fe", "169.254.169.254"}, {"2852039166", "169.254.169.254"},
	{"0300.0250.0.1", "192.168.0.1"}, {"0", "0.0.0.0"}, {"0x0", "0.0.0.0"},
}

var badLiterals = []struct{ via, ip string }{
	{"url-literal-v4", "127.0.0.1"}, {"url-literal-v4", "127.0.0.53"}, {"url-literal-v4", "127.255.255.254"},
	{"url-literal-v4", "10.0.0.1"}, {"url-literal-v4", "10.255.255.255"}, {"url-literal-v4", "172.16.0.1"},
	{"url-literal-v4", "172.31.255.254"}, {"url-literal-v4", "192.168.1.1"}, {"url-literal-v4", "169.254.169.254"},
	{"url-literal-v4", "169.254.0.1"}, {"url-literal-v4", "224.0.0.1"}, {"url-literal-v4", "239.255.255.250"},
	{"url-literal-v4", "0.0.0.0"},
	{"url-literal-v6", "::1"}, {"url-literal-v6", "::"}, {"url-literal-v6", "fe80::1"}, {"url-literal-v6", "febf::abcd"},
	{"url-literal-v6", "fc00::1"}, {"url-literal-v6", "fd00:1234::5"}, {"url-literal-v6", "ff02::1"}, {"url-literal-v6", "ff05::1:3"},
	{"url-literal-v6", "0:0:0:0:0:0:0:1"}, {"url-literal-v6", "::0001"}, {"url-literal-v6", "0:0:0:0:0:0:0:0"},
	{"url-literal-zone", "fe80::1%eth0"}, {"url-literal-zone", "fe80::2%lo"}, {"url-literal-zone", "ff02::1%1"},
	{"url-literal-mapped", "::ffff:127.0.0.1"}, {"url-literal-mapped", "::ffff:7f00:1"}, {"url-literal-mapped", "::ffff:10.0.0.1"},
	{"url-literal-mapped", "::ffff:192.168.0.1"}, {"url-literal-mapped", "::ffff:169.254.169.254"}, {"url-literal-mapped", "::ffff:0.0.0.0"},
	{"url-literal-mapped", "::ffff:224.0.0.1"}, {"url-literal-mapped", "0:0:0:0:0:ffff:127.0.0.1"}, {"url-literal-mapped", "::ffff:ac10:1"},
}

// literals just outside the forbidden ranges (and classes the property does not name): benign.
var edgeLiterals = []string{"172.15.255.255", "172.32.0.1", "11.0.0.1", "9.255.255.255", "128.0.0.1", "126.255.255.255",
	"169.253.1.1", "169.255.0.1", "192.169.0.1", "192.167.255.255", "223.255.255.254", "2606:2800:220:1::1", "::ffff:8.8.8.8",
	"fec0::1", "fe7f::1", "fbff::1", "100.64.0.1", "2001:db8::1"}

func urlFormItems() []item {
	var its []item
	// schemes other than http(s): H is a reachable public host, so a client that followed the URL
	// anyway would be seen dialling it
	for _, s := range []struct{ label, format string }{
		{"scheme-ftp", "ftp://%s%s"}, {"scheme-file-host", "file://%s%s"}, {"scheme-gopher", "gopher://%s:70%s"},
		{"scheme-ws", "ws://%s%s"}, {"scheme-httpx", "httpx://%s%s"}, {"scheme-ldap", "ldap://%s%s"},
		{"scheme-none", "//%s%s"}, {"scheme-http-oneslash", "http:/%s%s"}, {"scheme-empty", "://%s%s"},
		{"scheme-ftp-upper", "FTP://%s%s"}, {"scheme-jar", "jar:http://%s%s!/"}, {"scheme-netdoc", "netdoc://%s%s"},
	} {
		s := s
		its = append(its, item{s.label, func(b *builder) {
			n := b.name(0)
			ip := pubIP(b.r)
			sch := strings.ToLower(strings.SplitN(s.format, ":", 2)[0])
			if strings.HasPrefix(s.format, "//") || strings.HasPrefix(s.format, "://") {
				sch = ""
			}
			b.rawHop(fmt.Sprintf(s.format, n, b.path(0)), n, sch, "url-"+s.label, "scheme", one(ip), []string{ip})
		}})
	}
	its = append(its,
		item{"scheme-file-local", func(b *builder) {
			b.rawHop("file:///etc/hostname", "", "file", "url-scheme-file-local", "scheme", nil, nil)
		}},
		item{"scheme-data", func(b *builder) {
			b.rawHop("data:image/png;base64,iVBORw0KGgo=", "", "data", "url-scheme-data", "scheme", nil, nil)
		}},
		item{"scheme-mailto", func(b *builder) {
			b.rawHop("mailto:ca@example.org", "", "mailto", "url-scheme-mailto", "scheme", nil, nil)
		}},
	)
	// benign scheme spellings: must simply work (control for the scheme check not being vacuous)
	for _, s := range []struct{ label, scheme string }{{"scheme-HTTP-upper", "HTTP"}, {"scheme-hTTps-mixed", "hTTps"}, {"scheme-http", "http"}, {"scheme-https", "https"}} {
		s := s
		its = append(its, item{s.label, func(b *builder) {
			h := b.pubHop(strings.ToLower(s.scheme))
			h.URL = s.scheme + h.URL[len(s.scheme):]
			b.sc.ExpectFetch = true
		}})
	}
	// userinfo
	for _, s := range []struct{ label, ui string }{
		{"userinfo-user", "user@"}, {"userinfo-userpw", "user:secret@"}, {"userinfo-empty", "@"}, {"userinfo-emptypw", ":@"},
		{"userinfo-encoded", "us%65r:p%40w@"}, {"userinfo-looks-like-host", "127.0.0.1@"}, {"userinfo-looks-like-url", "trusted.example.org:80@"},
		{"userinfo-colon-only", ":pw@"},
	} {
		s := s
		its = append(its, item{s.label, func(b *builder) {
			sch := b.scheme()
			n := b.name(0)
			ip := pubIP(b.r)
			b.rawHop(sch+"://"+s.ui+n+b.port(sch)+b.path(0), n, sch, "url-"+s.label, "userinfo", one(ip), []string{ip})
		}})
	}
	its = append(its,
		item{"userinfo-then-private-literal", func(b *builder) {
			// "http://public-name@127.0.0.1/": the host is the loopback literal
			b.rawHop("http://"+b.name(0)+"@127.0.0.1"+b.path(0), "127.0.0.1", "http", "url-userinfo-then-private-literal", "userinfo", nil, nil)
		}},
		item{"fragment-confusion", func(b *builder) {
			// "http://H#@127.0.0.1/": host is H (benign); the literal must stay a fragment
			n := b.name(0)
			ip := pubIP(b.r)
			b.rawHop("http://"+n+"#@127.0.0.1"+b.path(0), n, "http", "", "", one(ip), []string{ip})
			b.sc.Ghosts = append(b.sc.Ghosts, Hop{Host: "127.0.0.1", Scheme: "http", Via: "url-fragment-confusion", URL: "(fragment of hop 0)"})
		}},
		item{"backslash-confusion", func(b *builder) {
			n := b.name(0)
			ip := pubIP(b.r)
			b.rawHop("http://"+n+"\\@127.0.0.1"+b.path(0), "127.0.0.1", "http", "url-backslash-confusion", "", nil, nil)
			b.sc.Ghosts = append(b.sc.Ghosts, Hop{Host: n, Scheme: "http", Answers: one(ip), URL: "(alternative reading of hop 0)"})
		}},
		item{"host-empty", func(b *builder) {
			b.rawHop("http://"+b.path(0), "", "http", "url-host-empty", "", nil, nil)
		}},
		item{"host-empty-port", func(b *builder) {
			b.rawHop("http://:80"+b.path(0), "", "http", "url-host-empty-port", "", nil, nil)
		}},
		item{"host-localhost", func(b *builder) {
			// "localhost" answered the way /etc/hosts does
			i := 0
			h := Hop{Host: "localhost", Scheme: "http", Via: "url-host-localhost", Answers: []netmon.Answer{{IPs: []string{"127.0.0.1", "::1"}}}}
			h.URL = "http://localhost" + b.port("http") + b.path(i)
			b.sc.Chain = append(b.sc.Chain, h)
		}},
		item{"host-localhost-dot-upper", func(b *builder) {
			h := Hop{Host: "LOCALHOST.", Scheme: "http", Via: "url-host-localhost", Answers: []netmon.Answer{{IPs: []string{"::1", "127.0.0.1"}}}}
			h.URL = "http://LOCALHOST." + b.path(0)
			b.sc.Chain = append(b.sc.Chain, h)
		}},
	)
	// ports on a benign host
	for _, p := range []string{":80", ":443", ":8080", ":65535", ":1", ":"} {
		p := p
		its = append(its, item{"port" + strings.ReplaceAll(p, ":", "-"), func(b *builder) {
			h := b.pubHop("http")
			h.URL = "http://" + h.Host + p + b.path(0)
			b.sc.ExpectFetch = true
		}})
	}
	// forbidden literals
	for _, l := range badLiterals {
		l := l
		its = append(its, item{"literal-" + l.ip, func(b *builder) { b.literalHop(b.scheme(), l.via, l.ip, false) }})
	}
	// literals at the edges: benign, reachable
	for _, ip := range edgeLiterals {
		ip := ip
		its = append(its, item{"edge-" + ip, func(b *builder) {
			b.literalHop("http", "", ip, true)
			b.sc.ExpectFetch = true
		}})
	}
	// legacy numeric hosts: names as far as Go is concerned; the scripted resolver answers like
	// getaddrinfo would (cgo resolver) — or not at all (pure Go resolver)
	for k, l := range legacyNumerics {
		l, k := l, k
		its = append(its, item{"numeric-" + l.host, func(b *builder) {
			sch := b.scheme()
			h := Hop{Host: l.host, Scheme: sch, Via: "url-numeric-legacy"}
			if k%3 != 2 {
				h.Answers = one(l.means)
			}
			h.URL = sch + "://" + l.host + b.port(sch) + b.path(0)
			b.sc.Chain = append(b.sc.Chain, h)
		}})
	}
	// Unicode digits / dots that IDNA mapping folds to an ASCII literal
	for _, u := range []struct{ label, host string }{
		{"idna-circled-digits", "①②⑦.0.0.1"}, {"idna-fullwidth-digits", "１２７.０.０.１"}, {"idna-ideographic-dot", "127。0。0。1"},
		{"idna-fullwidth-10", "１０.0.0.1"}, {"idna-halfwidth-dot", "169｡254｡169｡254"},
	} {
		u := u
		its = append(its, item{u.label, func(b *builder) {
			h := Hop{Host: u.host, Scheme: "http", Via: "url-idna-literal"}
			h.URL = "http://" + u.host + b.path(0)
			b.sc.Chain = append(b.sc.Chain, h)
			// the ASCII reading belongs to this hop too
			b.sc.Ghosts = append(b.sc.Ghosts, Hop{Host: idnaFold(u.host), Scheme: "http", Via: "url-idna-literal", URL: "(ASCII reading of hop 0)"})
		}})
	}
	return its
}

func idnaFold(s string) string {
	var sb strings.Builder
	for _, r := range s {
		switch {
		case r >= '０' && r <= '９':
			sb.WriteRune('0' + (r - '０'))
		case r >= '①' && r <= '⑨':
			sb.WriteRune('1' + (r - '①'))
		case r == '。' || r == '｡' || r == '．':
			sb.WriteByte('.')
		default:
			sb.WriteRune(r)
		}
	}
	return sb.String()
}

// ---------------------------------------------------------------- hosts that are an address literal only after IDNA mapping

// net/http maps the URL host through IDNA (UTS #46) before it asks for a connection: fullwidth
// digits become ASCII digits, U+3002 / U+FF0E / U+FF61 become '.'. Such a host is no IP literal
// for anything that looks at url.Hostname() and IS one at dial time. The percent-encoded form is
// pure ASCII in the URL text (certificate extensions carry it) and is decoded by net/url.
var idnaTargets = []struct{ label, ip string }{
	{"loopback", "127.0.0.1"}, {"rfc1918-10", "10.0.0.1"}, {"rfc1918-192", "192.168.1.10"}, {"rfc1918-172", "172.16.0.1"},
	{"metadata", "169.254.169.254"}, {"unspecified", "0.0.0.0"}, {"loopback-53", "127.0.0.53"},
}

func respell(ascii string, digit func(i int, c rune) rune, dot func(i int) rune) string {
	var sb strings.Builder
	nd, np := 0, 0
	for _, c := range ascii {
		switch {
		case c >= '0' && c <= '9':
			sb.WriteRune(digit(nd, c))
			nd++
		case c == '.':
			sb.WriteRune(dot(np))
			np++
		default:
			sb.WriteRune(c)
		}
	}
	return sb.String()
}

func fwDigit(_ int, c rune) rune    { return '０' + (c - '0') }
func asciiDigit(_ int, c rune) rune { return c }
func dotOf(r rune) func(int) rune   { return func(int) rune { return r } }

var idnaSpellings = []struct {
	label string
	spell func(ascii string) string
}{
	{"fw-digits", func(a string) string { return respell(a, fwDigit, dotOf('.')) }},
	{"ideographic-stop", func(a string) string { return respell(a, asciiDigit, dotOf('。')) }},
	{"fw-stop", func(a string) string { return respell(a, asciiDigit, dotOf('．')) }},
	{"hw-stop", func(a string) string { return respell(a, asciiDigit, dotOf('｡')) }},
	{"fw-digits+ideographic-stop", func(a string) string { return respell(a, fwDigit, dotOf('。')) }},
	{"mixed", func(a string) string {
		return respell(a, func(i int, c rune) rune {
			if i%2 == 0 {
				return fwDigit(i, c)
			}
			return c
		}, func(i int) rune { return []rune{'。', '.', '．', '｡'}[i%4] })
	}},
	{"pct-utf8", func(a string) string {
		// the fullwidth/ideographic spelling with every non-ASCII byte percent-encoded
		var sb strings.Builder
		for _, c := range []byte(respell(a, fwDigit, dotOf('。'))) {
			if c >= 0x80 {
				fmt.Fprintf(&sb, "%%%02X", c)
			} else {
				sb.WriteByte(c)
			}
		}
		return sb.String()
	}},
}

// idnaHop appends a hop whose host is spelling sp of the address ip.
func (b *builder) idnaHop(sp int, ip, via string, routed bool) {
	i := len(b.sc.Chain)
	sch := "http"
	if !routed {
		sch = b.scheme()
	}
	spelled := idnaSpellings[sp].spell(ip)
	host := spelled
	if idnaSpellings[sp].label == "pct-utf8" {
		host = respell(ip, fwDigit, dotOf('。')) // what net/url makes of it
	}
	h := Hop{Host: host, Scheme: sch, Via: via, URL: sch + "://" + spelled + b.port(sch) + b.path(i)}
	g := Hop{Host: ip, Scheme: sch, Via: via, URL: fmt.Sprintf("(ASCII reading of hop %d)", i)}
	if i > 0 && via != "" {
		g.Via = "redirect-" + via
	}
	if routed {
		h.Routed = canonAll([]string{ip})
	}
	b.sc.Chain = append(b.sc.Chain, h)
	b.sc.Ghosts = append(b.sc.Ghosts, g)
}

func idnaItems() []item {
	var its []item
	// control: the same spellings of a PUBLIC address are fetched (shows that the mapping takes place
	// and that the mapped literal is what gets dialled)
	for _, sp := range []int{0, 4, 6} {
		sp := sp
		its = append(its, item{"control-" + idnaSpellings[sp].label + "-public", func(b *builder) {
			b.idnaHop(sp, pubV4(b.r), "", true)
			b.sc.ExpectFetch = true
		}})
	}
	for ti, tg := range idnaTargets {
		for sp, s := range idnaSpellings {
			ti, tg, sp, s := ti, tg, sp, s
			_ = ti
			its = append(its, item{s.label + "-" + tg.label, func(b *builder) {
				b.idnaHop(sp, tg.ip, "idna-literal", false)
			}})
			its = append(its, item{"pub>" + s.label + "-" + tg.label, func(b *builder) {
				for k, n := 0, 1+b.r.IntN(2); k < n; k++ {
					st := b.status()
					if b.sc.Site == siteOCSP && (st == 307 || st == 308) {
						st = 302 // a POST without GetBody is not replayed on 307/308: the target would never be asked for
					}
					b.pubHop("http").Status = st
				}
				b.idnaHop(sp, tg.ip, "idna-literal", false)
			}})
		}
	}
	return its
}

func dnsItems() []item {
	var its []item
	add := func(label string, f func(b *builder)) { its = append(its, item{label, f}) }
	for _, k := range []string{"v4", "v6", "v4+v6", "v4x3", "mapped-public"} {
		k := k
		add("all-public-"+k, func(b *builder) {
			var ips []string
			switch k {
			case "v4":
				ips = []string{pubV4(b.r)}
			case "v6":
				ips = []string{pubV6(b.r)}
			case "v4+v6":
				ips = []string{pubV4(b.r), pubV6(b.r)}
			case "v4x3":
				ips = []string{pubV4(b.r), pubV4(b.r), pubV4(b.r)}
			case "mapped-public":
				ips = []string{"::ffff:" + pubV4(b.r)}
			}
			b.nameHop(b.scheme(), "", []netmon.Answer{{IPs: ips}}, ips)
			b.sc.ExpectFetch = true
		})
	}
	for _, k := range []string{"v4", "v6", "mapped", "v4+v6", "two"} {
		k := k
		add("all-private-"+k, func(b *builder) {
			var ips []string
			switch k {
			case "v4":
				ips = []string{badV4(b.r)}
			case "v6":
				ips = []string{badV6(b.r)}
			case "mapped":
				ips = []string{badMapped(b.r)}
			case "v4+v6":
				ips = []string{badV4(b.r), badV6(b.r)}
			case "two":
				ips = []string{badIP(b.r), badIP(b.r)}
			}
			via := "dns-all-private"
			if k == "mapped" {
				via = "dns-mapped"
			}
			b.nameHop(b.scheme(), via, []netmon.Answer{{IPs: ips}}, nil)
		})
	}
	// mixed sets; "down" = the public answers are not reachable, so a client that walks the
	// answer list arrives at the private one
	for _, k := range []string{"pub-first", "pub-first-down", "priv-first", "priv-last-of-4-down", "priv-middle", "A+AAAA-loopback6", "A+AAAA-private4", "mapped-second-down"} {
		k := k
		add("mixed-"+k, func(b *builder) {
			var ips, routed []string
			p1, p2, p3 := pubV4(b.r), pubV4(b.r), pubV6(b.r)
			switch k {
			case "pub-first":
				ips, routed = []string{p1, badIP(b.r)}, []string{p1}
			case "pub-first-down":
				ips = []string{p1, badIP(b.r)}
			case "priv-first":
				ips, routed = []string{badIP(b.r), p1}, []string{p1}
			case "priv-last-of-4-down":
				ips = []string{p1, p2, p3, badIP(b.r)}
			case "priv-middle":
				ips, routed = []string{p1, badIP(b.r), p2}, []string{p1, p2}
			case "A+AAAA-loopback6":
				ips = []string{p1, "::1"}
			case "A+AAAA-private4":
				ips = []string{p3, badV4(b.r)}
			case "mapped-second-down":
				ips = []string{p1, badMapped(b.r)}
			}
			b.nameHop(b.scheme(), "dns-mixed", []netmon.Answer{{IPs: ips}}, routed)
		})
	}
	add("empty-nxdomain", func(b *builder) {
		b.nameHop(b.scheme(), "dns-empty", []netmon.Answer{{NX: true}}, nil)
	})
	add("empty-noerror", func(b *builder) {
		b.nameHop(b.scheme(), "dns-empty", []netmon.Answer{{}}, nil)
	})
	add("unknown-name", func(b *builder) {
		b.nameHop(b.scheme(), "dns-empty", nil, nil)
	})
	// rebinding: the answer changes between the first and a later query
	for _, k := range []string{"pub-then-priv", "pub-then-loopback", "pub-pub-priv", "priv-then-pub", "pub-then-mapped", "pub-then-mixed", "multi-pub-then-priv", "multi-pub-then-loopback", "multi-pub-then-multi-priv"} {
		k := k
		add("rebinding-"+k, func(b *builder) {
			p := pubIP(b.r)
			routed := []string{p}
			var ans []netmon.Answer
			switch k {
			case "pub-then-priv":
				ans = []netmon.Answer{{IPs: []string{p}}, {IPs: []string{badIP(b.r)}}}
			case "pub-then-loopback":
				ans = []netmon.Answer{{IPs: []string{p}}, {IPs: []string{"127.0.0.1"}}}
			case "pub-pub-priv":
				ans = []netmon.Answer{{IPs: []string{p}}, {IPs: []string{p}}, {IPs: []string{badIP(b.r)}}}
			case "priv-then-pub":
				ans = []netmon.Answer{{IPs: []string{badIP(b.r)}}, {IPs: []string{p}}}
			case "pub-then-mapped":
				ans = []netmon.Answer{{IPs: []string{p}}, {IPs: []string{badMapped(b.r)}}}
			case "pub-then-mixed":
				ans = []netmon.Answer{{IPs: []string{p}}, {IPs: []string{badIP(b.r), p}}}
			// several public addresses at validation time (a client may treat multi-address hosts
			// differently, e.g. hand the NAME to the dialer for address racing), hostile afterwards
			case "multi-pub-then-priv":
				p2 := pubIP(b.r)
				routed = []string{p, p2}
				ans = []netmon.Answer{{IPs: []string{p, p2}}, {IPs: []string{badIP(b.r)}}}
			case "multi-pub-then-loopback":
				p2, p3 := pubIP(b.r), pubIP(b.r)
				routed = []string{p, p2, p3}
				ans = []netmon.Answer{{IPs: []string{p, p2, p3}}, {IPs: []string{"127.0.0.1"}}}
			case "multi-pub-then-multi-priv":
				p2 := pubIP(b.r)
				routed = []string{p, p2}
				ans = []netmon.Answer{{IPs: []string{p, p2}}, {IPs: []string{badIP(b.r), badIP(b.r)}}}
			}
			b.nameHop(b.scheme(), "dns-rebinding", ans, routed)
			b.sc.ExpectFetch = k != "priv-then-pub"
		})
	}
	return its
}

func upperSome(r *rand.Rand, s string) string {
	bs := []byte(s)
	for i := range bs {
		if r.IntN(2) == 0 && bs[i] >= 'a' && bs[i] <= 'z' {
			bs[i] -= 32
		}
	}
	if string(bs) == s {
		return strings.ToUpper(s)
	}
	return string(bs)
}

func allowItems() []item {
	var its []item
	add := func(label string, f func(b *builder)) { its = append(its, item{label, f}) }
	intra := func(b *builder) string { return fmt.Sprintf("crl.intra.s%d.example", b.sc.ID) }
	// listed host in varied spellings (URL side and list side): the private dial is permitted for
	// revocation checks; image fetches have no allow-list, the same set-up must not dial
	for _, v := range []string{"exact", "url-upper", "url-mixed-case", "url-trailing-dot", "url-upper+dot", "entry-upper", "entry-trailing-dot",
		"entry-spaces", "entry-among-many", "entry-mixed+url-mixed", "dns-mixed-answers", "https"} {
		v := v
		add("listed-"+v, func(b *builder) {
			a := intra(b)
			ip := intraIP(b.r)
			urlHost, entry := a, a
			switch v {
			case "url-upper":
				urlHost = strings.ToUpper(a)
			case "url-mixed-case":
				urlHost = upperSome(b.r, a)
			case "url-trailing-dot":
				urlHost = a + "."
			case "url-upper+dot":
				urlHost = strings.ToUpper(a) + "."
			case "entry-upper":
				entry = strings.ToUpper(a)
			case "entry-trailing-dot":
				entry = a + "."
			case "entry-spaces":
				entry = "  " + a + " "
			case "entry-mixed+url-mixed":
				entry, urlHost = upperSome(b.r, a), upperSome(b.r, a)+"."
			}
			b.sc.Allow = []string{entry}
			if v == "entry-among-many" {
				b.sc.Allow = []string{"ocsp.corp.example", "pki.lan", entry, "10.1.1.1"}
			}
			ips := []string{ip}
			if v == "dns-mixed-answers" {
				ips = []string{ip, pubV4(b.r)}
			}
			sch := "http"
			if v == "https" {
				sch = "https"
			}
			h := Hop{Host: urlHost, Scheme: sch, Via: "allowlist-not-for-images", Answers: []netmon.Answer{{IPs: ips}}, Routed: canonAll(ips)}
			h.URL = sch + "://" + urlHost + b.port(sch) + b.path(0)
			b.sc.Chain = append(b.sc.Chain, h)
			if isRevocation(b.sc.Site) {
				b.sc.ExpectAllowDial = true
				b.sc.ExpectFetch = true
			}
		})
	}
	add("listed-ip-literal", func(b *builder) {
		ip := fmt.Sprintf("10.%d.%d.%d", b.r.IntN(256), b.r.IntN(256), 1+b.r.IntN(254))
		b.sc.Allow = []string{ip}
		b.literalHop("http", "allowlist-not-for-images", ip, true)
		if isRevocation(b.sc.Site) {
			b.sc.ExpectAllowDial = true
			b.sc.ExpectFetch = true
		}
	})
	// look-alikes of a listed host: not listed, so their private addresses stay forbidden
	for _, v := range []string{"suffix-appended", "prefix-glued", "parent-domain", "subdomain", "dots-to-dashes", "char-appended", "char-removed",
		"other-tld", "same-ip-other-name", "entry-empty", "entry-dot", "entry-star", "entry-star-suffix", "entry-with-port", "entry-with-scheme", "homoglyph"} {
		v := v
		add("lookalike-"+v, func(b *builder) {
			a := intra(b)
			ip := intraIP(b.r)
			b.sc.Allow = []string{a}
			urlHost := a
			switch v {
			case "suffix-appended":
				urlHost = a + ".evil.test"
			case "prefix-glued":
				urlHost = "x" + a
			case "parent-domain":
				urlHost = strings.SplitN(a, ".", 2)[1]
			case "subdomain":
				urlHost = "sub." + a
			case "dots-to-dashes":
				urlHost = strings.Replace(a, ".", "-", 1)
			case "char-appended":
				urlHost = a + "s"
			case "char-removed":
				urlHost = a[:len(a)-1]
			case "other-tld":
				urlHost = strings.TrimSuffix(a, "example") + "test"
			case "same-ip-other-name":
				urlHost = fmt.Sprintf("other.s%d.test", b.sc.ID)
			case "entry-empty":
				b.sc.Allow = []string{""}
			case "entry-dot":
				b.sc.Allow = []string{"."}
			case "entry-star":
				b.sc.Allow = []string{"*"}
			case "entry-star-suffix":
				b.sc.Allow = []string{"*." + strings.SplitN(a, ".", 2)[1]}
			case "entry-with-port":
				b.sc.Allow = []string{a + ":80"}
			case "entry-with-scheme":
				b.sc.Allow = []string{"http://" + a}
			case "homoglyph":
				urlHost = strings.Replace(a, "l", "1", 1)
			}
			h := Hop{Host: urlHost, Scheme: "http", Via: "allowlist-lookalike", Answers: one(ip)}
			h.URL = "http://" + urlHost + b.path(0)
			b.sc.Chain = append(b.sc.Chain, h)
		})
	}
	return its
}

func redirectItems() []item {
	var its []item
	add := func(label string, f func(b *builder)) { its = append(its, item{label, f}) }
	lead := func(b *builder, n int) {
		for i := 0; i < n; i++ {
			b.pubHop("http").Status = b.status()
		}
	}
	for _, n := range []int{1, 2, 3, 5, 9, 10, 11, 12} {
		n := n
		add(fmt.Sprintf("pub*%d>private-name", n), func(b *builder) {
			lead(b, n)
			b.nameHop(b.scheme(), "private-name", one(badIP(b.r)), nil)
		})
	}
	for _, l := range []struct{ label, ip string }{
		{"loopback-v4", "127.0.0.1"}, {"loopback-v6", "::1"}, {"metadata", "169.254.169.254"}, {"rfc1918", "192.168.1.10"},
		{"mapped", "::ffff:127.0.0.1"}, {"mapped-hex", "::ffff:a00:1"}, {"unspecified", "0.0.0.0"}, {"ula", "fd00::1"}, {"linklocal-zone", "fe80::1%eth0"},
		{"multicast", "224.0.0.251"},
	} {
		l := l
		add("pub>literal-"+l.label, func(b *builder) {
			lead(b, 1+b.r.IntN(2))
			b.literalHop(b.scheme(), "private-literal", l.ip, false)
		})
	}
	add("pub>numeric-legacy", func(b *builder) {
		lead(b, 1)
		l := legacyNumerics[b.r.IntN(len(legacyNumerics))]
		i := len(b.sc.Chain)
		b.sc.Chain = append(b.sc.Chain, Hop{Host: l.host, Scheme: "http", Via: "numeric-legacy", Answers: one(l.means), URL: "http://" + l.host + b.path(i)})
	})
	for _, s := range []string{"ftp", "file", "gopher", "ldap", "ws"} {
		s := s
		add("pub>scheme-"+s, func(b *builder) {
			lead(b, 1+b.r.IntN(2))
			i := len(b.sc.Chain)
			n := b.name(i)
			ip := pubIP(b.r)
			b.rawHop(s+"://"+n+b.path(i), n, s, "scheme-"+s, "scheme", one(ip), []string{ip})
		})
	}
	add("pub>scheme-data", func(b *builder) {
		lead(b, 1)
		b.rawHop("data:image/png;base64,iVBORw0KGgo=", "", "data", "scheme-data", "scheme", nil, nil)
	})
	for _, ui := range []string{"user:pw@", "user@", "@"} {
		ui := ui
		add("pub>userinfo-"+ui, func(b *builder) {
			lead(b, 1+b.r.IntN(2))
			i := len(b.sc.Chain)
			n := b.name(i)
			ip := pubIP(b.r)
			sch := b.scheme()
			b.rawHop(sch+"://"+ui+n+b.path(i), n, sch, "userinfo", "userinfo", one(ip), []string{ip})
		})
	}
	add("pub>userinfo-same-host", func(b *builder) {
		// redirect to the SAME reachable host with credentials added
		h0 := b.pubHop("http")
		h0.Status = b.status()
		b.sc.Chain = append(b.sc.Chain, Hop{URL: "http://user:pw@" + h0.Host + b.path(1), Host: h0.Host, Scheme: "http", Via: "userinfo-same-host", Forbid: "userinfo"})
	})
	// benign chains: controls that redirects are really played
	for _, st := range redirectCodes {
		st := st
		add(fmt.Sprintf("pub>pub-%d", st), func(b *builder) {
			b.pubHop("http").Status = st
			b.pubHop("http")
			// 307/308 cannot be replayed for a POST without GetBody (OCSP): not a control there
			b.sc.ExpectFetch = !(b.sc.Site == siteOCSP && (st == 307 || st == 308))
		})
	}
	add("pub>https-pub", func(b *builder) {
		b.pubHop("http").Status = 302
		b.pubHop("https")
		b.sc.ExpectFetch = true
	})
	add("https-pub>http-pub", func(b *builder) {
		b.pubHop("https").Status = 301
		b.pubHop("http")
		b.sc.ExpectFetch = true
	})
	add("https-pub>private", func(b *builder) {
		b.pubHop("https").Status = 302
		b.nameHop("http", "private-name", one(badIP(b.r)), nil)
	})
	add("pub>relative", func(b *builder) {
		h0 := b.pubHop("http")
		h0.Status = 302
		b.sc.Chain = append(b.sc.Chain, Hop{URL: b.path(1), Host: h0.Host, Scheme: "http"})
		b.sc.ExpectFetch = true
	})
	add("pub>scheme-relative-private", func(b *builder) {
		lead(b, 1)
		i := len(b.sc.Chain)
		n := b.name(i)
		b.sc.Chain = append(b.sc.Chain, Hop{URL: "//" + n + b.path(i), Host: n, Scheme: "http", Via: "private-name", Answers: one(badIP(b.r))})
	})
	add("pub*12", func(b *builder) {
		// more than ten benign hops: nothing forbidden in it; how far a client follows is counted
		for i := 0; i < 13; i++ {
			b.pubHop("http").Status = 302
		}
	})
	add("pub>rebinding", func(b *builder) {
		lead(b, 1)
		p := pubIP(b.r)
		b.nameHop("http", "dns-rebinding", []netmon.Answer{{IPs: []string{p}}, {IPs: []string{badIP(b.r)}}}, []string{p})
		b.sc.ExpectFetch = true
	})
	add("pub>rebinding-multi", func(b *builder) {
		lead(b, 1)
		p, p2 := pubIP(b.r), pubIP(b.r)
		b.nameHop("http", "dns-rebinding", []netmon.Answer{{IPs: []string{p, p2}}, {IPs: []string{badIP(b.r)}}}, []string{p, p2})
		b.sc.ExpectFetch = true
	})
	add("pub>mixed-dns-down", func(b *builder) {
		lead(b, 1)
		b.nameHop("http", "dns-mixed", []netmon.Answer{{IPs: []string{pubV4(b.r), badIP(b.r)}}}, nil)
	})
	add("pub>pub>loop-back-to-first", func(b *builder) {
		// a small loop, ended by the server after two rounds via a private target
		lead(b, 2)
		b.sc.Chain = append(b.sc.Chain, Hop{URL: b.sc.Chain[0].URL[:strings.Index(b.sc.Chain[0].URL, "/s")] + b.path(2), Host: b.sc.Chain[0].Host, Scheme: "http", Status: 302})
		b.literalHop("http", "private-literal", "10.0.0.1", false)
	})
	// allow-list and redirects (the list only matters for revocation checks)
	add("listed>private-not-listed", func(b *builder) {
		a := fmt.Sprintf("crl.intra.s%d.example", b.sc.ID)
		ip := intraIP(b.r)
		b.sc.Allow = []string{a}
		h := Hop{Host: a, Scheme: "http", Via: "allowlist-not-for-images", Answers: one(ip), Routed: canonAll([]string{ip}), Status: b.status()}
		h.URL = "http://" + a + b.path(0)
		b.sc.Chain = append(b.sc.Chain, h)
		b.nameHop("http", "private-name-after-listed", one(intraIP(b.r)), nil)
		b.sc.ExpectAllowDial = isRevocation(b.sc.Site)
	})
	add("listed>private-literal", func(b *builder) {
		a := fmt.Sprintf("crl.intra.s%d.example", b.sc.ID)
		ip := intraIP(b.r)
		b.sc.Allow = []string{a}
		h := Hop{Host: a, Scheme: "http", Via: "allowlist-not-for-images", Answers: one(ip), Routed: canonAll([]string{ip}), Status: 302}
		h.URL = "http://" + a + b.path(0)
		b.sc.Chain = append(b.sc.Chain, h)
		b.literalHop("http", "private-literal-after-listed", "127.0.0.1", false)
		b.sc.ExpectAllowDial = isRevocation(b.sc.Site)
	})
	add("listed>lookalike", func(b *builder) {
		a := fmt.Sprintf("crl.intra.s%d.example", b.sc.ID)
		ip := intraIP(b.r)
		b.sc.Allow = []string{a}
		h := Hop{Host: a, Scheme: "http", Via: "allowlist-not-for-images", Answers: one(ip), Routed: canonAll([]string{ip}), Status: 302}
		h.URL = "http://" + a + b.path(0)
		b.sc.Chain = append(b.sc.Chain, h)
		la := a + ".evil.test"
		b.sc.Chain = append(b.sc.Chain, Hop{URL: "http://" + la + b.path(1), Host: la, Scheme: "http", Via: "allowlist-lookalike", Answers: one(intraIP(b.r))})
		b.sc.ExpectAllowDial = isRevocation(b.sc.Site)
	})
	add("pub>listed", func(b *builder) {
		// a redirect TO a listed host is held to the same rule: listed, so permitted (revocation)
		lead(b, 1)
		a := fmt.Sprintf("crl.intra.s%d.example", b.sc.ID)
		ip := intraIP(b.r)
		b.sc.Allow = []string{a}
		i := len(b.sc.Chain)
		h := Hop{Host: strings.ToUpper(a), Scheme: "http", Via: "allowlist-not-for-images", Answers: one(ip), Routed: canonAll([]string{ip})}
		h.URL = "http://" + strings.ToUpper(a) + b.path(i)
		b.sc.Chain = append(b.sc.Chain, h)
	})
	add("listed>pub", func(b *builder) {
		a := fmt.Sprintf("crl.intra.s%d.example", b.sc.ID)
		ip := intraIP(b.r)
		b.sc.Allow = []string{a}
		h := Hop{Host: a, Scheme: "http", Via: "allowlist-not-for-images", Answers: one(ip), Routed: canonAll([]string{ip}), Status: 302}
		h.URL = "http://" + a + b.path(0)
		b.sc.Chain = append(b.sc.Chain, h)
		b.pubHop("http")
		b.sc.ExpectAllowDial = isRevocation(b.sc.Site)
		b.sc.ExpectFetch = isRevocation(b.sc.Site)
	})
	return its
}

func controlItems() []item {
	return []item{
		{"public-http", func(b *builder) { b.pubHop("http"); b.sc.ExpectFetch = true }},
		{"public-https", func(b *builder) { b.pubHop("https"); b.sc.ExpectFetch = true }},
		{"public-http-redirect", func(b *builder) { b.pubHop("http").Status = 302; b.pubHop("http"); b.sc.ExpectFetch = true }},
	}
}

// coreLabels: items that every run (every seed, quick tier included) executes at every site; the
// remaining items of a group fill the rest of the budget round-robin.
var coreLabels = func() map[string]bool {
	m := map[string]bool{}
	for _, l := range []string{
		"url/scheme-ftp", "url/scheme-file-host", "url/userinfo-userpw", "url/userinfo-empty", "url/literal-127.0.0.1", "url/literal-::1",
		"url/literal-::ffff:127.0.0.1", "url/literal-169.254.169.254", "url/literal-fe80::1%eth0", "url/literal-0.0.0.0",
		"url/numeric-2130706433", "url/edge-172.32.0.1", "url/scheme-HTTP-upper", "url/host-localhost",
		"dns/all-public-v4+v6", "dns/all-private-v4", "dns/all-private-mapped", "dns/mixed-pub-first-down", "dns/mixed-priv-first",
		"dns/mixed-priv-last-of-4-down", "dns/empty-noerror", "dns/rebinding-pub-then-priv", "dns/rebinding-pub-pub-priv", "dns/rebinding-multi-pub-then-priv", "dns/rebinding-multi-pub-then-loopback",
		"allow/listed-exact", "allow/listed-url-upper+dot", "allow/listed-entry-mixed+url-mixed", "allow/lookalike-suffix-appended",
		"allow/lookalike-prefix-glued", "allow/lookalike-subdomain", "allow/lookalike-same-ip-other-name",
		"redirect/pub*1>private-name", "redirect/pub>literal-loopback-v4", "redirect/pub>literal-mapped", "redirect/pub>literal-metadata",
		"redirect/pub>userinfo-user:pw@", "redirect/pub>userinfo-same-host", "redirect/pub>scheme-ftp", "redirect/pub>pub-302",
		"redirect/pub*11>private-name", "redirect/listed>private-not-listed", "redirect/listed>lookalike", "redirect/pub>rebinding", "redirect/pub>rebinding-multi",
		"redirect/pub>mixed-dns-down",
		// every spelling once and every target class once as the URL host, four as redirect targets
		"idna/control-fw-digits-public",
		"idna/fw-digits-loopback", "idna/ideographic-stop-rfc1918-10", "idna/fw-stop-rfc1918-192", "idna/hw-stop-rfc1918-172",
		"idna/fw-digits+ideographic-stop-metadata", "idna/mixed-unspecified", "idna/pct-utf8-loopback-53",
		"idna/pub>fw-digits+ideographic-stop-loopback", "idna/pub>mixed-metadata", "idna/pub>fw-stop-rfc1918-10", "idna/pub>pct-utf8-unspecified",
	} {
		m[l] = true
	}
	return m
}()

// groups and their share of the budget (out of 24)
var groupTable = []struct {
	name   string
	weight int
	items  []item
}{
	{"control", 1, controlItems()},
	{"url", 6, urlFormItems()},
	{"dns", 4, dnsItems()},
	{"allow", 3, allowItems()},
	{"redirect", 5, redirectItems()},
	{"idna", 4, idnaItems()},
	{"offline", 1, nil}, // built from other groups' items with Offline=true
}

var hows = map[string][]string{
	siteCreate: {"direct", "filevar", "pool"},
	siteForm:   {"direct", "filevar", "pool"},
	siteFill:   {"direct"},
	siteCRL:    {"single", "second-of-two", "first-of-two"},
	siteOCSP:   {"single", "second-of-two", "first-of-two"},
}
