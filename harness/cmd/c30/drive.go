//go:build verifshadow

package main

import (
	"bytes"
	"encoding/json"
	"errors"
	"fmt"
	"os"
	"path/filepath"

	"github.com/pdfcpu/pdfcpu/pkg/api"
	"github.com/pdfcpu/pdfcpu/pkg/pdfcpu/model"
	"github.com/pdfcpu/pdfcpu/pkg/pdfcpu/sign"
	"verif/harness/internal/vk"
)

// driver hands a scenario's URL to the real fetch site.
type driver struct {
	t        *vk.T
	e        *env
	formPDF  []byte         // pkg/samples/form/demoSinglePage/english.pdf
	fillJSON map[string]any // pkg/samples/form/fill/english.json
}

func newDriver(t *vk.T, e *env) (*driver, error) {
	d := &driver{t: t, e: e}
	var err error
	if d.formPDF, err = os.ReadFile(filepath.Join(vk.RepoDir(), "pkg/samples/form/demoSinglePage/english.pdf")); err != nil {
		return nil, err
	}
	b, err := os.ReadFile(filepath.Join(vk.RepoDir(), "pkg/samples/form/fill/english.json"))
	if err != nil {
		return nil, err
	}
	if err := json.Unmarshal(b, &d.fillJSON); err != nil {
		return nil, err
	}
	return d, nil
}

func (d *driver) conf(sc *Scenario) *model.Configuration {
	conf := model.NewDefaultConfiguration()
	conf.Offline = sc.Offline
	conf.Timeout = 3
	conf.TimeoutCRL = 3
	conf.TimeoutOCSP = 3
	conf.AllowedRevocationHosts = append([]string(nil), sc.Allow...)
	return conf
}

func (d *driver) drive(sc *Scenario) error {
	if len(sc.Chain) == 0 {
		return errors.New("empty scenario")
	}
	url := sc.Chain[0].URL
	switch sc.Site {
	case siteCreate, siteForm:
		return d.create(sc, url)
	case siteFill:
		return d.fill(sc, url)
	case siteCRL, siteOCSP:
		return d.revocation(sc, url)
	}
	return fmt.Errorf("unknown site %q", sc.Site)
}

// createJSON is a page (or form) definition with one image box whose src is the URL: written
// directly, through a "files" variable, or in the named image pool.
func createJSON(sc *Scenario, url string) ([]byte, error) {
	box := map[string]any{"pos": []int{40, 40}, "width": 60, "height": 60}
	doc := map[string]any{"paper": "A5", "origin": "LowerLeft"}
	content := map[string]any{}
	switch sc.How {
	case "filevar":
		doc["files"] = map[string]any{"pic": url}
		box["src"] = "$pic"
		content["image"] = []any{box}
	case "pool":
		doc["images"] = map[string]any{"logo": map[string]any{"src": url}}
		box["name"] = "$logo"
		content["image"] = []any{box}
	default:
		box["src"] = url
		content["image"] = []any{box}
	}
	if sc.Site == siteForm {
		doc["fonts"] = map[string]any{
			"label": map[string]any{"name": "Helvetica", "size": 11},
			"input": map[string]any{"name": "Helvetica", "size": 11},
		}
		content["textfield"] = []any{map[string]any{
			"id": "name1", "value": "x", "pos": []int{150, 300}, "width": 100,
			"label": map[string]any{"value": "Name:", "width": 60, "gap": 5, "font": map[string]any{"name": "$label"}},
		}}
		content["checkbox"] = []any{map[string]any{
			"id": "cb1", "value": true, "pos": []int{150, 260}, "width": 12,
			"label": map[string]any{"value": "ok", "width": 60, "gap": 5, "font": map[string]any{"name": "$label"}},
		}}
	}
	doc["pages"] = map[string]any{"1": map[string]any{"content": content}}
	return json.Marshal(doc)
}

func (d *driver) create(sc *Scenario, url string) error {
	js, err := createJSON(sc, url)
	if err != nil {
		return err
	}
	var out bytes.Buffer
	return api.Create(nil, bytes.NewReader(js), &out, d.conf(sc))
}

func (d *driver) fill(sc *Scenario, url string) error {
	// deep copy of the sample fill data + a page image box
	b, _ := json.Marshal(d.fillJSON)
	var doc map[string]any
	if err := json.Unmarshal(b, &doc); err != nil {
		return err
	}
	forms, _ := doc["forms"].([]any)
	if len(forms) == 0 {
		return errors.New("sample fill data has no form")
	}
	f0 := forms[0].(map[string]any)
	f0["pages"] = map[string]any{"1": map[string]any{"image": []any{
		map[string]any{"src": url, "pos": []int{40, 40}, "width": 60, "height": 60},
	}}}
	js, err := json.Marshal(doc)
	if err != nil {
		return err
	}
	var out bytes.Buffer
	return api.FillForm(bytes.NewReader(d.formPDF), bytes.NewReader(js), &out, d.conf(sc))
}

// errCertRejected: crypto/x509 would not carry the URL (not a finding, the case is skipped).
var errCertRejected = errors.New("certificate cannot carry this URL")

func (d *driver) revocation(sc *Scenario, url string) error {
	urls := []string{url}
	down := fmt.Sprintf("http://down.s%d.invalid/x", sc.ID)
	switch sc.How {
	case "second-of-two":
		urls = []string{down, url}
	case "first-of-two":
		urls = []string{url, down}
	}
	var cert, err = d.e.leaf(nil, nil)
	if sc.Site == siteCRL {
		cert, err = d.e.leaf(urls, nil)
	} else {
		cert, err = d.e.leaf(nil, urls)
	}
	if err != nil {
		d.t.Count("cert_rejected_url/"+sc.Site, 1)
		return fmt.Errorf("%w: %v", errCertRejected, err)
	}
	if err := d.e.payloads(cert); err != nil {
		return err
	}
	conf := d.conf(sc)
	var rd *model.RevocationDetails
	if sc.Site == siteCRL {
		rd, err = sign.VerifCheckCRL(cert, d.e.caCert, d.e.roots, nil, conf)
	} else {
		rd, err = sign.VerifCheckOCSP(cert, d.e.caCert, d.e.roots, nil, conf)
	}
	if err == nil && rd != nil {
		d.t.Count(fmt.Sprintf("revocation_status/%s/%v", sc.Site, rd.Status), 1)
	}
	return err
}
