//go:build verifshadow

package main

import (
	"bytes"
	"crypto"
	"crypto/ecdsa"
	"crypto/elliptic"
	"crypto/rand"
	"crypto/tls"
	"crypto/x509"
	"crypto/x509/pkix"
	"encoding/pem"
	"fmt"
	"image"
	"image/color"
	"image/png"
	"io"
	"math/big"
	"net"
	"net/http"
	"net/http/httptest"
	"os"
	"path/filepath"
	"strconv"
	"strings"
	"sync"
	"sync/atomic"
	"time"

	"golang.org/x/crypto/ocsp"
)

// The proxy named by the environment: a public-looking name on a public address, so that a
// client which honours the variables gets past pdfcpu's address checks and is seen at the canary.
const (
	canaryName = "proxy.c30-canary.example"
	canaryIP   = "203.0.113.77"
)

// Hit is one request that reached a loopback test server.
type Hit struct {
	Hop    int    `json:"hop"`
	Host   string `json:"host"`
	Method string `json:"method"`
	TLS    bool   `json:"tls,omitempty"`
	Stale  bool   `json:"stale,omitempty"` // request of another scenario id
}

// env holds what lives for the whole process: the loopback servers that play "the internet",
// the proxy canary and the PKI used for certificates, CRLs, OCSP responses and TLS.
type env struct {
	httpSrv  *httptest.Server
	tlsSrv   *httptest.Server
	httpAddr string
	tlsAddr  string

	canary     net.Listener
	canaryAddr string
	canaryHits atomic.Int64

	caKey, leafKey *ecdsa.PrivateKey
	caCert         *x509.Certificate
	roots          *x509.CertPool
	serial         atomic.Int64
	png            []byte

	mu   sync.Mutex
	cur  *Scenario
	hits []Hit
	// per scenario payloads
	crl, ocspResp []byte
	tlsCerts      map[string]*tls.Certificate
}

func newEnv(scratch string) (*env, error) {
	e := &env{tlsCerts: map[string]*tls.Certificate{}}
	var err error
	if e.caKey, err = ecdsa.GenerateKey(elliptic.P256(), rand.Reader); err != nil {
		return nil, err
	}
	if e.leafKey, err = ecdsa.GenerateKey(elliptic.P256(), rand.Reader); err != nil {
		return nil, err
	}
	e.serial.Store(1000)
	caTmpl := &x509.Certificate{
		SerialNumber: big.NewInt(1), Subject: pkix.Name{CommonName: "C30 harness CA"},
		NotBefore: time.Now().Add(-time.Hour), NotAfter: time.Now().Add(24 * time.Hour),
		IsCA: true, BasicConstraintsValid: true,
		KeyUsage: x509.KeyUsageCertSign | x509.KeyUsageCRLSign | x509.KeyUsageDigitalSignature,
	}
	der, err := x509.CreateCertificate(rand.Reader, caTmpl, caTmpl, &e.caKey.PublicKey, e.caKey)
	if err != nil {
		return nil, err
	}
	if e.caCert, err = x509.ParseCertificate(der); err != nil {
		return nil, err
	}
	e.roots = x509.NewCertPool()
	e.roots.AddCert(e.caCert)

	// The production clients verify TLS against the system roots; point those at the harness CA
	// so that https hops are played for real (the first use of the system pool happens later).
	caFile := filepath.Join(scratch, "ca.pem")
	if err := os.WriteFile(caFile, pem.EncodeToMemory(&pem.Block{Type: "CERTIFICATE", Bytes: der}), 0o644); err != nil {
		return nil, err
	}
	os.Setenv("SSL_CERT_FILE", caFile)
	os.Setenv("SSL_CERT_DIR", filepath.Join(scratch, "no-such-dir"))

	img := image.NewRGBA(image.Rect(0, 0, 2, 2))
	img.Set(0, 0, color.RGBA{255, 0, 0, 255})
	img.Set(1, 1, color.RGBA{0, 0, 255, 255})
	var buf bytes.Buffer
	if err := png.Encode(&buf, img); err != nil {
		return nil, err
	}
	e.png = buf.Bytes()

	h := http.HandlerFunc(e.handle)
	e.httpSrv = httptest.NewServer(h)
	e.tlsSrv = httptest.NewUnstartedServer(h)
	e.tlsSrv.TLS = &tls.Config{GetCertificate: e.getCertificate}
	e.tlsSrv.StartTLS()
	e.httpAddr = e.httpSrv.Listener.Addr().String()
	e.tlsAddr = e.tlsSrv.Listener.Addr().String()
	e.httpSrv.Config.ErrorLog = nil
	devnull := newDiscardLogger()
	e.httpSrv.Config.ErrorLog = devnull
	e.tlsSrv.Config.ErrorLog = devnull

	// Proxy canary: every proxy environment variable points here. Nothing may ever connect.
	e.canary, err = net.Listen("tcp", "127.0.0.1:0")
	if err != nil {
		return nil, err
	}
	e.canaryAddr = e.canary.Addr().String()
	go func() {
		for {
			c, err := e.canary.Accept()
			if err != nil {
				return
			}
			e.canaryHits.Add(1)
			// behave like a proxy that refuses: answer and close
			c.SetDeadline(time.Now().Add(time.Second))
			io.WriteString(c, "HTTP/1.1 502 canary\r\nContent-Length: 0\r\nConnection: close\r\n\r\n")
			c.Close()
		}
	}()
	for _, k := range []string{"HTTP_PROXY", "HTTPS_PROXY", "ALL_PROXY", "http_proxy", "https_proxy", "all_proxy"} {
		os.Setenv(k, "http://"+canaryName+":3128")
	}
	os.Unsetenv("NO_PROXY")
	os.Unsetenv("no_proxy")
	return e, nil
}

func (e *env) close() {
	e.httpSrv.Close()
	e.tlsSrv.Close()
	e.canary.Close()
}

// begin makes sc the scenario the servers answer for.
func (e *env) begin(sc *Scenario) {
	e.mu.Lock()
	e.cur = sc
	e.hits = nil
	e.crl, e.ocspResp = nil, nil
	e.tlsCerts = map[string]*tls.Certificate{}
	e.mu.Unlock()
}

func (e *env) end() []Hit {
	e.mu.Lock()
	defer e.mu.Unlock()
	e.cur = nil
	return e.hits
}

// hop URLs carry "/s<scenario id>/h<hop index>/" so that the servers know which hop was asked.
func parseHopPath(p string) (sid, hop int, ok bool) {
	parts := strings.Split(strings.TrimPrefix(p, "/"), "/")
	if len(parts) < 2 || !strings.HasPrefix(parts[0], "s") || !strings.HasPrefix(parts[1], "h") {
		return 0, 0, false
	}
	sid, err1 := strconv.Atoi(parts[0][1:])
	hop, err2 := strconv.Atoi(parts[1][1:])
	return sid, hop, err1 == nil && err2 == nil
}

func (e *env) handle(w http.ResponseWriter, r *http.Request) {
	io.Copy(io.Discard, r.Body)
	sid, hop, ok := parseHopPath(r.URL.Path)
	e.mu.Lock()
	sc := e.cur
	h := Hit{Hop: hop, Host: r.Host, Method: r.Method, TLS: r.TLS != nil}
	if sc == nil || !ok || sid != sc.ID || hop < 0 || hop >= len(sc.Chain) {
		h.Stale = true
		e.hits = append(e.hits, h)
		e.mu.Unlock()
		http.NotFound(w, r)
		return
	}
	e.hits = append(e.hits, h)
	crl, oc := e.crl, e.ocspResp
	e.mu.Unlock()
	if hop+1 < len(sc.Chain) {
		st := sc.Chain[hop].Status
		if st == 0 {
			st = http.StatusFound
		}
		w.Header().Set("Location", sc.Chain[hop+1].URL)
		w.WriteHeader(st)
		return
	}
	switch sc.Site {
	case siteCRL:
		w.Header().Set("Content-Type", "application/pkix-crl")
		w.Write(crl)
	case siteOCSP:
		w.Header().Set("Content-Type", "application/ocsp-response")
		w.Write(oc)
	default:
		w.Header().Set("Content-Type", "image/png")
		w.Write(e.png)
	}
}

// getCertificate mints a server certificate for whatever name (or, without SNI, whatever
// addresses the current scenario uses), signed by the harness CA.
func (e *env) getCertificate(hello *tls.ClientHelloInfo) (*tls.Certificate, error) {
	e.mu.Lock()
	defer e.mu.Unlock()
	key := hello.ServerName
	if c := e.tlsCerts[key]; c != nil {
		return c, nil
	}
	tmpl := &x509.Certificate{
		SerialNumber: big.NewInt(e.serial.Add(1)), Subject: pkix.Name{CommonName: "C30 test server"},
		NotBefore: time.Now().Add(-time.Hour), NotAfter: time.Now().Add(24 * time.Hour),
		KeyUsage: x509.KeyUsageDigitalSignature, ExtKeyUsage: []x509.ExtKeyUsage{x509.ExtKeyUsageServerAuth},
	}
	if key != "" {
		tmpl.DNSNames = []string{key}
	} else if e.cur != nil {
		for _, ip := range e.cur.allIPs() {
			if p := net.ParseIP(ip); p != nil {
				tmpl.IPAddresses = append(tmpl.IPAddresses, p)
			}
		}
	}
	der, err := x509.CreateCertificate(rand.Reader, tmpl, e.caCert, &e.leafKey.PublicKey, e.caKey)
	if err != nil {
		return nil, err
	}
	c := &tls.Certificate{Certificate: [][]byte{der}, PrivateKey: e.leafKey}
	e.tlsCerts[key] = c
	return c, nil
}

// leaf makes an end-entity certificate that carries the given revocation URLs, the way a
// certificate taken from a signed PDF would: created, DER-encoded and parsed back.
func (e *env) leaf(crlURLs, ocspURLs []string) (*x509.Certificate, error) {
	tmpl := &x509.Certificate{
		SerialNumber: big.NewInt(e.serial.Add(1)), Subject: pkix.Name{CommonName: "C30 signer"},
		NotBefore: time.Now().Add(-time.Hour), NotAfter: time.Now().Add(24 * time.Hour),
		KeyUsage:              x509.KeyUsageDigitalSignature,
		CRLDistributionPoints: crlURLs,
		OCSPServer:            ocspURLs,
	}
	der, err := x509.CreateCertificate(rand.Reader, tmpl, e.caCert, &e.leafKey.PublicKey, e.caKey)
	if err != nil {
		return nil, fmt.Errorf("create: %w", err)
	}
	c, err := x509.ParseCertificate(der)
	if err != nil {
		return nil, fmt.Errorf("parse: %w", err)
	}
	return c, nil
}

// payloads prepares a good CRL and a good OCSP response for cert.
func (e *env) payloads(cert *x509.Certificate) error {
	now := time.Now()
	crl, err := x509.CreateRevocationList(rand.Reader, &x509.RevocationList{
		Number: big.NewInt(1), ThisUpdate: now.Add(-time.Minute), NextUpdate: now.Add(time.Hour),
	}, e.caCert, e.caKey)
	if err != nil {
		return err
	}
	resp, err := ocsp.CreateResponse(e.caCert, e.caCert, ocsp.Response{
		Status: ocsp.Good, SerialNumber: cert.SerialNumber,
		ThisUpdate: now.Add(-time.Minute), NextUpdate: now.Add(time.Hour),
		IssuerHash: crypto.SHA1,
	}, e.caKey)
	if err != nil {
		return err
	}
	e.mu.Lock()
	e.crl, e.ocspResp = crl, resp
	e.mu.Unlock()
	return nil
}
