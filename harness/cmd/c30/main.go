//go:build verifshadow

// C30 — network fetches never reach private or local addresses.
//
// Runtime monitor on package net itself (shadow GOROOT, internal/netmon): every name lookup and
// every concrete socket address that ANY code in the process is about to connect to is logged
// while pdfcpu's real fetch sites run — image boxes with a remote src through api.Create (page and
// form definitions) and api.FillForm (fill data), CRL and OCSP checks through the production
// functions with the production HTTP client on harness-made certificates. DNS is scripted per
// scenario; "public" addresses are made reachable by steering the socket to loopback test servers
// (plain and TLS, the latter with certificates the production client accepts), so redirect chains
// are played by net/http for real. The oracle reads the log: the address that was ASKED for is
// classified by internal/ref/ipclass (written from the RFCs, not from package net), attributed to
// the URL hop that owns it, and judged against the property text.
package main

import (
	"encoding/json"
	"fmt"
	"io"
	"log"
	"net"
	"os"
	"sort"
	"strings"
	"time"

	"github.com/pdfcpu/pdfcpu/pkg/api"
	"verif/harness/internal/netmon"
	"verif/harness/internal/ref/ipclass"
	"verif/harness/internal/vk"
)

func newDiscardLogger() *log.Logger { return log.New(io.Discard, "", 0) }

func main() {
	vk.Run("C30", "exploration", func(t *vk.T) {
		api.DisableConfigDir()
		t.Rule("case = (fetch site, how the URL is handed over, URL chain incl. redirects, scripted DNS answers per query, allow-list, offline switch); " +
			"non-trivial = distinct (site, group, item) where the item names the URL form / literal / answer-set shape / allow-list spelling / redirect chain; " +
			"items of a group are walked round-robin per site, their addresses, names, ports and schemes are drawn from the seed; "+
			"group idna = hosts that are an address literal only after the IDNA/UTS-46 mapping net/http applies before dialling (fullwidth digits, U+3002, U+FF0E, U+FF61, mixed, percent-encoded UTF-8) x loopback/RFC 1918/link-local/unspecified targets x {URL host, redirect target}: every spelling and every target class is a core item at every site")
		t.Assume("observation point: hooks inside package net (Resolver.lookupIPAddr, Dialer.DialContext, sysDialer.dialSingle) on the shadow GOROOT; a connection made without package net (raw syscalls) would not be seen — pdfcpu and its dependencies have none")
		t.Assume("the address judged is the one pdfcpu asked package net to connect to; the socket itself is steered to a loopback test server or refused by the hook, no packet leaves the sandbox")
		t.Assume("forbidden classes are exactly those the property names: loopback 127/8 ::1, private 10/8 172.16/12 192.168/16 fc00::/7, link-local 169.254/16 fe80::/10, multicast 224/4 ff00::/8, unspecified 0.0.0.0 ::, and their IPv4-mapped forms; CGNAT, 0/8, 240/4, NAT64, IPv4-compatible are counted, not judged")
		t.Assume("allow-listed = site is a revocation check and the URL host equals an entry of conf.AllowedRevocationHosts ignoring ASCII case, surrounding blanks of the entry and one trailing dot")
		t.Assume("a DNS lookup is not a connection: lookups are counted, not judged; the conf.Offline switch is not part of the property statement: the offline control group is counted under observed_only/offline-* (on the unchanged tree api.Create ignores conf.Offline for remote image boxes: create.parseFromJSON does not pass Offline/Timeout to primitives.PDF), every other rule applies to offline scenarios as well")

		e, err := newEnv(t.Scratch())
		if err != nil {
			t.Broken("environment: %v", err)
		}
		defer e.close()
		d, err := newDriver(t, e)
		if err != nil {
			t.Broken("driver: %v", err)
		}

		if t.Replay != nil {
			var sc Scenario
			if err := json.Unmarshal(t.Replay.Case, &sc); err != nil {
				t.Broken("replay case: %v", err)
			}
			runScenario(t, e, d, &sc)
			t.Eval("replay")
			t.Eval("replay2")
			return
		}

		n := t.Pick(480, 6000) // 4 resp. 50 rounds of the 24-slot group wheel at each of the 5 sites
		scs := schedule(t, n)
		for i := range scs {
			runScenario(t, e, d, &scs[i])
		}
		t.Count("proxy_canary_connections", e.canaryHits.Load())
		observeLinks(t, e)
		t.Count("stray_events_outside_scenarios", netmon.Strays())

		// controls: a site where no benign public URL was really fetched has shown nothing
		for _, s := range sites {
			if t.Counter("control_fetched/"+s) == 0 {
				t.Inconclusive("site=" + s + "/control-not-fetched")
			}
			if t.Counter("dials/"+s+"/public") == 0 {
				t.Inconclusive("site=" + s + "/no-dial-observed")
			}
		}
		for _, s := range sites {
			if t.Counter("idna_mapped_literal_asked/"+s) == 0 {
				t.Inconclusive("site=" + s + "/idna-mapped-literal-never-asked")
			}
		}
		for _, s := range []string{siteCRL, siteOCSP} {
			if t.Counter("dials/"+s+"/allowlisted") == 0 {
				t.Inconclusive("site=" + s + "/allowlisted-host-never-dialled")
			}
		}
	})
}

// schedule builds the n scenarios of this run: sites round-robin, groups by weight, items of a
// (site, group) pair round-robin from a seed-dependent starting offset.
func schedule(t *vk.T, n int) []Scenario {
	var wheel []int
	for gi, g := range groupTable {
		for k := 0; k < g.weight; k++ {
			wheel = append(wheel, gi)
		}
	}
	r0 := t.RNG("schedule")
	r0.Shuffle(len(wheel), func(i, j int) { wheel[i], wheel[j] = wheel[j], wheel[i] })
	offset := map[string]int{}
	counter := map[string]int{}
	// offline group: the benign shapes first (a client that ignored the switch WOULD fetch them),
	// then everything else
	hostile := append([]item(nil), controlItems()...)
	for _, g := range groupTable {
		if g.name != "control" {
			hostile = append(hostile, g.items...)
		}
	}
	have := map[string]bool{}
	for _, g := range groupTable {
		for _, it := range g.items {
			have[g.name+"/"+it.label] = true
		}
	}
	for l := range coreLabels {
		if !have[l] {
			t.Broken("core item %q does not exist", l)
		}
	}
	out := make([]Scenario, 0, n)
	for i := 0; i < n; i++ {
		site := sites[i%len(sites)]
		g := groupTable[wheel[(i/len(sites))%len(wheel)]]
		r := t.RNGi("scenario", i)
		sc := Scenario{ID: i + 1, Site: site, Group: g.name}
		items := g.items
		if g.name == "offline" {
			items = hostile
		}
		key := site + "/" + g.name
		// core items first, in list order, at every seed; the others round-robin from a
		// seed-dependent offset
		var core, more []item
		for _, it := range items {
			if coreLabels[g.name+"/"+it.label] || g.name == "control" || (g.name == "offline" && len(core) < len(controlItems())) {
				core = append(core, it)
			} else {
				more = append(more, it)
			}
		}
		if _, ok := offset[key]; !ok && len(more) > 0 {
			offset[key] = t.RNG("offset/" + key).IntN(len(more))
		}
		var it item
		if k := counter[key]; k < len(core) {
			it = core[k]
		} else if len(more) > 0 {
			it = more[(offset[key]+k-len(core))%len(more)]
		} else {
			it = core[k%len(core)]
		}
		counter[key]++
		sc.Label = it.label
		hw := hows[site]
		sc.How = hw[r.IntN(len(hw))]
		b := &builder{r: r, sc: &sc}
		it.build(b)
		if g.name == "offline" {
			sc.Offline = true
			sc.ExpectFetch, sc.ExpectAllowDial = false, false
		}
		out = append(out, sc)
	}
	return out
}

// script turns a scenario into what the interposer answers.
func script(e *env, sc *Scenario) *netmon.Script {
	s := &netmon.Script{Hosts: map[string][]netmon.Answer{}, Routes: map[string]string{}, RoutePort: map[string]string{}}
	for _, h := range append(append([]Hop(nil), sc.Chain...), sc.Ghosts...) {
		if len(h.Answers) > 0 && netmon.CanonIP(h.Host) == "" && h.Host != "" {
			s.Hosts[netmon.Norm(h.Host)] = h.Answers
		}
		to := e.httpAddr
		if h.Scheme == "https" {
			to = e.tlsAddr
		}
		for _, ip := range h.Routed {
			s.Routes[ip] = to
		}
	}
	// a client that obeys the proxy variables would resolve the proxy's name and connect to its
	// (public) address; let it, the canary counts it
	s.Hosts[canaryName] = []netmon.Answer{{IPs: []string{canaryIP}}}
	s.Routes[canaryIP] = e.canaryAddr
	s.RoutePort[e.canaryAddr] = e.canaryAddr
	return s
}

type owner struct {
	hop   int // index into Chain, or -1-k for Ghosts[k]
	h     *Hop
	ghost bool
}

func owners(sc *Scenario) map[string][]owner {
	m := map[string][]owner{}
	add := func(ip string, o owner) {
		if c := netmon.CanonIP(ip); c != "" {
			for _, x := range m[c] {
				if x.hop == o.hop {
					return
				}
			}
			m[c] = append(m[c], o)
		}
	}
	each := func(h *Hop, o owner) {
		add(h.Host, o)
		for _, a := range h.Answers {
			for _, ip := range a.IPs {
				add(ip, o)
			}
		}
	}
	for i := range sc.Chain {
		each(&sc.Chain[i], owner{hop: i, h: &sc.Chain[i]})
	}
	for k := range sc.Ghosts {
		each(&sc.Ghosts[k], owner{hop: -1 - k, h: &sc.Ghosts[k], ghost: true})
	}
	// a hop without answers of its own (relative redirect, loop back) shares its host's addresses
	for i := range sc.Chain {
		h := &sc.Chain[i]
		if len(h.Answers) > 0 || netmon.CanonIP(h.Host) != "" || h.Host == "" {
			continue
		}
		for j := range sc.Chain {
			if j != i && netmon.Norm(sc.Chain[j].Host) == netmon.Norm(h.Host) {
				each(&Hop{Answers: sc.Chain[j].Answers}, owner{hop: i, h: h})
			}
		}
	}
	return m
}

// allowListed is the oracle's own reading of "explicitly allow-listed for revocation checks".
func allowListed(sc *Scenario, host string) bool {
	if !isRevocation(sc.Site) || host == "" {
		return false
	}
	norm := func(s string) string { return strings.TrimSuffix(asciiLower(s), ".") }
	h := norm(host)
	for _, a := range sc.Allow {
		if a = norm(strings.TrimSpace(a)); a != "" && a == h {
			return true
		}
	}
	return false
}

func asciiLower(s string) string {
	b := []byte(s)
	for i, c := range b {
		if c >= 'A' && c <= 'Z' {
			b[i] = c + 32
		}
	}
	return string(b)
}

type result struct {
	Events []netmon.Event `json:"events"`
	Hits   []Hit          `json:"hits"`
	Err    string         `json:"err,omitempty"`
	Panic  string         `json:"panic,omitempty"`
}

func runScenario(t *vk.T, e *env, d *driver, sc *Scenario) {
	canaryBefore := e.canaryHits.Load()
	t0 := time.Now() // debug output only, never part of a verdict
	e.begin(sc)
	sess := netmon.Begin(script(e, sc))
	res := result{}
	func() {
		defer func() {
			if r := recover(); r != nil {
				res.Panic = fmt.Sprint(r)
			}
		}()
		if err := d.drive(sc); err != nil {
			res.Err = err.Error()
		}
	}()
	res.Events = sess.End()
	res.Hits = e.end()
	if os.Getenv("C30_DEBUG") != "" {
		fmt.Fprintf(os.Stderr, "DBG %d %s/%s/%s how=%s dt=%v err=%q panic=%q events=%d hits=%d\n", sc.ID, sc.Site, sc.Group, sc.Label, sc.How, time.Since(t0), res.Err, res.Panic, len(res.Events), len(res.Hits))
	}
	canary := e.canaryHits.Load() - canaryBefore

	if res.Panic != "" {
		t.Count("pdfcpu_panics", 1)
	}
	judge(t, e, sc, &res, canary)
	t.Eval(sc.Site + "/" + sc.Group + "/" + sc.Label)
	if sc.ID <= 40 && (sc.ID%5 == 1 || sc.Group == "redirect") {
		t.Sample(map[string]any{"scenario": sc, "events": res.Events, "hits": res.Hits, "err": res.Err})
	}
}

type caseDump struct {
	Scenario *Scenario `json:"scenario"`
	Result   *result   `json:"result"`
}

func judge(t *vk.T, e *env, sc *Scenario, res *result, canary int64) {
	own := owners(sc)
	site := sc.Site
	violate := func(class, via, what string) {
		key := "site=" + site + "/class=" + class
		if via != "" {
			key += "/via=" + via
		}
		// the replay case is the scenario itself
		t.Violate(key, what+fmt.Sprintf(" [scenario %d %s/%s/%s how=%s url=%q]", sc.ID, sc.Site, sc.Group, sc.Label, sc.How, sc.Chain[0].URL), sc)
	}
	hopVia := func(o owner) string {
		v := o.h.Via
		if v == "" {
			v = "benign-hop"
		}
		if !o.ghost && o.hop > 0 {
			return "redirect-" + v
		}
		return v
	}

	lookups, dials := 0, 0
	maxHop := -1
	for _, h := range res.Hits {
		if !h.Stale && h.Hop > maxHop {
			maxHop = h.Hop
		}
	}
	for _, ev := range res.Events {
		switch ev.Kind {
		case netmon.Lookup:
			if ev.Literal {
				t.Count("lookups_literal/"+site, 1)
				continue
			}
			if netmon.Norm(ev.Host) == canaryName {
				violate("proxy-used", "", fmt.Sprintf("the proxy named by HTTP(S)_PROXY/ALL_PROXY (%s) was looked up", ev.Host))
				continue
			}
			lookups++
			t.Count("lookups/"+site, 1)
			if sc.Offline {
				// conf.Offline is not part of the property statement: observed, not judged
				t.Count("observed_only/offline-lookup/"+site, 1)
			}
		case netmon.DialTop:
			// a Dialer asked to connect to a NAME resolves it a second time, after any check
			if host, _, err := net.SplitHostPort(ev.Addr); err == nil && netmon.CanonIP(host) == "" {
				t.Count("dialer_given_a_name/"+site, 1)
			}
		case netmon.Dial:
			dials++
			host, port, err := net.SplitHostPort(ev.Addr)
			if err != nil {
				t.Count("dials_unparsed/"+site, 1)
				continue
			}
			if sc.Offline {
				t.Count("observed_only/offline-dial/"+site, 1)
			}
			if ev.Addr == e.canaryAddr || netmon.CanonIP(host) == canaryIP {
				violate("proxy-used", "", fmt.Sprintf("connection to the proxy named by HTTP(S)_PROXY/ALL_PROXY (%s)", ev.Addr))
				t.Count("dials/"+site+"/proxy", 1)
				continue
			}
			info := ipclass.ClassifyString(host)
			os := own[netmon.CanonIP(host)]
			// URL form: a hop whose URL has a scheme other than http(s) or carries userinfo owns this address
			for _, o := range os {
				if o.h.Forbid != "" {
					onlyOwner := len(os) == 1
					if onlyOwner {
						violate("dial-"+o.h.Forbid, hopVia(o), fmt.Sprintf("dialled %s for URL %q (%s not allowed)", ev.Addr, o.h.URL, o.h.Forbid))
					}
				}
			}
			if !ipclass.Forbidden(info.Class) {
				t.Count("dials/"+site+"/"+string(info.Class), 1)
				continue
			}
			exempt := false
			for _, o := range os {
				if allowListed(sc, o.h.Host) {
					exempt = true
				}
			}
			if exempt {
				t.Count("dials/"+site+"/allowlisted", 1)
				continue
			}
			t.Count("dials/"+site+"/FORBIDDEN-"+string(info.Class), 1)
			via := ""
			switch {
			case len(os) > 0:
				via = hopVia(os[0])
			default:
				via = "unowned"
				if v := sc.Chain[0].Via; v != "" {
					via = v + "-unowned"
				}
			}
			mapped := ""
			if info.Mapped {
				mapped = " (IPv4-mapped)"
			}
			violate("dial-"+string(info.Class), via, fmt.Sprintf("dialled %s:%s, a %s address%s, host not allow-listed (allow=%q)", host, port, info.Class, mapped, sc.Allow))
		}
	}
	// a request that ARRIVED for a hop whose URL form is forbidden (scheme, userinfo)
	for _, h := range res.Hits {
		if h.Stale || h.Hop >= len(sc.Chain) || sc.Chain[h.Hop].Forbid == "" {
			continue
		}
		hp := &sc.Chain[h.Hop]
		violate("dial-"+hp.Forbid, hopVia(owner{hop: h.Hop, h: hp}), fmt.Sprintf("request for URL %q reached a server (%s not allowed)", hp.URL, hp.Forbid))
	}
	if canary > 0 {
		violate("proxy-used", "", fmt.Sprintf("%d connection(s) arrived at the proxy canary", canary))
	}
	if sc.Offline && len(res.Hits) > 0 {
		t.Count("observed_only/offline-request-served/"+site, int64(len(res.Hits)))
	}
	if maxHop >= 0 {
		t.Count("requests_served/"+site, int64(len(res.Hits)))
		if int64(maxHop) > t.Counter("max_redirect_hop_served/"+site) {
			t.Count("max_redirect_hop_served/"+site, int64(maxHop)-t.Counter("max_redirect_hop_served/"+site))
		}
	}
	tls := 0
	for _, h := range res.Hits {
		if h.TLS && !h.Stale {
			tls++
		}
	}
	t.Count("requests_served_tls/"+site, int64(tls))

	// IDNA group: the mapped (ASCII) literal must have been asked of package net (as a lookup or as a
	// dial) at least somewhere, else the spellings exercised nothing of the dial-time classification
	if sc.Group == "idna" && !sc.Offline {
		asked := false
		for _, ev := range res.Events {
			host := ev.Host
			if ev.Kind != netmon.Lookup {
				host, _, _ = net.SplitHostPort(ev.Addr)
			}
			if c := netmon.CanonIP(host); c != "" {
				for _, o := range own[c] {
					if o.ghost {
						asked = true
					}
				}
			}
		}
		if asked {
			t.Count("idna_mapped_literal_asked/"+site, 1)
		} else {
			t.Count("idna_mapped_literal_not_asked/"+site, 1)
		}
	}

	// guard at work: a hostile hop that was NOT dialled
	if !sc.Offline {
		hostile := false
		for _, h := range sc.Chain {
			if h.Via != "" && !allowListed(sc, h.Host) {
				hostile = true
			}
		}
		if hostile {
			t.Count("hostile_scenarios/"+site+"/"+sc.Group, 1)
		}
	} else {
		t.Count("offline_scenarios/"+site, 1)
		if lookups == 0 && dials == 0 {
			t.Count("offline_silent/"+site, 1)
		}
	}

	// controls
	if sc.ExpectFetch {
		last := len(sc.Chain) - 1
		got := false
		for _, h := range res.Hits {
			if !h.Stale && h.Hop == last {
				got = true
			}
		}
		if got {
			t.Count("control_fetched/"+site, 1)
			if res.Err == "" {
				t.Count("control_fetched_and_api_ok/"+site, 1)
			}
		} else {
			t.Count("control_not_fetched/"+site+"/"+sc.Group+"/"+sc.Label, 1)
		}
	}
	if sc.ExpectAllowDial {
		seen := false
		for _, ev := range res.Events {
			if ev.Kind != netmon.Dial {
				continue
			}
			host, _, _ := net.SplitHostPort(ev.Addr)
			for _, o := range own[netmon.CanonIP(host)] {
				if !o.ghost && o.hop == 0 {
					seen = true
				}
			}
		}
		if !seen {
			// not a violation of the property (refusing is always safe); but then this spelling of an
			// allow-listed host exercised nothing of the exemption
			t.Inconclusive("site=" + site + "/allowlisted-host-not-dialled/" + sc.Label)
		}
	}
}

// sortedKeys is used by the driver for deterministic JSON.
func sortedKeys[M ~map[string]V, V any](m M) []string {
	ks := make([]string, 0, len(m))
	for k := range m {
		ks = append(ks, k)
	}
	sort.Strings(ks)
	return ks
}
