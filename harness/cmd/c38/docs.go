package main

// Input documents: pdfgen layer-2 documents (unrotated; single / multiple content streams; shared, inherited,
// direct resources; xref tables / streams / object streams; incremental updates), customised through pdfgen's
// layer 1 before they are written:
//   - page content with and without an enclosing q…Q, with nested q…Q, without trailing white space,
//     empty content streams, pages without /Contents, /Contents as one-element array;
//   - marked content that is NOT a watermark (/Artifact header/footer, /OC layers, /Span);
//   - resources named like pdfcpu's own (/ExtGState GS0 GS1, /XObject Fm0) that are used by the page content
//     and must survive;
//   - optional content groups that exist before pdfcpu adds any (also ones called "Watermark"/"Background").

import (
	"bytes"
	"fmt"
	"math/rand/v2"

	"verif/harness/internal/pdfgen"
)

type docFeatures struct {
	Pages        int    `json:"pages"`
	Multi        bool   `json:"multi_content"`
	Shared       bool   `json:"shared_resources"`
	Inherit      bool   `json:"inherit"`
	ClashNames   bool   `json:"clash_names"`   // GS0/GS1/Fm0 exist and are used
	ForeignMC    bool   `json:"foreign_mc"`    // non-watermark marked content
	ExistingOCG  string `json:"existing_ocg"`  // "" | "layer" | "Watermark" | "Background"
	PageVariants []string `json:"page_variants"` // per page
}

type genDoc struct {
	Bytes []byte
	Feat  docFeatures
	Seed  uint64
}

func buildDoc(r *rand.Rand, maxPages int) *genDoc {
	coin := func() bool { return r.IntN(2) == 0 }
	spec := pdfgen.DocSpec{
		Seed:            r.Uint64(),
		Pages:           1 + r.IntN(maxPages),
		Filters:         pdfgen.FilterPolicy(r.IntN(2)), // none | plain Flate (no predictors: recorded under C15)
		IndirectLengths: r.IntN(4) == 0,
		MaxFanout:       1 + r.IntN(6),
		MaxDepth:        1 + r.IntN(3),
		Inherit:         coin(),
		Rotate:          false,
		CropBox:         r.IntN(3) == 0,
		MultiContent:    coin(),
		SharedResources: coin(),
		XObjects:        coin(),
		Duplicates:      r.IntN(4) == 0,
		Annotations:     r.IntN(3) == 0,
		Info:            coin(),
	}
	if r.IntN(4) == 0 {
		spec.Outlines = 1 + r.IntN(4)
	}
	if r.IntN(5) == 0 {
		spec.Updates = 1
	}
	spec.Write = pdfgen.RandomOptions(r)
	doc, truth := pdfgen.BuildDoc(spec)
	g := &genDoc{Seed: spec.Seed}
	g.Feat = docFeatures{Pages: len(truth.Pages), Multi: spec.MultiContent, Shared: spec.SharedResources, Inherit: spec.Inherit}

	minVersion := truth.MinVersion
	// --- resources named like pdfcpu's
	if r.IntN(3) == 0 {
		g.Feat.ClashNames = true
		form := doc.Add(&pdfgen.Stream{
			Dict: pdfgen.D("Type", pdfgen.Name("XObject"), "Subtype", pdfgen.Name("Form"), "BBox", pdfgen.Rect(0, 0, 30, 30)),
			Data: []byte("0 1 0 rg\n0 0 30 30 re\nf\n"),
		})
		gs0 := doc.Add(pdfgen.D("Type", pdfgen.Name("ExtGState"), "LW", 2))
		addTo := func(res pdfgen.Dict) pdfgen.Dict {
			eg := pdfgen.D("GS0", gs0, "GS1", pdfgen.D("Type", pdfgen.Name("ExtGState"), "LW", 3))
			res = res.With("ExtGState", eg)
			xo := pdfgen.Dict{}
			if v, ok := res.Get("XObject"); ok {
				if xd, ok := v.(pdfgen.Dict); ok {
					xo = xd.Clone()
				}
			}
			xo.Set("Fm0", form)
			return res.With("XObject", xo)
		}
		for _, n := range doc.Nums() {
			d, ok := doc.Get(n).(pdfgen.Dict)
			if !ok {
				continue
			}
			if d.Has("Font") && d.Has("ProcSet") { // a resource dictionary object
				doc.Replace(n, addTo(d.Clone()))
				continue
			}
			if v, ok := d.Get("Resources"); ok {
				if rd, ok := v.(pdfgen.Dict); ok && rd.Has("Font") {
					doc.Replace(n, d.Clone().With("Resources", addTo(rd.Clone())))
				}
			}
		}
	}
	g.Feat.ForeignMC = r.IntN(3) == 0

	// --- page content variants
	for i := range truth.Pages {
		pt := &truth.Pages[i]
		pd, ok := doc.Get(pt.ObjNum).(pdfgen.Dict)
		if !ok {
			g.Feat.PageVariants = append(g.Feat.PageVariants, "asbuilt")
			continue
		}
		streams := make([]*pdfgen.Stream, len(pt.ContentObj))
		for j, n := range pt.ContentObj {
			if s, ok := doc.Get(n).(*pdfgen.Stream); ok {
				c := *s
				c.Data = append([]byte(nil), s.Data...)
				streams[j] = &c
			}
		}
		variant := "asbuilt"
		first, last := streams[0], streams[len(streams)-1]
		if first == nil || last == nil {
			g.Feat.PageVariants = append(g.Feat.PageVariants, variant)
			continue
		}
		switch r.IntN(10) {
		case 0, 1: // no enclosing q…Q
			if bytes.HasPrefix(first.Data, []byte("q\n")) && bytes.HasSuffix(bytes.TrimRight(last.Data, "\n"), []byte("Q")) {
				first.Data = first.Data[2:]
				t := bytes.TrimRight(last.Data, "\n")
				last.Data = append(append([]byte(nil), t[:len(t)-1]...), '\n')
				variant = "noq"
			}
		case 2: // nested q…Q and operators that look like the wrappers inside strings
			first.Data = append([]byte("q\nq 1 0 0 1 0 0 cm Q\nBT /F1 6 Tf 10 10 Td (q Q EMC BDC \\(Q\\)) Tj ET\nQ\n"), first.Data...)
			variant = "nested"
		case 3: // no white space at the end of the last stream
			last.Data = bytes.TrimRight(last.Data, "\n ")
			variant = "notrail"
		case 4: // white space runs / CR LF / comments
			first.Data = append([]byte("  \r\n% a comment\r\n\t"), first.Data...)
			last.Data = append(last.Data, []byte("\r\n   \n")...)
			variant = "whitespace"
		case 5:
			if len(streams) == 1 && r.IntN(2) == 0 {
				pd = pd.Clone()
				pd.Del("Contents")
				doc.Replace(pt.ObjNum, pd)
				variant = "nocontents"
				streams = nil
			} else {
				for _, s := range streams {
					if s != nil {
						s.Data = nil
					}
				}
				variant = "emptystreams"
			}
		}
		if streams != nil && g.Feat.ClashNames && variant != "emptystreams" {
			first.Data = append(first.Data, []byte("q /GS0 gs 1 0 0 1 20 20 cm /Fm0 Do Q\nq /GS1 gs 0 0 5 5 re f Q\n")...)
			variant += "+clash"
		}
		if streams != nil && g.Feat.ForeignMC && variant != "emptystreams" {
			hdr := []byte("/Artifact <</Type /Pagination /Subtype /Header >>BDC\nBT /F1 7 Tf 72 820 Td (running header) Tj ET\nEMC\n")
			ftr := []byte("/Artifact <</Attached [/Bottom] /Subtype /Footer /Type /Pagination>> BDC BT /F2 7 Tf 72 20 Td (footer) Tj ET EMC\n/Span <</ActualText (x)>> BDC EMC\n/Artifact BMC EMC\n")
			first.Data = append(hdr, first.Data...)
			last.Data = append(last.Data, ftr...)
			variant += "+mc"
		}
		for j, s := range streams {
			if s != nil {
				doc.Replace(pt.ContentObj[j], s)
			}
		}
		g.Feat.PageVariants = append(g.Feat.PageVariants, variant)
	}

	// --- optional content that exists before pdfcpu adds its own
	if r.IntN(4) == 0 {
		name := []string{"layer", "layer", "Watermark", "Background"}[r.IntN(4)]
		g.Feat.ExistingOCG = name
		title := name
		if name == "layer" {
			title = "Layer 1"
		}
		ocg := doc.Add(pdfgen.D("Type", pdfgen.Name("OCG"), "Name", pdfgen.String(title)))
		ocp := pdfgen.D("OCGs", pdfgen.Array{ocg}, "D", pdfgen.D("Order", pdfgen.Array{ocg}, "ON", pdfgen.Array{ocg}))
		if cat, ok := doc.Get(truth.Objs.Catalog).(pdfgen.Dict); ok {
			doc.Replace(truth.Objs.Catalog, cat.Clone().With("OCProperties", ocp))
		}
		minVersion = "1.5"
	}

	opts := spec.Write
	opts.Version = pdfgen.FitVersion(opts, maxVersion(minVersion, truth.MinVersion))
	out, err := pdfgen.Write(doc, opts)
	if err != nil {
		panic(fmt.Sprintf("pdfgen.Write: %v", err))
	}
	g.Bytes = out.Bytes
	return g
}

func maxVersion(a, b string) string {
	if a == "" {
		return b
	}
	if b == "" {
		return a
	}
	if a > b { // "1.3" … "1.7", "2.0": lexical order is version order
		return a
	}
	return b
}
