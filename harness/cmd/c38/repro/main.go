// Stand-alone reproducers for the three C38 findings (run: $GO125 run ./cmd/c38/repro <scratch dir>).
package main

import (
	"bytes"
	"fmt"
	"os"
	"path/filepath"

	"github.com/pdfcpu/pdfcpu/pkg/api"
	"github.com/pdfcpu/pdfcpu/pkg/pdfcpu/model"
	"github.com/pdfcpu/pdfcpu/pkg/pdfcpu/types"
	"verif/harness/internal/pdfgen"
	"verif/harness/internal/pdfstrict"
)

func conf() *model.Configuration { c := model.NewDefaultConfiguration(); c.Offline = true; return c }

// doc: two pages; resources (one font) on the /Pages node when inherit, else on every page; page 1 has two
// content streams; optional content group "Layer 1" when ocg.
func doc(inherit, ocg bool) []byte {
	d := pdfgen.NewDoc()
	font := d.Add(pdfgen.D("Type", pdfgen.Name("Font"), "Subtype", pdfgen.Name("Type1"), "BaseFont", pdfgen.Name("Helvetica")))
	res := pdfgen.D("Font", pdfgen.D("F1", font))
	pages := d.Alloc()
	var kids pdfgen.Array
	for i := 0; i < 2; i++ {
		c1 := d.Add(&pdfgen.Stream{Data: []byte(fmt.Sprintf("BT /F1 12 Tf 72 700 Td (page %d part 1) Tj ET\n", i+1))})
		c2 := d.Add(&pdfgen.Stream{Data: []byte("0 0 1 rg 50 50 40 30 re f\n")})
		pd := pdfgen.D("Type", pdfgen.Name("Page"), "Parent", pages, "MediaBox", pdfgen.Rect(0, 0, 595, 842), "Contents", pdfgen.Array{c1, c2})
		if !inherit {
			pd = pd.With("Resources", res)
		}
		kids = append(kids, d.Add(pd))
	}
	pn := pdfgen.D("Type", pdfgen.Name("Pages"), "Kids", kids, "Count", 2)
	if inherit {
		pn = pn.With("Resources", res)
	}
	d.Put(pages, pn)
	cat := pdfgen.D("Type", pdfgen.Name("Catalog"), "Pages", pages)
	if ocg {
		g := d.Add(pdfgen.D("Type", pdfgen.Name("OCG"), "Name", pdfgen.String("Layer 1")))
		cat = cat.With("OCProperties", pdfgen.D("OCGs", pdfgen.Array{g}, "D", pdfgen.D("Order", pdfgen.Array{g})))
	}
	d.SetRoot(d.Add(cat))
	return pdfgen.MustWrite(d, pdfgen.Options{Version: "1.7"}).Bytes
}

func content(path string) []string {
	b, _ := os.ReadFile(path)
	sd, err := pdfstrict.Open(b, pdfstrict.Options{})
	if err != nil {
		return []string{err.Error()}
	}
	pp, _ := sd.Pages()
	var out []string
	for _, p := range pp {
		out = append(out, string(bytes.Join(bytes.Fields(p.Content), []byte(" "))))
	}
	return out
}

func main() {
	api.DisableConfigDir()
	dir := os.Args[1]
	_ = os.MkdirAll(dir, 0o755)
	in, marked, clean := filepath.Join(dir, "in.pdf"), filepath.Join(dir, "marked.pdf"), filepath.Join(dir, "clean.pdf")
	stamp := func() *model.Watermark {
		wm, err := api.TextWatermark("DRAFT", "scalefactor:0.5 rel", true, false, types.POINTS)
		if err != nil {
			panic(err)
		}
		return wm
	}

	fmt.Println("== 1. resources inherited from /Pages, stamp on page 1 only, remove on all pages")
	_ = os.WriteFile(in, doc(true, false), 0o644)
	fmt.Println("add   :", api.AddWatermarksFile(in, marked, []string{"1"}, stamp(), conf()))
	fmt.Println("remove:", api.RemoveWatermarksFile(marked, clean, nil, conf()), " (want <nil>)")

	fmt.Println("== 2. the document has an optional content group of its own")
	_ = os.WriteFile(in, doc(false, true), 0o644)
	fmt.Println("add   :", api.AddWatermarksFile(in, marked, nil, stamp(), conf()))
	ok, err := api.HasWatermarksFile(marked, conf())
	fmt.Println("has   :", ok, err, " (want true)")
	fmt.Println("remove:", api.RemoveWatermarksFile(marked, clean, nil, conf()), " (want <nil>)")

	fmt.Println("== 3. two stamps on pages with two content streams (AddWatermarksSliceMapFile), remove on all pages")
	_ = os.WriteFile(in, doc(false, false), 0o644)
	m := map[int][]*model.Watermark{1: {stamp(), stamp()}, 2: {stamp(), stamp()}}
	fmt.Println("add   :", api.AddWatermarksSliceMapFile(in, marked, m, conf()))
	fmt.Println("remove:", api.RemoveWatermarksFile(marked, clean, nil, conf()))
	ok, err = api.HasWatermarksFile(clean, conf())
	fmt.Println("has   :", ok, err, " (pdfcpu's answer after removal)")
	for i, c := range content(clean) {
		fmt.Printf("page %d after removal: %s\n", i+1, c)
	}
}
