// C38 — removing watermarks undoes adding them.
//
// Per case: an unrotated input document (pdfgen, customised — see docs.go — or a corpus file) × a watermark source
// {text, image, PDF page} × {watermark = under, stamp = over} × a random description × a page selection A, applied
// with api.AddWatermarksFile / AddWatermarksMapFile / AddWatermarksSliceMapFile (one or two watermarks per page),
// then api.RemoveWatermarksFile on all pages, on A, or on a subset B of A.
//
// The oracle reads input, watermarked and cleaned file with pdfstrict (independent reader: decoded page content,
// effective resources) and asks pdfcpu's api.HasWatermarksFile:
//
//	never watermarked            : HasWatermarks = false
//	after add                    : HasWatermarks = true; pages outside A: content byte-identical;
//	after remove on B            : HasWatermarks = (A∖B non-empty); pages in A∩B: no watermark artifact left and the
//	                               white-space-normalised content equals the original, optionally inside one q … Q per
//	                               watermark added; pages in A∖B: unchanged (still watermarked); pages outside A: content
//	                               byte-identical to the input; original resource entries of every page unchanged; the
//	                               resources the page's own artifact used are gone.
package main

import (
	"bytes"
	"crypto/sha256"
	"encoding/json"
	"fmt"
	"math/rand/v2"
	"os"
	"path/filepath"
	"regexp"
	"runtime/debug"
	"sort"
	"strings"
	"sync"

	"github.com/pdfcpu/pdfcpu/pkg/api"
	"github.com/pdfcpu/pdfcpu/pkg/pdfcpu/model"
	"verif/harness/internal/pdfgen"
	"verif/harness/internal/pdfstrict"
	"verif/harness/internal/vk"
)

func newConf() *model.Configuration {
	c := model.NewDefaultConfiguration()
	c.Offline = true
	return c
}

type panicErr struct{ frame, msg string }

func (p panicErr) Error() string { return "panic: " + p.msg + " @ " + p.frame }

func innermostFrame(stack string) string {
	for _, ln := range strings.Split(stack, "\n") {
		if strings.HasPrefix(ln, "github.com/pdfcpu/pdfcpu/") {
			if i := strings.LastIndex(ln, "("); i > 0 {
				ln = ln[:i]
			}
			return strings.TrimPrefix(ln, "github.com/pdfcpu/pdfcpu/")
		}
	}
	return "?"
}

func guard(f func() error) (err error) {
	defer func() {
		if r := recover(); r != nil {
			err = panicErr{innermostFrame(string(debug.Stack())), fmt.Sprint(r)}
		}
	}()
	return f()
}

var reDigits = regexp.MustCompile(`[0-9]+`)
var reQuoted = regexp.MustCompile(`"[^"]*"|'[^']*'`)

func errClass(err error) string {
	if pe, ok := err.(panicErr); ok {
		return "panic=" + pe.frame
	}
	s := err.Error()
	s = reQuoted.ReplaceAllString(s, "_")
	s = reDigits.ReplaceAllString(s, "N")
	var kept []string
	for _, part := range strings.Split(s, ": ") {
		part = strings.TrimSpace(part)
		if part == "" || (strings.ContainsAny(part, "/\\") && strings.Contains(part, ".")) {
			continue
		}
		kept = append(kept, part)
	}
	s = strings.Join(kept, ":")
	s = strings.Map(func(r rune) rune {
		switch {
		case r >= 'a' && r <= 'z', r >= 'A' && r <= 'Z', r == ':', r == '_', r == '-':
			return r
		case r == ' ':
			return '_'
		}
		return -1
	}, s)
	if len(s) > 100 {
		s = s[:100]
	}
	return s
}

// ---- independent page view

type pageView struct {
	Content   []byte
	Err       error
	Streams   int               // number of content streams (0: no /Contents)
	Res       map[string]string // "Category/Name" -> deep hash of the entry
	Rotate    int
	Predictor bool
}

var reArtifact = regexp.MustCompile(`/Artifact\s*<<[^>]*/Subtype\s*/Watermark[^>]*>>\s*BDC`)
var reGS = regexp.MustCompile(`/([^\s/\[\]<>()]+)\s+gs\b`)
var reDo = regexp.MustCompile(`/([^\s/\[\]<>()]+)\s+Do\b`)

func (p *pageView) artifacts() int { return len(reArtifact.FindAllIndex(p.Content, -1)) }

// artifactNames: the ExtGState / XObject names painted inside the watermark artifacts of this page.
func (p *pageView) artifactNames() (gs, xo []string) {
	for _, loc := range reArtifact.FindAllIndex(p.Content, -1) {
		rest := p.Content[loc[1]:]
		end := bytes.Index(rest, []byte("EMC"))
		if end < 0 {
			end = len(rest)
		}
		seg := rest[:end]
		for _, m := range reGS.FindAllSubmatch(seg, -1) {
			gs = append(gs, string(m[1]))
		}
		for _, m := range reDo.FindAllSubmatch(seg, -1) {
			xo = append(xo, string(m[1]))
		}
	}
	return
}

func norm(b []byte) string { return strings.Join(strings.Fields(string(b)), " ") }

// equalUpToWraps: after == orig, or after == (q)^k orig (Q)^k for some k <= maxWraps (white space normalised).
func equalUpToWraps(after, orig []byte, maxWraps int) (bool, int) {
	a, o := norm(after), norm(orig)
	for k := 0; ; k++ {
		if a == o {
			return true, k
		}
		if k == maxWraps {
			return false, 0
		}
		switch {
		case a == "q Q":
			a = ""
		case strings.HasPrefix(a, "q ") && strings.HasSuffix(a, " Q"):
			a = strings.TrimSpace(a[2 : len(a)-2])
		default:
			return false, 0
		}
	}
}

var resCategories = []string{"ExtGState", "XObject", "Font", "ColorSpace", "Pattern", "Shading", "Properties", "ProcSet"}

func readPages(data []byte) ([]pageView, *pdfstrict.Doc, error) {
	d, err := pdfstrict.Open(data, pdfstrict.Options{})
	if err != nil {
		return nil, d, err
	}
	pages, err := d.Pages()
	if err != nil {
		return nil, d, err
	}
	out := make([]pageView, len(pages))
	for i, p := range pages {
		v := pageView{Content: p.Content, Err: p.ContentErr, Rotate: p.Rotate, Res: map[string]string{}}
		switch c := d.Resolve(p.Dict["Contents"]).(type) {
		case *pdfstrict.Stream:
			v.Streams = 1
			v.Predictor = hasPredictor(d, c)
		case pdfstrict.Array:
			v.Streams = len(c)
			for _, e := range c {
				if s, ok := d.Resolve(e).(*pdfstrict.Stream); ok && hasPredictor(d, s) {
					v.Predictor = true
				}
			}
		}
		for _, cat := range resCategories {
			switch c := d.Resolve(p.Resources[cat]).(type) {
			case pdfstrict.Dict:
				for name, val := range c {
					v.Res[cat+"/"+name] = d.DeepHash(val)
				}
			case pdfstrict.Array:
				v.Res[cat] = d.DeepHash(c)
			}
		}
		out[i] = v
	}
	return out, d, nil
}

func hasPredictor(d *pdfstrict.Doc, s *pdfstrict.Stream) bool {
	check := func(o pdfstrict.Object) bool {
		if dp, ok := d.Resolve(o).(pdfstrict.Dict); ok {
			if n, ok := pdfstrict.Number(d.Resolve(dp["Predictor"])); ok && n > 1 {
				return true
			}
		}
		return false
	}
	switch x := d.Resolve(s.Dict["DecodeParms"]).(type) {
	case pdfstrict.Dict:
		return check(x)
	case pdfstrict.Array:
		for _, e := range x {
			if check(e) {
				return true
			}
		}
	}
	return false
}

// ---- page selections (own model; only forms whose meaning C31 pins down, never page 0)

type selection struct {
	Terms []string `json:"terms"` // nil = all pages
	Kind  string   `json:"kind"`
	set   map[int]bool
}

func randomSelection(r *rand.Rand, n int) selection {
	all := func() map[int]bool {
		m := map[int]bool{}
		for i := 1; i <= n; i++ {
			m[i] = true
		}
		return m
	}
	switch k := r.IntN(8); {
	case k == 0 || n == 1:
		return selection{nil, "all", all()}
	case k == 1:
		p := 1 + r.IntN(n)
		return selection{[]string{fmt.Sprint(p)}, "single", map[int]bool{p: true}}
	case k == 2:
		a := 1 + r.IntN(n)
		b := a + r.IntN(n-a+1)
		m := map[int]bool{}
		for i := a; i <= b; i++ {
			m[i] = true
		}
		return selection{[]string{fmt.Sprintf("%d-%d", a, b)}, "range", m}
	case k == 3:
		a := 1 + r.IntN(n)
		m := map[int]bool{}
		for i := a; i <= n; i++ {
			m[i] = true
		}
		return selection{[]string{fmt.Sprintf("%d-", a)}, "from", m}
	case k == 4:
		b := 1 + r.IntN(n)
		m := map[int]bool{}
		for i := 1; i <= b; i++ {
			m[i] = true
		}
		return selection{[]string{fmt.Sprintf("-%d", b)}, "upto", m}
	case k == 5:
		m := map[int]bool{}
		for i := 1; i <= n; i += 2 {
			m[i] = true
		}
		return selection{[]string{"odd"}, "odd", m}
	case k == 6:
		m := map[int]bool{}
		for i := 2; i <= n; i += 2 {
			m[i] = true
		}
		return selection{[]string{"even"}, "even", m}
	default:
		m := map[int]bool{}
		var terms []string
		for i := 1; i <= n; i++ {
			if r.IntN(2) == 0 {
				m[i] = true
				terms = append(terms, fmt.Sprint(i))
			}
		}
		if len(m) == 0 {
			m[n] = true
			terms = []string{"l"}
		}
		return selection{terms, "list", m}
	}
}

func subsetSelection(r *rand.Rand, a map[int]bool) selection {
	var pages []int
	for p := range a {
		pages = append(pages, p)
	}
	sort.Ints(pages)
	m := map[int]bool{}
	var terms []string
	for _, p := range pages {
		if r.IntN(2) == 0 {
			m[p] = true
			terms = append(terms, fmt.Sprint(p))
		}
	}
	if len(m) == 0 {
		p := pages[r.IntN(len(pages))]
		m[p] = true
		terms = []string{fmt.Sprint(p)}
	}
	return selection{terms, "subset", m}
}

// ---- a case

type caseDesc struct {
	Mode    string       `json:"mode"` // gen | corpus | clean
	Index   int          `json:"index"`
	File    string       `json:"file,omitempty"`
	Doc     *docFeatures `json:"doc,omitempty"`
	WMs     []wmSpec     `json:"watermarks,omitempty"`
	API     string       `json:"api,omitempty"`
	Add     *selection   `json:"add,omitempty"`
	Remove  *selection   `json:"remove,omitempty"`
	Page    int          `json:"page,omitempty"`
	Variant string       `json:"variant,omitempty"`
}

type runner struct {
	t       *vk.T
	scratch string
	src     *sources
	mu      sync.Mutex
	notes   map[string]int
}

func (rn *runner) note(kind, detail string) {
	rn.mu.Lock()
	defer rn.mu.Unlock()
	if rn.notes[kind] < 3 {
		rn.notes[kind]++
		s := strings.ReplaceAll(detail, "\n", " | ")
		if len(s) > 500 {
			s = s[:500] + "…"
		}
		fmt.Fprintf(os.Stderr, "note[%s]: %s\n", kind, s)
	}
}

func hasWM(path string) (bool, error) {
	var ok bool
	err := guard(func() error {
		var e error
		ok, e = api.HasWatermarksFile(path, newConf())
		return e
	})
	return ok, err
}

func streamsTag(n int) string {
	switch {
	case n == 0:
		return "none"
	case n == 1:
		return "single"
	}
	return "multi"
}

func excerpt(b []byte) string {
	s := norm(b)
	if len(s) > 160 {
		s = s[:80] + " … " + s[len(s)-80:]
	}
	return s
}

// runCase: add + remove on one input document.
func (rn *runner) runCase(r *rand.Rand, dir string, input []byte, cd caseDesc, docTag string) {
	t := rn.t
	in := filepath.Join(dir, "in.pdf")
	if err := os.WriteFile(in, input, 0o644); err != nil {
		t.Broken("write: %v", err)
	}
	orig, _, err := readPages(input)
	if err != nil || len(orig) == 0 {
		t.Count("input_unreadable_by_pdfstrict", 1)
		rn.note("input-unreadable", fmt.Sprintf("%s %d: %v", cd.Mode, cd.Index, err))
		return
	}
	for i := range orig {
		if orig[i].Err != nil || orig[i].Rotate != 0 || orig[i].Predictor {
			t.Count("input_skipped_rotated_or_predictor", 1)
			return
		}
	}
	n := len(orig)

	// never watermarked: detection must be false
	if ok, err := hasWM(in); err != nil {
		t.Violate(docTag+"never-watermarked/detect-error/"+errClass(err), fmt.Sprintf("HasWatermarksFile fails on the input: %v", err), cd)
	} else if ok {
		t.Violate(docTag+"never-watermarked/class=detected", "HasWatermarksFile reports a watermark on a document that never had one", cd)
	}
	t.Count("detect_on_clean", 1)

	// --- add
	nWM := 1
	apiKind := []string{"file", "file", "map", "slicemap"}[r.IntN(4)]
	if apiKind == "slicemap" {
		nWM = 1 + r.IntN(2)
	}
	var wms []wmSpec
	for i := 0; i < nWM; i++ {
		w := randomWM(r, rn.src)
		if i > 0 {
			// pdfcpu requires the watermarks of one call to share onTop and opacity
			w.OnTop = wms[0].OnTop
			w.Desc = stripParam(w.Desc, "opacity")
			if op := findParam(wms[0].Desc, "opacity"); op != "" {
				if w.Desc != "" {
					w.Desc += ", "
				}
				w.Desc += op
			}
		}
		wms = append(wms, w)
	}
	selA := randomSelection(r, n)
	cd.WMs, cd.API, cd.Add = wms, apiKind, &selA
	// key dimensions: the layer (stamp / watermark are different code paths), the number of watermarks per page when
	// above one, the content stream shape; the source kind only where the form is built (add errors).
	layerTag := wms[0].layer() + "/"
	if nWM > 1 {
		layerTag += fmt.Sprintf("wms=%d/", nWM)
	}
	kindTag := fmt.Sprintf("kind=%s/", wms[0].Kind)
	marked := filepath.Join(dir, "marked.pdf")
	err = guard(func() error {
		switch apiKind {
		case "file":
			wm, e := wms[0].build()
			if e != nil {
				return fmt.Errorf("parse: %w", e)
			}
			return api.AddWatermarksFile(in, marked, selA.Terms, wm, newConf())
		case "map":
			m := map[int]*model.Watermark{}
			for p := range selA.set {
				wm, e := wms[0].build()
				if e != nil {
					return fmt.Errorf("parse: %w", e)
				}
				m[p] = wm
			}
			return api.AddWatermarksMapFile(in, marked, m, newConf())
		default:
			m := map[int][]*model.Watermark{}
			for p := range selA.set {
				for _, w := range wms {
					wm, e := w.build()
					if e != nil {
						return fmt.Errorf("parse: %w", e)
					}
					m[p] = append(m[p], wm)
				}
			}
			return api.AddWatermarksSliceMapFile(in, marked, m, newConf())
		}
	})
	if err != nil {
		if strings.Contains(err.Error(), "parse:") {
			t.Count("harness_description_rejected", 1)
			rn.note("description-rejected", fmt.Sprintf("%v | %+v", err, wms))
			return
		}
		t.Violate(docTag+kindTag+layerTag+"api="+apiKind+"/add-error/"+errClass(err), fmt.Sprintf("adding fails: %v", err), cd)
		t.Eval("")
		return
	}
	mb, err := os.ReadFile(marked)
	if err != nil {
		t.Violate("add-no-output", "AddWatermarks returned nil but wrote no file", cd)
		return
	}
	after, _, err := readPages(mb)
	if err != nil || len(after) != n {
		t.Violate(docTag+layerTag+"class=output-unreadable-after-add", fmt.Sprintf("pdfstrict cannot read the watermarked file / page count %d -> %d: %v", n, len(after), err), cd)
		return
	}
	okAdd := true
	for i := 0; i < n; i++ {
		c := cd
		c.Page = i + 1
		c.Variant = variantOf(cd.Doc, i)
		st := "streams=" + streamsTag(orig[i].Streams) + "/"
		if after[i].Err != nil {
			t.Violate(layerTag+st+"class=content-undecodable-after-add", fmt.Sprintf("page %d: %v", i+1, after[i].Err), c)
			okAdd = false
			continue
		}
		if selA.set[i+1] {
			if after[i].artifacts() < nWM {
				t.Violate(kindTag+layerTag+st+"class=no-artifact-after-add", fmt.Sprintf("page %d is selected but its content shows %d watermark artifacts, want %d: %s", i+1, after[i].artifacts(), nWM, excerpt(after[i].Content)), c)
				okAdd = false
			}
		} else if !bytes.Equal(after[i].Content, orig[i].Content) {
			t.Violate("class=unselected-page-changed/phase=add", fmt.Sprintf("page %d is not selected, its content changed: %s -> %s", i+1, excerpt(orig[i].Content), excerpt(after[i].Content)), c)
		}
	}
	if ok, err := hasWM(marked); err != nil {
		t.Violate(docTag+"detect-error-after-add/"+errClass(err), fmt.Sprintf("HasWatermarksFile fails after add: %v", err), cd)
	} else if !ok {
		t.Violate(docTag+"class=not-detected-after-add", fmt.Sprintf("HasWatermarksFile = false after adding to %d page(s)", len(selA.set)), cd)
	}
	t.Count("adds", 1)
	t.Count("add_"+wms[0].Kind+"_"+wms[0].layer(), 1)
	t.Count("add_api_"+apiKind, 1)
	if !okAdd {
		t.Eval("")
		return
	}

	// --- remove
	var selB selection
	switch k := r.IntN(4); {
	case k == 0:
		selB = selection{nil, "all", nil}
		selB.set = map[int]bool{}
		for i := 1; i <= n; i++ {
			selB.set[i] = true
		}
	case k == 1 && len(selA.set) > 1:
		selB = subsetSelection(r, selA.set)
	default:
		selB = selA
		selB.Kind = "same:" + selA.Kind
	}
	cd.Remove = &selB
	cleaned := filepath.Join(dir, "cleaned.pdf")
	err = guard(func() error { return api.RemoveWatermarksFile(marked, cleaned, selB.Terms, newConf()) })
	if err != nil {
		t.Violate(docTag+"remove-error/"+errClass(err), fmt.Sprintf("removing fails: %v", err), cd)
		t.Eval("")
		return
	}
	cb, err := os.ReadFile(cleaned)
	if err != nil {
		t.Violate("remove-no-output", "RemoveWatermarks returned nil but wrote no file", cd)
		return
	}
	final, _, err := readPages(cb)
	if err != nil || len(final) != n {
		t.Violate(docTag+layerTag+"class=output-unreadable-after-remove", fmt.Sprintf("pdfstrict cannot read the cleaned file / page count %d -> %d: %v", n, len(final), err), cd)
		return
	}
	remaining, leftOver := 0, 0
	for i := 0; i < n; i++ {
		c := cd
		c.Page = i + 1
		c.Variant = variantOf(cd.Doc, i)
		st := "streams=" + streamsTag(orig[i].Streams) + "/"
		inA, inB := selA.set[i+1], selB.set[i+1]
		if final[i].Err != nil {
			t.Violate(layerTag+st+"class=content-undecodable-after-remove", fmt.Sprintf("page %d: %v", i+1, final[i].Err), c)
			continue
		}
		switch {
		case !inA:
			if !bytes.Equal(final[i].Content, orig[i].Content) {
				t.Violate("class=unselected-page-changed/phase=remove", fmt.Sprintf("page %d never was selected, its content changed: %s -> %s", i+1, excerpt(orig[i].Content), excerpt(final[i].Content)), c)
			}
			t.Count("pages_checked_untouched", 1)
		case inA && !inB:
			remaining++
			if final[i].artifacts() == 0 || !bytes.Equal(final[i].Content, after[i].Content) {
				t.Violate("partial/class=unselected-watermark-changed", fmt.Sprintf("page %d keeps its watermark (not selected for removal) but its content changed: %s -> %s", i+1, excerpt(after[i].Content), excerpt(final[i].Content)), c)
			}
			t.Count("pages_checked_kept_watermark", 1)
		default:
			t.Count("pages_checked_restored", 1)
			if k := final[i].artifacts(); k > 0 {
				t.Violate(layerTag+st+"class=watermark-left", fmt.Sprintf("page %d still shows %d watermark artifact(s) after removal (%d added): %s", i+1, k, nWM, excerpt(final[i].Content)), c)
				remaining++
				leftOver++
				continue
			}
			if ok, wraps := equalUpToWraps(final[i].Content, orig[i].Content, nWM); !ok {
				t.Violate(layerTag+st+"class=content-differs-after-remove", fmt.Sprintf("page %d: original %q, after add+remove %q", i+1, excerpt(orig[i].Content), excerpt(final[i].Content)), c)
			} else if wraps > 0 {
				t.Count("restored_with_q_Q_wrap", 1)
			}
			gs, xo := after[i].artifactNames()
			for _, nm := range gs {
				if _, was := orig[i].Res["ExtGState/"+nm]; was {
					continue
				}
				if _, left := final[i].Res["ExtGState/"+nm]; left {
					t.Violate("class=watermark-resource-left/ExtGState", fmt.Sprintf("page %d: /ExtGState /%s used by the removed watermark is still a page resource", i+1, nm), c)
				}
			}
			for _, nm := range xo {
				if _, was := orig[i].Res["XObject/"+nm]; was {
					continue
				}
				if _, left := final[i].Res["XObject/"+nm]; left {
					t.Violate("class=watermark-resource-left/XObject", fmt.Sprintf("page %d: /XObject /%s used by the removed watermark is still a page resource", i+1, nm), c)
				}
			}
			extra := 0
			for k := range final[i].Res {
				if _, was := orig[i].Res[k]; !was {
					extra++
				}
			}
			if extra > 0 {
				t.Count("pages_with_other_leftover_resource_entries", 1)
			}
		}
		if inA {
			for k, h := range orig[i].Res {
				if final[i].Res[k] != h {
					cat := strings.SplitN(k, "/", 2)[0]
					t.Violate("class=original-resource-changed/"+cat, fmt.Sprintf("page %d: original resource %s changed or vanished after add+remove", i+1, k), c)
					break
				}
			}
		}
	}
	want := remaining > 0
	if ok, err := hasWM(cleaned); err != nil {
		t.Violate(docTag+"detect-error-after-remove/"+errClass(err), fmt.Sprintf("HasWatermarksFile fails after remove: %v", err), cd)
	} else if ok != want {
		cl := "class=detected-after-remove"
		switch {
		case want && leftOver > 0:
			cl = "class=not-detected-although-watermark-left"
		case want:
			cl = "partial/class=not-detected-after-partial-remove"
		}
		t.Violate(docTag+cl, fmt.Sprintf("HasWatermarksFile = %v after removal, %d page(s) still carry a watermark artifact", ok, remaining), cd)
	}
	t.Count("removes", 1)
	t.Count("remove_"+strings.SplitN(selB.Kind, ":", 2)[0], 1)
	rn.t.Sample(map[string]any{"mode": cd.Mode, "index": cd.Index, "file": cd.File, "watermarks": wms, "api": apiKind, "add": selA.Terms, "remove": selB.Terms, "pages": n})
	h := sha256.Sum256([]byte(fmt.Sprint(docTag, wms[0].Kind, wms[0].OnTop, nWM, apiKind, selA.Kind, selB.Kind, shapeOf(cd.Doc), descShape(wms[0].Desc))))
	t.Eval(fmt.Sprintf("%x", h[:8]))
}

func variantOf(f *docFeatures, i int) string {
	if f == nil || i >= len(f.PageVariants) {
		return ""
	}
	return f.PageVariants[i]
}

func shapeOf(f *docFeatures) string {
	if f == nil {
		return "corpus"
	}
	v := append([]string(nil), f.PageVariants...)
	sort.Strings(v)
	return fmt.Sprint(f.Multi, f.Shared, f.Inherit, f.ClashNames, f.ForeignMC, f.ExistingOCG, v)
}

func descShape(desc string) string {
	var keys []string
	for _, p := range strings.Split(desc, ",") {
		if i := strings.Index(p, ":"); i > 0 {
			keys = append(keys, strings.TrimSpace(p[:i]))
		}
	}
	sort.Strings(keys)
	return strings.Join(keys, "+")
}

func findParam(desc, name string) string {
	for _, p := range strings.Split(desc, ",") {
		p = strings.TrimSpace(p)
		if strings.HasPrefix(p, name+":") {
			return p
		}
	}
	return ""
}

func stripParam(desc, name string) string {
	var keep []string
	for _, p := range strings.Split(desc, ",") {
		p = strings.TrimSpace(p)
		if p != "" && !strings.HasPrefix(p, name+":") {
			keep = append(keep, p)
		}
	}
	return strings.Join(keep, ", ")
}

func (rn *runner) genCase(i int) {
	t := rn.t
	r := t.RNGi("gen", i)
	g := buildDoc(r, 5)
	dir := filepath.Join(rn.scratch, fmt.Sprintf("g%05d", i))
	if err := os.MkdirAll(dir, 0o755); err != nil {
		t.Broken("mkdir: %v", err)
	}
	defer cleanupDir(dir)
	docTag := ""
	if g.Feat.ExistingOCG == "layer" {
		docTag = "doc=foreign-ocg/" // optional content groups of the document's own exist before the first watermark
	}
	rn.runCase(r, dir, g.Bytes, caseDesc{Mode: "gen", Index: i, Doc: &g.Feat}, docTag)
}

func (rn *runner) corpusCase(i int, path string, rep int) {
	t := rn.t
	r := t.RNGi("corpus:"+filepath.Base(path), rep)
	b, err := os.ReadFile(path)
	if err != nil {
		return
	}
	dir := filepath.Join(rn.scratch, fmt.Sprintf("c%03d-%d", i, rep))
	if err := os.MkdirAll(dir, 0o755); err != nil {
		t.Broken("mkdir: %v", err)
	}
	defer cleanupDir(dir)
	rel, _ := filepath.Rel(vk.RepoDir(), path)
	rn.runCase(r, dir, b, caseDesc{Mode: "corpus", Index: rep, File: rel}, "")
}

func cleanupDir(dir string) {
	if os.Getenv("VERIF_KEEP") == "" {
		_ = os.RemoveAll(dir)
	}
}

// corpusFiles: small, unencrypted corpus PDFs whose pages are unrotated and decodable by pdfstrict.
func corpusFiles(max int) []string {
	dir := filepath.Join(vk.RepoDir(), "pkg", "testdata")
	ents, _ := os.ReadDir(dir)
	var names []string
	for _, e := range ents {
		if !e.IsDir() && strings.HasSuffix(strings.ToLower(e.Name()), ".pdf") {
			names = append(names, e.Name())
		}
	}
	sort.Strings(names)
	var out []string
	for _, nm := range names {
		p := filepath.Join(dir, nm)
		fi, err := os.Stat(p)
		if err != nil || fi.Size() > 600<<10 {
			continue
		}
		b, err := os.ReadFile(p)
		if err != nil {
			continue
		}
		pages, d, err := readPages(b)
		if err != nil || len(pages) == 0 || len(pages) > 12 || d.Encrypted {
			continue
		}
		ok := true
		for _, pg := range pages {
			if pg.Err != nil || pg.Rotate != 0 || pg.Predictor || pg.artifacts() > 0 {
				ok = false
			}
		}
		if ok {
			out = append(out, p)
		}
		if len(out) == max {
			break
		}
	}
	return out
}

func main() {
	vk.Run("C38", "exploration", func(t *vk.T) {
		api.DisableConfigDir()
		scratch := t.Scratch()
		res := filepath.Join(vk.RepoDir(), "pkg", "testdata", "resources")
		src := &sources{}
		for _, n := range []string{"logoSmall.png", "logoVerySmall.png", "qr.png", "snow.jpg", "pdfchip3.png"} {
			if _, err := os.Stat(filepath.Join(res, n)); err == nil {
				src.images = append(src.images, filepath.Join(res, n))
			}
		}
		// PDF stamp sources: a corpus file and a generated two-page document
		stampDoc := pdfgen.Build(pdfgen.DocSpec{Seed: 4711, Pages: 2, Filters: pdfgen.FiltersFlate, XObjects: true})
		stampPath := filepath.Join(scratch, "stampsrc.pdf")
		if err := os.WriteFile(stampPath, stampDoc.Bytes, 0o644); err != nil {
			t.Broken("write: %v", err)
		}
		src.pdfs = []string{stampPath + ":1", stampPath + ":2", filepath.Join(vk.RepoDir(), "pkg", "testdata", "Wonderwall.pdf") + ":1"}
		if len(src.images) == 0 {
			t.Broken("no watermark images under %s", res)
		}
		rn := &runner{t: t, scratch: scratch, src: src, notes: map[string]int{}}

		if t.Replay != nil {
			var c caseDesc
			if err := json.Unmarshal(t.Replay.Case, &c); err != nil {
				t.Broken("replay case: %v", err)
			}
			switch c.Mode {
			case "gen":
				rn.genCase(c.Index)
			case "corpus":
				rn.corpusCase(0, filepath.Join(vk.RepoDir(), c.File), c.Index)
			}
			return
		}

		nGen := t.Pick(4000, 40000)
		reps := t.Pick(12, 120)
		corpus := corpusFiles(10)
		t.Rule(fmt.Sprintf("%d generated documents (pdfgen, 1..5 unrotated pages; single/multiple content streams; direct/shared/inherited resources; with/without enclosing q…Q, nested q…Q, no trailing white space, empty streams, no /Contents; foreign marked content; resources called GS0/GS1/Fm0 in use; pre-existing optional content groups) "+
			"and %d corpus files x %d repetitions; per case one add (AddWatermarksFile | MapFile | SliceMapFile with 1..2 watermarks) of a random text/image/PDF watermark or stamp with a random description on a random selection, then one remove (all | same selection | subset). "+
			"A case is non-trivial when add and remove both ran; distinct = distinct (document shape, kind, layer, api, selection kinds, description parameter set)", nGen, len(corpus), reps))
		t.Assume("inputs are unrotated and their content streams carry no /Predictor (recorded under C15); page content is compared decoded (pdfstrict), white space normalised by splitting at PDF white space")
		t.Assume("'an enclosing save/restore pair': up to one q … Q per watermark added to the page is accepted around the original content")
		t.Assume("'has a watermark' is decided independently by the presence of an /Artifact … /Subtype /Watermark … BDC sequence in the decoded page content")
		t.Assume("resources: every original resource entry of a watermarked page must be unchanged after add+remove, and the ExtGState/XObject names the page's own artifact used must be gone; other additional entries (shared resource dictionaries collect the names of all watermarked pages) are only counted")
		t.Assume("page selections use only forms pinned down by C31 (n, a-b, a-, -b, odd, even, l, lists of numbers); page 0 never")

		vk.Parallel(nGen, func(i int) { rn.genCase(i) })
		type cc struct{ i, rep int }
		var ccs []cc
		for i := range corpus {
			for rep := 0; rep < reps; rep++ {
				ccs = append(ccs, cc{i, rep})
			}
		}
		vk.Parallel(len(ccs), func(k int) { rn.corpusCase(ccs[k].i, corpus[ccs[k].i], ccs[k].rep) })
		t.Extra("corpus_files", len(corpus))
		if t.Counter("removes") == 0 {
			t.Inconclusive("no-remove-ever-ran")
		}
	})
}
