package main

// Random watermark / stamp sources and descriptions (grammar of pkg/pdfcpu/stamp.go wmParamMap).

import (
	"fmt"
	"math/rand/v2"
	"strings"

	"github.com/pdfcpu/pdfcpu/pkg/api"
	"github.com/pdfcpu/pdfcpu/pkg/pdfcpu/model"
	"github.com/pdfcpu/pdfcpu/pkg/pdfcpu/types"
)

type wmSpec struct {
	Kind  string `json:"kind"` // text | image | pdf
	Parm  string `json:"parm"` // text / file name / file:page
	Desc  string `json:"desc"`
	OnTop bool   `json:"on_top"`
}

func (w wmSpec) layer() string {
	if w.OnTop {
		return "stamp"
	}
	return "watermark"
}

type sources struct {
	images []string
	pdfs   []string // "path:page"
}

func pickS(r *rand.Rand, s []string) string { return s[r.IntN(len(s))] }

func randomDesc(r *rand.Rand, kind string) string {
	var p []string
	add := func(prob int, f func() string) {
		if r.IntN(100) < prob {
			p = append(p, f())
		}
	}
	add(60, func() string {
		return "position:" + pickS(r, []string{"tl", "tc", "tr", "l", "c", "r", "bl", "bc", "br"})
	})
	add(40, func() string { return fmt.Sprintf("offset:%d %d", r.IntN(80)-40, r.IntN(80)-40) })
	add(60, func() string {
		if r.IntN(2) == 0 {
			return fmt.Sprintf("scalefactor:%.2f rel", 0.1+0.9*r.Float64())
		}
		return fmt.Sprintf("scalefactor:%.2f abs", 0.2+1.5*r.Float64())
	})
	switch r.IntN(4) {
	case 0:
		p = append(p, fmt.Sprintf("rotation:%d", r.IntN(361)-180))
	case 1:
		p = append(p, fmt.Sprintf("diagonal:%d", 1+r.IntN(2)))
	case 2:
		p = append(p, "rotation:0")
	}
	add(60, func() string { return fmt.Sprintf("opacity:%.2f", r.Float64()) })
	if kind == "text" {
		add(50, func() string { return "fontname:" + pickS(r, []string{"Helvetica", "Courier", "Times-Roman", "Helvetica-Bold", "Courier-Oblique", "Times-Italic"}) })
		add(40, func() string { return fmt.Sprintf("points:%d", 6+r.IntN(60)) })
		add(50, func() string { return "fillcolor:" + randColor(r) })
		add(25, func() string { return "strokecolor:" + randColor(r) })
		add(25, func() string { return fmt.Sprintf("rendermode:%d", r.IntN(3)) })
		add(25, func() string { return "backgroundcolor:" + randColor(r) })
		add(20, func() string { return fmt.Sprintf("margins:%d", r.IntN(12)) })
		add(15, func() string { return fmt.Sprintf("border:%d round %s", 1+r.IntN(5), randColor(r)) })
		add(20, func() string { return "aligntext:" + pickS(r, []string{"l", "c", "r", "j"}) })
	}
	r.Shuffle(len(p), func(i, j int) { p[i], p[j] = p[j], p[i] })
	return strings.Join(p, ", ")
}

func randColor(r *rand.Rand) string {
	switch r.IntN(3) {
	case 0:
		return fmt.Sprintf("%.1f %.1f %.1f", r.Float64(), r.Float64(), r.Float64())
	case 1:
		return fmt.Sprintf("#%02X%02X%02X", r.IntN(256), r.IntN(256), r.IntN(256))
	}
	return pickS(r, []string{"Red", "Gray", "Black", "LightGray", "DarkGray", "Green", "Blue", "White"})
}

func randomWM(r *rand.Rand, src *sources) wmSpec {
	w := wmSpec{OnTop: r.IntN(2) == 0}
	switch r.IntN(3) {
	case 0:
		w.Kind = "text"
		w.Parm = pickS(r, []string{"DRAFT", "Confidential", "Do not copy\\nInternal use only", "%p of %P", "A (b) \\\\ c", "Zürich é", "line1\\nline2\\nline3", "EMC Q q BDC", "x"})
	case 1:
		w.Kind = "image"
		w.Parm = pickS(r, src.images)
	default:
		w.Kind = "pdf"
		w.Parm = pickS(r, src.pdfs)
	}
	w.Desc = randomDesc(r, w.Kind)
	return w
}

// build parses the spec into a fresh *model.Watermark (one per API call: pdfcpu caches page forms in it).
func (w wmSpec) build() (*model.Watermark, error) {
	switch w.Kind {
	case "text":
		return api.TextWatermark(w.Parm, w.Desc, w.OnTop, false, types.POINTS)
	case "image":
		return api.ImageWatermark(w.Parm, w.Desc, w.OnTop, false, types.POINTS)
	default:
		return api.PDFWatermark(w.Parm, w.Desc, w.OnTop, false, types.POINTS)
	}
}
