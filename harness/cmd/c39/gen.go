package main

import (
	"fmt"
	"math/rand/v2"
	"sort"
)

type op struct {
	Kind string `json:"op"` // "add" | "remove"
	K    string `json:"k"`
	ID   int    `json:"id,omitempty"`
}

// fnode describes a tree built by "somebody else": any fan-out, leaves of any size.
type fnode struct {
	Keys []string `json:"keys,omitempty"`
	Kids []*fnode `json:"kids,omitempty"`
}

type seqCase struct {
	Style    string   `json:"style"`
	Start    string   `json:"start"` // empty | built | foreign | generated (document layer: tree read from a pdfgen document)
	Build    []string `json:"build,omitempty"`
	LeafMax  int      `json:"leaf_max,omitempty"` // generated: entries per leaf (fan-out max(2, LeafMax))
	HexSeed  uint64   `json:"hex_seed,omitempty"` // generated: != 0: a third of the key strings are written in hex
	Foreign  *fnode   `json:"foreign,omitempty"`
	Universe []string `json:"universe"`
	Ops      []op     `json:"ops"`
	Doc      string   `json:"doc,omitempty"`  // "", "Dests", "EmbeddedFiles": run inside a document, write, re-read
	Ops2     []op     `json:"ops2,omitempty"` // applied to the tree re-read from the written document
}

var prefixFamily = []string{"a", "aa", "aaa", "aab", "ab", "aba", "abb", "b", "ba", "baa", "bb", "a0", "aa0", "a\x00", "a\x01", "a\x01\x01", "b\x01", "A", "Z", "z", "~"}
var punctFamily = []string{"A", "a", "B", "b", "_", "-", "~", " ", "a b", "a.b", "a-b", "a_b", "0", "00", "9", ":", "@", "[", "{"}

func universe(rng *rand.Rand) (kind string, u []string) {
	switch rng.IntN(7) {
	case 0:
		n := 4 + rng.IntN(23)
		for i := 0; i < n; i++ {
			u = append(u, string(rune('a'+i)))
		}
		kind = "letters"
	case 1:
		n := 10 + rng.IntN(31)
		for i := 1; i <= n; i++ {
			u = append(u, fmt.Sprint(i)) // lexicographic order differs from numeric order
		}
		kind = "numeric"
	case 2:
		u = append(u, prefixFamily...)
		kind = "prefix-family"
	case 3:
		n := 8 + rng.IntN(33)
		for i := 0; i < n; i++ {
			u = append(u, fmt.Sprintf("k%02d", i))
		}
		kind = "padded"
	case 4:
		n := 2 + rng.IntN(4)
		for i := 0; i < n; i++ {
			u = append(u, string(rune('p'+i)))
		}
		kind = "tiny"
	case 5:
		u = append(u, punctFamily...)
		kind = "punct"
	default:
		n := 6 + rng.IntN(20)
		for i := 0; i < n; i++ {
			l := 1 + rng.IntN(3)
			b := make([]byte, l)
			for j := range b {
				b[j] = "abc"[rng.IntN(3)]
			}
			u = append(u, string(b))
		}
		kind = "random-abc"
	}
	if rng.IntN(10) == 0 {
		u = append(u, "")
		kind += "+empty"
	}
	// dedupe + sort
	set := map[string]bool{}
	for _, k := range u {
		set[k] = true
	}
	u = u[:0]
	for k := range set {
		u = append(u, k)
	}
	sort.Strings(u)
	return kind, u
}

var orders = []string{"random", "ascending", "descending", "alternating-extremes", "inside-out"}

// ordered returns the (sorted, unique) keys in the given insertion/removal order.
func ordered(rng *rand.Rand, keys []string, order string) []string {
	out := append([]string(nil), keys...)
	n := len(out)
	if n == 0 {
		return out
	}
	switch order {
	case "random":
		rng.Shuffle(n, func(i, j int) { out[i], out[j] = out[j], out[i] })
	case "descending":
		for i, j := 0, n-1; i < j; i, j = i+1, j-1 {
			out[i], out[j] = out[j], out[i]
		}
	case "alternating-extremes":
		res := make([]string, 0, n)
		for i, j := 0, n-1; i <= j; i, j = i+1, j-1 {
			res = append(res, keys[i])
			if i != j {
				res = append(res, keys[j])
			}
		}
		out = res
	case "inside-out":
		res := make([]string, 0, n)
		for i, j := (n-1)/2, (n-1)/2+1; i >= 0 || j < n; i, j = i-1, j+1 {
			if i >= 0 {
				res = append(res, keys[i])
			}
			if j < n {
				res = append(res, keys[j])
			}
		}
		out = res
	}
	return out
}

func genForeign(rng *rand.Rand, keys []string, depth int) *fnode {
	if len(keys) == 0 {
		return &fnode{}
	}
	leafCap := 1 + rng.IntN(6)
	if depth >= 3 || len(keys) <= leafCap && rng.IntN(3) > 0 || len(keys) == 1 && rng.IntN(4) > 0 {
		return &fnode{Keys: append([]string(nil), keys...)}
	}
	f := 1 + rng.IntN(4)
	if f > len(keys) {
		f = len(keys)
	}
	// f-1 distinct cut points
	cuts := rng.Perm(len(keys) - 1)[:f-1]
	sort.Ints(cuts)
	n := &fnode{}
	prev := 0
	for _, c := range cuts {
		n.Kids = append(n.Kids, genForeign(rng, keys[prev:c+1], depth+1))
		prev = c + 1
	}
	n.Kids = append(n.Kids, genForeign(rng, keys[prev:], depth+1))
	return n
}

// genOps produces up to maxOps operations against the simulated key set present.
func genOps(rng *rand.Rand, u []string, present map[string]bool, maxOps int, nextID *int) (string, []op) {
	L := 1 + rng.IntN(maxOps)
	var ops []op
	add := func(k string) {
		*nextID++
		ops = append(ops, op{Kind: "add", K: k, ID: *nextID})
		present[k] = true
	}
	rem := func(k string) {
		ops = append(ops, op{Kind: "remove", K: k})
		delete(present, k)
	}
	presentKeys := func() []string {
		out := make([]string, 0, len(present))
		for k := range present {
			out = append(out, k)
		}
		sort.Strings(out)
		return out
	}
	mode := rng.IntN(4)
	switch mode {
	case 0, 1: // mixed
		pAdd := []float64{0.4, 0.55, 0.7}[rng.IntN(3)]
		for len(ops) < L {
			x := rng.Float64()
			pk := presentKeys()
			switch {
			case x < pAdd || len(pk) == 0 && x < 0.9:
				add(u[rng.IntN(len(u))]) // may be present already: re-add with a new value
			case x < pAdd+(1-pAdd)*0.75 && len(pk) > 0:
				rem(pk[rng.IntN(len(pk))])
			default:
				// probably absent: universe key or a neighbour of a present key
				k := u[rng.IntN(len(u))]
				if len(pk) > 0 && rng.IntN(2) == 0 {
					k = pk[rng.IntN(len(pk))] + []string{"\x00", "0", "~"}[rng.IntN(3)]
				}
				if rng.IntN(12) == 0 {
					k = ""
				}
				rem(k)
			}
		}
		return "mixed", ops
	default: // fill-drain(-fill) in adversarial orders
		o1, o2 := orders[rng.IntN(len(orders))], orders[rng.IntN(len(orders))]
		absent := []string{}
		for _, k := range u {
			if !present[k] {
				absent = append(absent, k)
			}
		}
		for _, k := range ordered(rng, absent, o1) {
			if len(ops) >= L*2/3+1 {
				break
			}
			add(k)
			if rng.IntN(10) == 0 {
				add(k) // immediate duplicate
			}
		}
		for _, k := range ordered(rng, presentKeys(), o2) {
			if len(ops) >= L {
				break
			}
			rem(k)
			if rng.IntN(10) == 0 {
				rem(k) // remove twice
			}
		}
		style := "fill-" + o1 + "/drain-" + o2
		if mode == 3 {
			for _, k := range ordered(rng, u, o1) {
				if len(ops) >= L {
					break
				}
				if !present[k] {
					add(k)
				}
			}
			style += "/refill"
		}
		if len(ops) > maxOps {
			ops = ops[:maxOps]
		}
		return style, ops
	}
}

func flatten(f *fnode, out *[]string) {
	if f == nil {
		return
	}
	*out = append(*out, f.Keys...)
	for _, k := range f.Kids {
		flatten(k, out)
	}
}

// genCase builds one sequence; doc selects the document layer.
func genCase(rng *rand.Rand, doc string) *seqCase {
	kind, u := universe(rng)
	if doc != "" {
		u = docUniverse(rng, doc)
		kind = "doc"
	}
	c := &seqCase{Universe: u, Doc: doc}
	present := map[string]bool{}
	nextID := 0
	x := rng.IntN(20)
	switch {
	case x < 8 && doc == "" || x < 4:
		c.Start = "empty"
	case doc != "" && x < 12:
		// a multi-level tree of foreign shape read from a generated document
		c.Start = "generated"
		m := 4 + rng.IntN(30)
		if m > len(u) {
			m = len(u)
		}
		sub := append([]string(nil), u...)
		rng.Shuffle(len(sub), func(i, j int) { sub[i], sub[j] = sub[j], sub[i] })
		sub = sub[:m]
		sort.Strings(sub)
		c.Build = sub
		c.LeafMax = 1 + rng.IntN(6)
		if rng.IntN(3) == 0 {
			c.HexSeed = 1 + rng.Uint64N(1<<32)
		}
		for _, k := range c.Build {
			present[k] = true
		}
		nextID = len(c.Build)
	case x < 15 || doc != "":
		c.Start = "built"
		m := 5 + rng.IntN(36)
		if m > len(u) {
			m = len(u)
		}
		sub := append([]string(nil), u...)
		rng.Shuffle(len(sub), func(i, j int) { sub[i], sub[j] = sub[j], sub[i] })
		sub = sub[:m]
		sort.Strings(sub)
		c.Build = ordered(rng, sub, orders[rng.IntN(len(orders))])
		for _, k := range c.Build {
			present[k] = true
		}
		nextID = len(c.Build)
	default:
		c.Start = "foreign"
		m := 3 + rng.IntN(28)
		if m > len(u) {
			m = len(u)
		}
		sub := append([]string(nil), u...)
		rng.Shuffle(len(sub), func(i, j int) { sub[i], sub[j] = sub[j], sub[i] })
		sub = sub[:m]
		sort.Strings(sub)
		c.Foreign = genForeign(rng, sub, 0)
		for _, k := range sub {
			present[k] = true
		}
		nextID = len(sub)
	}
	style, ops := genOps(rng, u, present, 60, &nextID)
	c.Style = kind + "/" + style
	c.Ops = ops
	if doc != "" {
		_, c.Ops2 = genOps(rng, u, present, 24, &nextID)
	}
	return c
}
