// C39 — name trees stay sorted, bounded and consistent under edits.
//
// Layer 1 drives model.Node.Add / Remove / Value / KeyList / Process directly over histories of up to 60
// operations on empty trees, on trees pre-built by Add (multi-level) and on valid trees of foreign shape
// (any fan-out, leaves of 1..6 entries, built with AppendToNames as pdfcpu does when it reads a document).
// Reference: a Go map + sort. After EVERY operation: in-order keys strictly increasing and unique, every
// node's Kmin/Kmax = min/max key of its subtree, intermediate nodes hold no names, no empty subtrees,
// every key's Value = the map's, absent keys (neighbours of present keys, "", below min, above max, the
// rest of the key universe) not found, KeyList/Process = the map's sorted keys.
// Layer 2 puts the tree into a real document (Root /Names /Dests or /EmbeddedFiles): either pkg/testdata/test.pdf
// with a tree installed by LocateNameTree(.., true) and filled by Add, or a document made by the independent
// generator (internal/pdfgen) that already holds a multi-level tree of foreign shape, read by pdfcpu. The tree is
// edited, the document written, re-read raw (internal/pdfstrict + own name tree walk, no pdfcpu code) and through
// pdfcpu, edited again on the re-read tree, written and re-read again.
package main

import (
	"encoding/json"
	"fmt"
	"sort"
	"sync"

	"github.com/pdfcpu/pdfcpu/pkg/api"
	"verif/harness/internal/vk"
)

func run(c *seqCase, o obs, scratch string, idx int) *result {
	if c.Doc != "" {
		return runDoc(c, o, scratch, idx)
	}
	return runMem(c, o)
}

// shrink greedily drops operations / build keys while the same violation key keeps firing.
func shrink(c *seqCase, key string, scratch string, idx int) *seqCase {
	cur := *c
	budget := 400
	try := func(cand *seqCase) bool {
		if budget <= 0 {
			return false
		}
		budget--
		r := run(cand, obs{}, scratch, idx)
		return r != nil && r.Key == key
	}
	for changed := true; changed && budget > 0; {
		changed = false
		for _, field := range []int{2, 1, 0} {
			get := func() int {
				switch field {
				case 0:
					return len(cur.Build)
				case 1:
					return len(cur.Ops)
				}
				return len(cur.Ops2)
			}
			for i := get() - 1; i >= 0; i-- {
				cand := cur
				switch field {
				case 0:
					cand.Build = append(append([]string(nil), cur.Build[:i]...), cur.Build[i+1:]...)
				case 1:
					cand.Ops = append(append([]op(nil), cur.Ops[:i]...), cur.Ops[i+1:]...)
				default:
					cand.Ops2 = append(append([]op(nil), cur.Ops2[:i]...), cur.Ops2[i+1:]...)
				}
				if try(&cand) {
					cur = cand
					changed = true
				}
			}
		}
	}
	return &cur
}

func main() {
	vk.Run("C39", "exploration", func(t *vk.T) {
		api.DisableConfigDir()
		scratch := t.Scratch()
		if t.Replay != nil {
			var c seqCase
			if err := json.Unmarshal(t.Replay.Case, &c); err != nil {
				t.Broken("replay case: %v", err)
			}
			if r := run(&c, obs{}, scratch, 0); r != nil {
				t.Violate(r.Key, r.What, &c)
			}
			return
		}
		nMem := t.Pick(2_000, 100_000)
		nDoc := t.Pick(300, 6_000)
		t.Rule(fmt.Sprintf("layer 1: %d seeded histories (<= 60 operations after the start state) on model.Node: start = empty | built by 5..40 Adds in random/ascending/descending/alternating-extremes/inside-out order | "+
			"foreign-shaped valid tree; operations = mixed add/re-add/remove-present/remove-absent or fill/drain(/refill) in adversarial orders; key universes small (letters, numeric strings, prefix families incl. \\x00/\\x01 suffixes, "+
			"padded, 2..5-key alphabets, punctuation, random abc strings, sometimes the empty key) so collisions are frequent; all invariants checked after every operation. "+
			"layer 2: %d histories inside a document, under /Names /Dests (values = destination arrays) or /EmbeddedFiles (values = file specifications, Remove with the xref table): start = empty or Add-built tree in pkg/testdata/test.pdf | "+
			"4..33 keys in a pdfgen document (leaves of <= 1..6 entries, fan-out max(2, leaf size), depth up to 6, literal and hex key strings) read through ReadAndValidate and compared with what was generated; "+
			"then <= 60 operations, WriteContextFile, raw re-read (pdfstrict + own object walk incl. /Limits of every kid, sorted order, values), re-read via pdfcpu (ReadAndValidate -> ctx.Names, all layer-1 checks), "+
			"<= 24 more operations on the re-read tree, written and re-read again. "+
			"A history is non-trivial when it reaches a tree of depth >= 2 or removes a present key", nMem, nDoc))
		t.Assume("re-adding an existing key is not documented (the code ignores the new value when no NameMap is passed, and renames the key with a \\x01 suffix when one is): error, keep-old and overwrite are all accepted; the reference map follows what Value reports")
		t.Assume("Remove's 'empty' result is documented ('true if this node is an empty leaf node after removal'): checked to be true exactly when the last key was removed")
		t.Assume("limits of an EMPTY root are unspecified and not checked; for every non-empty node (root included, pdfcpu tracks root limits internally and Value consults them) Kmin/Kmax must equal the min/max key below it")
		t.Assume("max entries per leaf (maxEntries = 3, unexported) is not asserted: pdfcpu documents that foreign leaves may be larger; only observed (max_leaf_entries_seen)")
		t.Assume("layer 2 keys are non-empty text: ASCII, a few with delimiters/control bytes (pdfcpu itself appends \\x01), valid UTF-8, and — as a separately keyed class — keys with a backslash; invalid UTF-8 keys are out of scope (pdfcpu re-encodes key bytes as text)")
		t.Assume("the EMPTY key is exercised on model.Node only (layer 1): api.AddAttachments derives ids from file names (never empty) and pdfcpu ignores bookmarks with an empty title, so no document operation of pdfcpu produces it; pdfcpu's reader uses \"\" as 'no key yet' sentinel and drops such a tree (a reader limitation for foreign files, outside this property)")
		t.Assume("Dests entries are removed with a nil xref table: Remove(xRefTable, ..) releases the value's object graph guarded by the reference counts that validation established (pdfcpu's RemoveBookmarks / migrateNamedDests rely on them); destinations added by the harness refer to page 1 without being counted, so releasing them would eventually free the page. The xref-table path is exercised on EmbeddedFiles, as RemoveAttachments does")
		t.Assume("the tree is edited the way pdfcpu's own commands do it: in place through ctx.Names[name] (model.Context.AddAttachment / RemoveAttachments, bookmark creation), relying on WriteContext -> BindNameTrees to persist it; a tree that became empty is not written (pdfcpu removes the EmbeddedFiles entry instead)")

		var mu sync.Mutex
		total := obs{}
		maxKeys := []string{"max_depth_seen", "max_leaf_entries_seen", "max_fanout_seen", "doc_generated_max_depth"}
		merge := func(o obs) {
			mu.Lock()
			for k, v := range o {
				isMax := false
				for _, mk := range maxKeys {
					if k == mk {
						isMax = true
					}
				}
				if isMax {
					total[k] = max(total[k], v)
				} else {
					total[k] += v
				}
			}
			mu.Unlock()
		}
		reported := sync.Map{}
		handle := func(c *seqCase, r *result, idx int) {
			if r == nil {
				return
			}
			mu.Lock()
			total["violating_histories"]++
			total["violations/"+r.Key]++
			mu.Unlock()
			if _, seen := reported.LoadOrStore(r.Key, true); seen {
				return
			}
			small := shrink(c, r.Key, scratch, idx)
			what := r.What
			if r2 := run(small, obs{}, scratch, idx); r2 != nil && r2.Key == r.Key {
				what = r2.What
			} else {
				small = c
			}
			b, _ := json.Marshal(small)
			t.Violate(r.Key, fmt.Sprintf("%s | shrunk history: %s", what, b), small)
		}

		vk.Parallel(nMem, func(i int) {
			rng := t.RNGi("mem", i)
			c := genCase(rng, "")
			o := obs{}
			r := runMem(c, o)
			o["histories_start_"+c.Start]++
			nt := ""
			if o["op_remove"] > 0 || o["max_depth_seen"] >= 2 {
				nt = fmt.Sprintf("mem#%d", i)
			}
			t.Eval(nt)
			if i < 3 {
				t.Sample(map[string]any{"style": c.Style, "start": c.Start, "build": len(c.Build), "ops": len(c.Ops), "first_ops": c.Ops[:min(4, len(c.Ops))]})
			}
			merge(o)
			handle(c, r, i)
		})
		vk.Parallel(nDoc, func(i int) {
			rng := t.RNGi("doc", i)
			doc := "Dests"
			if i%3 == 2 {
				doc = "EmbeddedFiles"
			}
			c := genCase(rng, doc)
			o := obs{}
			r := runDoc(c, o, scratch, nMem+i)
			o["doc_histories_"+doc]++
			nt := ""
			if o["doc_pdfcpu_rereads"] > 0 {
				nt = fmt.Sprintf("doc#%d", i)
			}
			t.Eval(nt)
			if i < 2 {
				t.Sample(map[string]any{"doc": doc, "style": c.Style, "build": len(c.Build), "ops": len(c.Ops), "ops2": len(c.Ops2), "universe": c.Universe})
			}
			merge(o)
			handle(c, r, nMem+i)
		})
		keys := make([]string, 0, len(total))
		for k := range total {
			keys = append(keys, k)
		}
		sort.Strings(keys)
		for _, k := range keys {
			t.Count(k, total[k])
		}
		if total["tree_checks"] == 0 {
			t.Broken("no tree check ran")
		}
	})
}
