package main

import (
	"fmt"
	"strconv"
	"strings"

	"github.com/pdfcpu/pdfcpu/pkg/pdfcpu/model"
	"github.com/pdfcpu/pdfcpu/pkg/pdfcpu/types"
)

// obs are the observation counters of one run (merged by the caller).
type obs map[string]int64

// stringCodec: layer 1 values are string literals "v<id>".
type stringCodec struct{}

func (stringCodec) make(_ string, id int) (types.Object, error) {
	return types.StringLiteral("v" + strconv.Itoa(id)), nil
}

func (stringCodec) id(o types.Object) (int, error) {
	s, ok := o.(types.StringLiteral)
	if !ok || !strings.HasPrefix(string(s), "v") {
		return 0, fmt.Errorf("unexpected value %v (%T)", o, o)
	}
	return strconv.Atoi(string(s)[1:])
}

// result of running one case
type result struct {
	Key     string // violation key, "" = all invariants held
	What    string
	OpIndex int // index into Build+Ops(+Ops2) of the operation after which the check failed (-1: start state)

	keyClass string // document layer: worst key class in the tree when it was written
	start    string // start state of the tree the failing operation ran on
}

type treeState struct {
	root  *model.Node
	ref   map[string]int
	vc    valueCodec
	xrt   *model.XRefTable // passed to Remove (nil in layer 1 and for Dests)
	start string
	o     obs
	sh    shape
}

// applyOp performs one operation and all checks. opClass is part of the violation key.
func (s *treeState) applyOp(o op, universe []string, build bool) (opClass string, f *failure) {
	_, present := s.ref[o.K]
	defer func() {
		if r := recover(); r != nil {
			s.o["pdfcpu_panics"]++
			f = failf("panic/"+pdfcpuFrame(), "%s(%q) panics: %v; tree before: see replay", o.Kind, o.K, r)
		}
	}()
	switch o.Kind {
	case "add":
		opClass = "add"
		if present {
			opClass = "readd"
		}
		if build {
			opClass = "build-add"
		}
		v, err := s.vc.make(o.K, o.ID)
		if err != nil {
			return opClass, failf("harness-value", "cannot make value: %v", err)
		}
		err = s.root.Add(s.xrt, o.K, v, nil, nil)
		s.o["op_"+opClass]++
		if !present {
			if err != nil {
				return opClass, failf("add-error", "Add(%q) of a new key fails: %v", o.K, err)
			}
			s.ref[o.K] = o.ID
		} else {
			// Re-adding an existing key is not documented (code: silently ignored when no NameMap is given):
			// error, keep-old and overwrite are all accepted; the reference follows what Value reports.
			if err != nil {
				s.o["readd_returned_error"]++
			} else if got, ok := s.root.Value(o.K); ok {
				if id, e := s.vc.id(got); e == nil && id == o.ID {
					s.ref[o.K] = o.ID
					s.o["readd_overwrote_value"]++
				} else {
					s.o["readd_kept_old_value"]++
				}
			}
		}
	case "remove":
		opClass = "remove"
		if !present {
			opClass = "remove-absent"
		}
		empty, ok, err := s.root.Remove(s.xrt, o.K)
		s.o["op_"+opClass]++
		if present {
			if err != nil {
				return opClass, failf("remove-error", "Remove(%q) of a present key fails: %v", o.K, err)
			}
			if !ok {
				return opClass, failf("remove-present-not-ok", "Remove(%q) reports ok=false although the key is present (tree %s)", o.K, s.root.String())
			}
			delete(s.ref, o.K)
			if empty != (len(s.ref) == 0) {
				return opClass, failf("empty-flag-wrong", "Remove(%q) reports empty=%v but %d keys remain", o.K, empty, len(s.ref))
			}
			if empty {
				s.o["tree_emptied"]++
			}
		} else {
			if err != nil {
				return opClass, failf("remove-absent-error", "Remove(%q) of an absent key fails: %v", o.K, err)
			}
			if ok {
				return opClass, failf("remove-absent-ok", "Remove(%q) reports ok=true although the key is absent", o.K)
			}
		}
	default:
		return "?", failf("harness-op", "unknown op %q", o.Kind)
	}
	probes := absentProbes(s.ref, universe)
	s.o["lookups_present"] += int64(len(s.ref))
	s.o["lookups_absent"] += int64(len(probes))
	s.o["tree_checks"]++
	return opClass, checkTree(s.root, s.ref, s.vc, probes, &s.sh)
}

func buildForeign(f *fnode, vc valueCodec, ref map[string]int, nextID *int) (*model.Node, error) {
	n := &model.Node{}
	if len(f.Kids) == 0 {
		for _, k := range f.Keys {
			*nextID++
			v, err := vc.make(k, *nextID)
			if err != nil {
				return nil, err
			}
			n.AppendToNames(k, v)
			ref[k] = *nextID
		}
		if len(f.Keys) > 0 {
			n.Kmin, n.Kmax = f.Keys[0], f.Keys[len(f.Keys)-1]
		}
		return n, nil
	}
	for _, kf := range f.Kids {
		kid, err := buildForeign(kf, vc, ref, nextID)
		if err != nil {
			return nil, err
		}
		n.Kids = append(n.Kids, kid)
	}
	n.Kmin, n.Kmax = n.Kids[0].Kmin, n.Kids[len(n.Kids)-1].Kmax
	return n, nil
}

// runOps applies ops and returns the first failure as a result.
func (s *treeState) runOps(ops []op, universe []string, build bool, base int, prefix string) *result {
	for i, o := range ops {
		opClass, f := s.applyOp(o, universe, build)
		if f != nil {
			key := prefix + opClass + "/" + f.Class
			if s.start == "foreign" || s.start == "generated" {
				key += "/start=foreign" // different input domain: tree shapes pdfcpu did not build itself
			}
			return &result{start: s.start, Key: key, What: fmt.Sprintf("after op %d %s(%q): %s", base+i, o.Kind, o.K, f.What), OpIndex: base + i}
		}
	}
	return nil
}

func buildOps(keys []string) []op {
	out := make([]op, len(keys))
	for i, k := range keys {
		out[i] = op{Kind: "add", K: k, ID: i + 1}
	}
	return out
}

// runMem is layer 1: the case on a free-standing model.Node.
func runMem(c *seqCase, o obs) *result {
	s := &treeState{root: &model.Node{}, ref: map[string]int{}, vc: stringCodec{}, start: c.Start, o: o}
	defer func() {
		o["max_depth_seen"] = max(o["max_depth_seen"], int64(s.sh.depth))
		o["max_leaf_entries_seen"] = max(o["max_leaf_entries_seen"], int64(s.sh.maxLeaf))
		o["max_fanout_seen"] = max(o["max_fanout_seen"], int64(s.sh.maxFan))
	}()
	switch c.Start {
	case "built":
		if r := s.runOps(buildOps(c.Build), c.Universe, true, 0, ""); r != nil {
			return r
		}
	case "foreign":
		id := 0
		root, err := buildForeign(c.Foreign, s.vc, s.ref, &id)
		if err != nil {
			return &result{Key: "harness/foreign-build", What: err.Error(), OpIndex: -1}
		}
		s.root = root
		if f := checkTree(s.root, s.ref, s.vc, absentProbes(s.ref, c.Universe), &s.sh); f != nil {
			// the hand-built start tree must satisfy the invariants itself; lookups on it are pdfcpu's
			return &result{Key: fmt.Sprintf("start/%s/start=foreign", f.Class), What: "freshly built foreign tree: " + f.What, OpIndex: -1}
		}
	}
	if s.sh.depth >= 2 {
		o["sequences_on_multilevel_start"]++
	}
	return s.runOps(c.Ops, c.Universe, false, len(c.Build), "")
}
