package main

import (
	"fmt"
	"os"
	"sort"
	"strconv"
	"strings"
	"unicode/utf16"

	"verif/harness/internal/pdfstrict"
)

// Raw re-read of a written document: harness/internal/pdfstrict (independent, non-repairing reader) plus an
// own walk over the name tree objects. Nothing of pdfcpu is involved, so a writer defect cannot be masked by a
// matching reader defect.

type rawEntry struct {
	k  string
	id int
}

func rawKey(o pdfstrict.Object) (string, error) {
	s, ok := o.(pdfstrict.String)
	if !ok {
		return "", fmt.Errorf("not a string: %v (%T)", o, o)
	}
	return string(s), nil
}

// rawText decodes a text string (UTF-16BE with BOM, else bytes as they are: the harness only writes ASCII there).
func rawText(b []byte) string {
	if len(b) >= 2 && b[0] == 0xFE && b[1] == 0xFF {
		u := make([]uint16, 0, len(b)/2)
		for i := 2; i+1 < len(b); i += 2 {
			u = append(u, uint16(b[i])<<8|uint16(b[i+1]))
		}
		return string(utf16.Decode(u))
	}
	return string(b)
}

// rawID reads the identity the codecs put into a value: Dests [page /XYZ id 0 null], EmbeddedFiles -> /Desc (id<N>).
func rawID(d *pdfstrict.Doc, doc string, o pdfstrict.Object) (int, error) {
	if doc == "EmbeddedFiles" {
		if _, ok := o.(pdfstrict.Ref); !ok {
			return 0, fmt.Errorf("file specification is not an indirect reference: %v", o)
		}
		fs, ok := d.ResolveDict(o)
		if !ok {
			return 0, fmt.Errorf("file specification %v is not a dictionary (%T)", o, d.Resolve(o))
		}
		desc, ok := d.Resolve(fs["Desc"]).(pdfstrict.String)
		if !ok || !strings.HasPrefix(rawText(desc), "id") {
			return 0, fmt.Errorf("file specification %v: Desc %v", o, fs["Desc"])
		}
		return strconv.Atoi(rawText(desc)[2:])
	}
	a, ok := d.Resolve(o).(pdfstrict.Array)
	if !ok || len(a) != 5 {
		return 0, fmt.Errorf("unexpected destination %v (%T)", o, o)
	}
	i, ok := a[2].(pdfstrict.Int)
	if !ok {
		return 0, fmt.Errorf("unexpected destination %v", a)
	}
	return int(i), nil
}

// rawWalk reads the written name tree straight from the object graph and checks the structure of every node.
func rawWalk(d *pdfstrict.Doc, doc string, nd pdfstrict.Dict, depth int, out *[]rawEntry) *failure {
	if depth > 64 {
		return failf("raw-too-deep", "written tree deeper than 64")
	}
	kidsObj, hasKids := nd["Kids"]
	_, hasNames := nd["Names"]
	if hasKids {
		if hasNames {
			return failf("raw-intermediate-has-names", "written node has both Kids and Names: %v", nd)
		}
		kids, ok := d.Resolve(kidsObj).(pdfstrict.Array)
		if !ok {
			return failf("raw-kids", "Kids is not an array: %v", kidsObj)
		}
		for _, ko := range kids {
			if _, ok := ko.(pdfstrict.Ref); !ok {
				return failf("raw-kid-not-indirect", "kid is not an indirect reference: %v", ko)
			}
			kd, ok := d.ResolveDict(ko)
			if !ok {
				return failf("raw-kids", "kid %v is not a dictionary", ko)
			}
			from := len(*out)
			if f := rawWalk(d, doc, kd, depth+1, out); f != nil {
				return f
			}
			sub := (*out)[from:]
			if len(sub) == 0 {
				return failf("raw-empty-subtree", "written kid %v holds no keys", ko)
			}
			lim, ok := d.Resolve(kd["Limits"]).(pdfstrict.Array)
			if !ok || len(lim) != 2 {
				return failf("raw-limits-missing", "kid %v: Limits %v", ko, kd["Limits"])
			}
			lo, e1 := rawKey(d.Resolve(lim[0]))
			hi, e2 := rawKey(d.Resolve(lim[1]))
			if e1 != nil || e2 != nil {
				return failf("raw-limits-missing", "kid %v: Limits %v", ko, kd["Limits"])
			}
			mn, mx := sub[0].k, sub[0].k
			for _, e := range sub {
				if e.k < mn {
					mn = e.k
				}
				if e.k > mx {
					mx = e.k
				}
			}
			if lo != mn || hi != mx {
				return failf("raw-limits-mismatch", "written kid %v has Limits [%q %q] but its keys span [%q %q]", ko, lo, hi, mn, mx)
			}
		}
		return nil
	}
	names, ok := d.Resolve(nd["Names"]).(pdfstrict.Array)
	if !ok {
		return failf("raw-names", "Names is not an array: %v", nd["Names"])
	}
	if len(names)%2 != 0 {
		return failf("raw-names", "Names has odd length %d", len(names))
	}
	for i := 0; i < len(names); i += 2 {
		k, err := rawKey(d.Resolve(names[i]))
		if err != nil {
			return failf("raw-names", "key %v: %v", names[i], err)
		}
		id, err := rawID(d, doc, names[i+1])
		if err != nil {
			return failf("raw-value", "key %q: %v", k, err)
		}
		*out = append(*out, rawEntry{k, id})
	}
	return nil
}

// rawKeys lists the keys of the written tree in file order, ignoring limits and values.
func rawKeys(d *pdfstrict.Doc, nd pdfstrict.Dict, depth int) ([]string, bool) {
	if depth > 64 {
		return nil, false
	}
	var out []string
	if kidsObj, ok := nd["Kids"]; ok {
		kids, ok := d.Resolve(kidsObj).(pdfstrict.Array)
		if !ok {
			return nil, false
		}
		for _, ko := range kids {
			kd, ok := d.ResolveDict(ko)
			if !ok {
				return nil, false
			}
			kk, ok := rawKeys(d, kd, depth+1)
			if !ok {
				return nil, false
			}
			out = append(out, kk...)
		}
		return out, true
	}
	names, ok := d.Resolve(nd["Names"]).(pdfstrict.Array)
	if !ok {
		return nil, false
	}
	for i := 0; i+1 < len(names); i += 2 {
		k, err := rawKey(d.Resolve(names[i]))
		if err != nil {
			return nil, false
		}
		out = append(out, k)
	}
	return out, true
}

func rawBothKinds(d *pdfstrict.Doc, nd pdfstrict.Dict, depth int) *failure {
	kidsObj, hasKids := nd["Kids"]
	if !hasKids || depth > 64 {
		return nil
	}
	if _, hasNames := nd["Names"]; hasNames {
		return failf("raw-node-has-kids-and-names", "written node (depth %d) has both Kids and Names: Names %v", depth, d.Resolve(nd["Names"]))
	}
	kids, _ := d.Resolve(kidsObj).(pdfstrict.Array)
	for _, ko := range kids {
		if kd, ok := d.ResolveDict(ko); ok {
			if f := rawBothKinds(d, kd, depth+1); f != nil {
				return f
			}
		}
	}
	return nil
}

func rawCheck(path, doc string, ref map[string]int) *failure {
	data, err := os.ReadFile(path)
	if err != nil {
		return failf("raw-open", "%v", err)
	}
	d, err := pdfstrict.Open(data, pdfstrict.Options{})
	if err != nil {
		return failf("raw-read-error", "written file cannot be parsed: %v", err)
	}
	cat, ok := d.ResolveDict(d.Trailer()["Root"])
	if !ok {
		return failf("raw-read-error", "catalog missing")
	}
	nd, ok := d.ResolveDict(cat["Names"])
	if !ok {
		return failf("raw-tree-missing", "catalog /Names missing in the written file")
	}
	td, ok := d.ResolveDict(nd[doc])
	if !ok {
		return failf("raw-tree-missing", "/Names /%s missing in the written file", doc)
	}
	// pass 0: a node holding both Kids and Names (a reader follows Kids and never sees the names)
	if f := rawBothKinds(d, td, 0); f != nil {
		return f
	}
	// pass A: which keys does the written tree hold at all? (one class for every way of writing a stale tree)
	want := make([]string, 0, len(ref))
	for k := range ref {
		want = append(want, k)
	}
	sort.Strings(want)
	if got, ok := rawKeys(d, td, 0); ok {
		sorted := append([]string(nil), got...)
		sort.Strings(sorted)
		if !eqStrings(sorted, want) {
			return failf("raw-keys-differ-from-map", "written file holds %q, reference map %q", got, want)
		}
	}
	// pass B: structure, limits, order, values
	var ee []rawEntry
	if fl := rawWalk(d, doc, td, 0, &ee); fl != nil {
		return fl
	}
	var keys []string
	for i, e := range ee {
		keys = append(keys, e.k)
		if i > 0 && ee[i-1].k >= e.k {
			return failf("raw-keys-not-sorted", "written keys not strictly ascending: %q then %q", ee[i-1].k, e.k)
		}
	}
	if !eqStrings(keys, want) {
		return failf("raw-keys-differ-from-map", "written file holds %q, reference map %q", keys, want)
	}
	for _, e := range ee {
		if ref[e.k] != e.id {
			return failf("raw-value-mismatch", "written key %q carries value id %d, reference %d", e.k, e.id, ref[e.k])
		}
	}
	return nil
}
