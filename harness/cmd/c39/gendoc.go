package main

import (
	"math/rand/v2"
	"strconv"

	"verif/harness/internal/pdfgen"
)

// generatedDoc builds, with the independent generator, a document whose catalog holds the name tree
// /Names /<c.Doc> with the keys c.Build (value ids 1..n in sorted key order) in a shape pdfcpu would not
// build itself: leaves of up to c.LeafMax entries under /Kids nodes of fan-out max(2, LeafMax), i.e. trees of
// depth 1..6 for the sizes used here, keys written as literal or (c.HexSeed) hexadecimal strings.
// It returns the file and the reference map.
func generatedDoc(c *seqCase) ([]byte, map[string]int) {
	doc, truth := pdfgen.BuildDoc(pdfgen.DocSpec{Seed: 39, Pages: 2})
	page := pdfgen.Ref{Num: truth.Objs.PageObjs[0]}
	keys := append([]string(nil), c.Build...)
	ref := map[string]int{}
	var entries []pdfgen.NameTreeEntry
	for i, k := range keys {
		if _, dup := ref[k]; dup {
			continue
		}
		id := i + 1
		ref[k] = id
		var val pdfgen.Object
		if c.Doc == "EmbeddedFiles" {
			sref := doc.Add(&pdfgen.Stream{Dict: pdfgen.D("Type", pdfgen.Name("EmbeddedFile")), Data: []byte("data" + strconv.Itoa(id))})
			val = doc.Add(pdfgen.D("Type", pdfgen.Name("Filespec"), "F", pdfgen.String(k), "UF", pdfgen.String(k),
				"EF", pdfgen.D("F", sref, "UF", sref), "Desc", pdfgen.String("id"+strconv.Itoa(id))))
		} else {
			val = pdfgen.Array{page, pdfgen.Name("XYZ"), pdfgen.Int(id), pdfgen.Int(0), pdfgen.Null{}}
		}
		entries = append(entries, pdfgen.NameTreeEntry{Key: []byte(k), Val: val})
	}
	var hexKeys func() bool
	if c.HexSeed != 0 {
		rng := rand.New(rand.NewPCG(c.HexSeed, 39))
		hexKeys = func() bool { return rng.IntN(3) == 0 }
	}
	root, _ := pdfgen.BuildNameTree(doc, entries, c.LeafMax, hexKeys)
	doc.SetKey(truth.Objs.Catalog, "Names", pdfgen.D(c.Doc, root))
	return pdfgen.MustWrite(doc, pdfgen.Options{}).Bytes, ref
}
