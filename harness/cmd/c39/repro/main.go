// Stand-alone reproductions of the C39 findings against the real pdfcpu code (no harness code involved).
// Run: . /verif/env.sh; cd /verif/harness; $GO125 run ./cmd/c39/repro [case ...]
package main

import (
	"fmt"
	"os"
	"path/filepath"
	"strings"

	"github.com/pdfcpu/pdfcpu/pkg/api"
	"github.com/pdfcpu/pdfcpu/pkg/pdfcpu"
	"github.com/pdfcpu/pdfcpu/pkg/pdfcpu/model"
	"github.com/pdfcpu/pdfcpu/pkg/pdfcpu/types"
)

var repo = func() string {
	if r := os.Getenv("VERIF_REPO"); r != "" {
		return r
	}
	return "/repo"
}()

var scratch string

func conf() *model.Configuration {
	c := model.NewDefaultConfiguration()
	c.Offline = true
	return c
}

func must(err error) {
	if err != nil {
		panic(err)
	}
}

func att(id string) model.Attachment {
	return model.Attachment{Reader: strings.NewReader("data of " + id), ID: id, FileName: id, Desc: "desc " + id}
}

func list(path string) []string {
	f, err := os.Open(path)
	must(err)
	defer f.Close()
	aa, err := api.Attachments(f, conf())
	must(err)
	var out []string
	for _, a := range aa {
		out = append(out, a.ID)
	}
	return out
}

// 3/6: add four attachments and remove the first two on ONE context (model.Context API only), write, list.
func rootRebind() {
	ctx, err := api.ReadContextFile(filepath.Join(repo, "pkg/testdata/test.pdf"))
	must(err)
	for _, id := range []string{"a", "b", "c", "d"} {
		must(ctx.AddAttachment(att(id), false))
	}
	ok, err := ctx.RemoveAttachments([]string{"a", "b"})
	fmt.Println("root-rebind: RemoveAttachments(a,b):", ok, err)
	aa, err := ctx.ListAttachments()
	must(err)
	fmt.Printf("root-rebind: in memory: %d attachments\n", len(aa))
	out := filepath.Join(scratch, "rebind.pdf")
	must(api.WriteContextFile(ctx, out))
	fmt.Printf("root-rebind: written file lists %q (want [c d])\n", list(out))
}

// 5: the file API only: add 4 attachments (two-level tree in the file), remove two of one leaf, extract the rest.
func removeLosesSiblings() {
	in := filepath.Join(repo, "pkg/testdata/test.pdf")
	var files []string
	for _, id := range []string{"a.txt", "b.txt", "c.txt", "d.txt"} {
		p := filepath.Join(scratch, id)
		must(os.WriteFile(p, []byte("data of "+id), 0o644))
		files = append(files, p)
	}
	f1 := filepath.Join(scratch, "with4.pdf")
	must(api.AddAttachmentsFile(in, f1, files, false, conf()))
	fmt.Printf("remove-loses-siblings: after add: %q\n", list(f1))
	f2 := filepath.Join(scratch, "with2.pdf")
	must(api.RemoveAttachmentsFile(f1, f2, []string{"a.txt", "b.txt"}, conf()))
	fmt.Printf("remove-loses-siblings: after removing a.txt b.txt: ")
	func() {
		defer func() {
			if r := recover(); r != nil {
				fmt.Println("list fails:", r)
			}
		}()
		fmt.Printf("%q\n", list(f2))
	}()
	outDir := filepath.Join(scratch, "out")
	must(os.MkdirAll(outDir, 0o755))
	err := api.ExtractAttachmentsFile(f2, outDir, nil, conf())
	ee, _ := os.ReadDir(outDir)
	var names []string
	for _, e := range ee {
		names = append(names, e.Name())
	}
	fmt.Printf("remove-loses-siblings: ExtractAttachmentsFile err=%v extracted=%q (want [c.txt d.txt])\n", err, names)
}

// 4: an attachment whose id contains a backslash cannot be found again after writing.
func backslash() {
	ctx, err := api.ReadContextFile(filepath.Join(repo, "pkg/testdata/test.pdf"))
	must(err)
	must(ctx.AddAttachment(att("x\\y"), false))
	out := filepath.Join(scratch, "bs.pdf")
	must(api.WriteContextFile(ctx, out))
	fmt.Printf("backslash: added id %q, written file lists %q\n", "x\\y", list(out))
	hl := types.NewHexLiteral([]byte("x\\y"))
	s, err := types.HexLiteralToString(hl)
	fmt.Printf("backslash: HexLiteralToString(%s) = %q, %v\n", hl, s, err)
}

// extra: Remove with the xref table on /Dests (what RemoveBookmarks does) and the pages the destinations point to.
func bookmarks() {
	in := filepath.Join(repo, "pkg/testdata/test.pdf")
	f1 := filepath.Join(scratch, "bm.pdf")
	bms := []pdfcpu.Bookmark{{PageFrom: 1, Title: "one"}, {PageFrom: 1, Title: "two"}}
	must(api.AddBookmarksFile(in, f1, bms, true, conf()))
	n1, err := api.PageCountFile(f1)
	fmt.Println("bookmarks: pages after AddBookmarks:", n1, err)
	f2 := filepath.Join(scratch, "nobm.pdf")
	err = api.RemoveBookmarksFile(f1, f2, conf())
	fmt.Println("bookmarks: RemoveBookmarksFile:", err)
	n2, err := api.PageCountFile(f2)
	fmt.Println("bookmarks: pages after RemoveBookmarks:", n2, err)
	fmt.Println("bookmarks: validate:", api.ValidateFile(f2, conf()))
}

// 7: a name tree whose only key is the empty string is dropped when the file is read.
func emptyKey() {
	ctx, err := api.ReadContextFile(filepath.Join(repo, "pkg/testdata/test.pdf"))
	must(err)
	must(ctx.AddAttachment(att(""), false))
	out := filepath.Join(scratch, "empty.pdf")
	must(api.WriteContextFile(ctx, out))
	fmt.Printf("empty-key: written file lists %q (want [\"\"])\n", list(out))
}

func try(name string, f func()) {
	defer func() {
		if r := recover(); r != nil {
			fmt.Printf("%-28s PANIC: %v\n", name, r)
		}
	}()
	f()
}

func leaf(keys ...string) *model.Node {
	n := &model.Node{}
	for _, k := range keys {
		n.AppendToNames(k, types.StringLiteral("v"+k))
	}
	n.Kmin, n.Kmax = keys[0], keys[len(keys)-1]
	return n
}

func inner(kids ...*model.Node) *model.Node {
	return &model.Node{Kids: kids, Kmin: kids[0].Kmin, Kmax: kids[len(kids)-1].Kmax}
}

// 1: Remove("") on an empty tree (what LocateNameTree(.., true) installs).
func emptyRemove() {
	n := &model.Node{}
	empty, ok, err := n.Remove(nil, "")
	fmt.Println("empty-remove: ", empty, ok, err)
}

// 2: single-kid chain collapses wrongly.
func chain() {
	root := inner(leaf("a"), inner(inner(leaf("b"), leaf("c", "d"))), leaf("e"))
	for _, k := range []string{"a", "e", "b"} {
		empty, ok, err := root.Remove(nil, k)
		fmt.Printf("chain: Remove(%q) = empty %v ok %v err %v; tree %s\n", k, empty, ok, err, root.String())
	}
	for _, k := range []string{"c", "d", "d"} {
		empty, ok, err := root.Remove(nil, k)
		fmt.Printf("chain: Remove(%q) = empty %v ok %v err %v; tree %s\n", k, empty, ok, err, root.String())
	}
}

func main() {
	api.DisableConfigDir()
	var err error
	must(os.MkdirAll("/verif/.cache", 0o755))
	scratch, err = os.MkdirTemp("/verif/.cache", "c39-repro-")
	must(err)
	defer os.RemoveAll(scratch)
	cases := map[string]func(){"empty-remove": emptyRemove, "chain": chain, "root-rebind": rootRebind,
		"remove-loses-siblings": removeLosesSiblings, "backslash": backslash, "empty-key": emptyKey, "bookmarks": bookmarks}
	args := os.Args[1:]
	if len(args) == 0 {
		args = []string{"empty-remove", "chain", "root-rebind", "remove-loses-siblings", "backslash", "empty-key"}
	}
	for _, a := range args {
		try(a, cases[a])
	}
}
