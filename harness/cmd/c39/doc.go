package main

import (
	"fmt"
	"math/rand/v2"
	"os"
	"path/filepath"
	"sort"
	"strconv"
	"strings"
	"time"

	"github.com/pdfcpu/pdfcpu/pkg/api"
	"github.com/pdfcpu/pdfcpu/pkg/pdfcpu/model"
	"github.com/pdfcpu/pdfcpu/pkg/pdfcpu/types"
	"verif/harness/internal/vk"
)

// Document layer: the tree lives in a real document (Root /Names /Dests or /EmbeddedFiles, installed with
// XRefTable.LocateNameTree(name, true) as pdfcpu's own commands do), is written with api.WriteContextFile
// (-> BindNameTrees), and read back twice: raw (objects only, own walk) and through pdfcpu's validation.
// The raw re-read (raw.go) uses harness/internal/pdfstrict and shares no code with pdfcpu.

func corpusFile() string { return filepath.Join(vk.RepoDir(), "pkg", "testdata", "test.pdf") }

var docPlain = []string{"a", "b", "c", "d", "e", "f", "g", "h", "i", "j", "k", "l", "m", "n", "o", "p", "q", "r",
	"chapter.1", "chapter.10", "chapter.2", "Doc-Start", "section*.3", "page.12", "A", "B", "a b", "a.b", "x_y", "fig:1", "0", "10", "9"}
var docUTF8 = []string{"ä", "Änderung", "•", "日本", "naïve", "Ω", "é"}
var docCtrl = []string{"a\x01", "a\x01\x01", "b\x01", "tab\tkey", "(", ")", "a(b", "a)b", "<41>", "#41", "%41", "a/b"}
var docBackslash = []string{"x\\y", "x\\\\y", "dir\\file", "x\\n", "trailing\\"}

func keyClass(k string) string {
	if strings.Contains(k, "\\") {
		return "backslash"
	}
	for i := 0; i < len(k); i++ {
		if k[i] >= 0x80 {
			return "utf8"
		}
	}
	for i := 0; i < len(k); i++ {
		if k[i] < 0x20 || strings.ContainsRune("()<>#%/", rune(k[i])) {
			return "special"
		}
	}
	return "plain"
}

var classRank = map[string]int{"plain": 0, "special": 1, "utf8": 2, "backslash": 3}

func worstClass(ref map[string]int) string {
	w := "plain"
	for k := range ref {
		if c := keyClass(k); classRank[c] > classRank[w] {
			w = c
		}
	}
	return w
}

func docUniverse(rng *rand.Rand, doc string) []string {
	u := append([]string(nil), docPlain...)
	if doc == "Dests" {
		switch rng.IntN(10) {
		case 0, 1:
			u = append(u, docUTF8...)
		case 2, 3:
			u = append(u, docCtrl...)
		case 4:
			u = append(u, docBackslash...)
		}
	}
	rng.Shuffle(len(u), func(i, j int) { u[i], u[j] = u[j], u[i] })
	n := 6 + rng.IntN(len(u)-5)
	u = u[:n]
	sort.Strings(u)
	return u
}

// destCodec: named destinations [page /XYZ id 0 null] (direct arrays).
type destCodec struct{ page types.IndirectRef }

func (c destCodec) make(_ string, id int) (types.Object, error) {
	return types.Array{c.page, types.Name("XYZ"), types.Integer(id), types.Integer(0), nil}, nil
}

func (c destCodec) id(o types.Object) (int, error) {
	a, ok := o.(types.Array)
	if !ok || len(a) != 5 {
		return 0, fmt.Errorf("unexpected destination %v (%T)", o, o)
	}
	i, ok := a[2].(types.Integer)
	if !ok {
		return 0, fmt.Errorf("unexpected destination %v", o)
	}
	return i.Value(), nil
}

// efCodec: embedded files: indirect reference to a file specification dictionary (pdfcpu's own constructor),
// identity in /Desc.
type efCodec struct{ ctx *model.Context }

var fixedTime = time.Date(2020, 1, 2, 3, 4, 5, 0, time.UTC)

func (c efCodec) make(key string, id int) (types.Object, error) {
	d, err := c.ctx.XRefTable.NewFileSpecDictForAttachment(model.Attachment{Reader: strings.NewReader("data" + strconv.Itoa(id)), ID: key, FileName: key, Desc: "id" + strconv.Itoa(id), ModTime: &fixedTime})
	if err != nil {
		return nil, err
	}
	ir, err := c.ctx.XRefTable.IndRefForNewObject(d)
	if err != nil {
		return nil, err
	}
	return *ir, nil
}

func (c efCodec) id(o types.Object) (int, error) {
	d, err := c.ctx.XRefTable.DereferenceDict(o)
	if err != nil || d == nil {
		return 0, fmt.Errorf("file spec %v: %v", o, err)
	}
	s, err := d.StringOrHexLiteralEntry("Desc")
	if err != nil || s == nil || !strings.HasPrefix(*s, "id") {
		return 0, fmt.Errorf("file spec %v: Desc %v %v", o, s, err)
	}
	return strconv.Atoi((*s)[2:])
}

func codecFor(ctx *model.Context, doc string) (valueCodec, *model.XRefTable, error) {
	if doc == "EmbeddedFiles" {
		return efCodec{ctx}, ctx.XRefTable, nil
	}
	_, ref, _, err := ctx.PageDict(1, false)
	if err != nil || ref == nil {
		return nil, nil, fmt.Errorf("page 1: %v", err)
	}
	return destCodec{*ref}, nil, nil
}

// docOpKey maps an operation-level failure inside a document to its key: pure tree-logic classes share the
// layer-1 key (same defect, same key); classes that involve the values / the xref table get a doc key.
func docOpKey(r *result, doc string) {
	if strings.Contains(r.Key, "value-mismatch") || strings.Contains(r.Key, "present-key-not-found") || strings.Contains(r.Key, "-error") {
		r.Key = "doc/" + strings.Replace(r.Key, "/start=foreign", "", 1) + "/tree=" + doc
		if r.start == "reread" || r.start == "generated" {
			r.Key += "/start=file" // nodes carry dictionaries read from a file: Remove(xRefTable, ..) deletes objects
		}
	}
}

// plainTwin renames all keys of a history to plain keys (k000, k001, ..) preserving their order: the name
// tree logic only depends on the order of keys, so the twin builds isomorphic trees. A failure that the twin
// reproduces does not depend on what the keys contain.
func plainTwin(c *seqCase) *seqCase {
	set := map[string]bool{}
	for _, k := range c.Universe {
		set[k] = true
	}
	for _, k := range c.Build {
		set[k] = true
	}
	for _, o := range c.Ops {
		set[o.K] = true
	}
	for _, o := range c.Ops2 {
		set[o.K] = true
	}
	all := make([]string, 0, len(set))
	for k := range set {
		all = append(all, k)
	}
	sort.Strings(all)
	m := map[string]string{}
	for i, k := range all {
		m[k] = fmt.Sprintf("k%03d", i)
	}
	p := *c
	p.Universe, p.Build, p.Ops, p.Ops2 = nil, nil, nil, nil
	for _, k := range c.Universe {
		p.Universe = append(p.Universe, m[k])
	}
	for _, k := range c.Build {
		p.Build = append(p.Build, m[k])
	}
	for _, o := range c.Ops {
		p.Ops = append(p.Ops, op{Kind: o.Kind, K: m[o.K], ID: o.ID})
	}
	for _, o := range c.Ops2 {
		p.Ops2 = append(p.Ops2, op{Kind: o.Kind, K: m[o.K], ID: o.ID})
	}
	return &p
}

// runDoc is layer 2. Failures of the written document are keyed doc/written/<class>/tree=<T> (of reading a
// generated document: doc/generated/<class>/tree=<T>); when the
// history needs non-plain keys to fail (its order-preserving plain twin passes) the key class is appended and all
// differences seen through pdfcpu's re-read are folded into one class.
func runDoc(c *seqCase, o obs, scratch string, idx int) *result {
	r := runDocOnce(c, o, scratch, idx)
	if r == nil || !strings.HasPrefix(r.Key, "doc/written/") && !strings.HasPrefix(r.Key, "doc/generated/") {
		return r
	}
	kc := r.keyClass
	if kc != "plain" {
		if r2 := runDocOnce(plainTwin(c), obs{}, scratch, idx); r2 != nil && r2.Key == r.Key {
			kc = "plain"
		}
	}
	if kc != "plain" {
		if strings.HasPrefix(r.Key, "doc/written/reread") || strings.HasPrefix(r.Key, "doc/generated/") {
			// what pdfcpu reads differs from what the file holds, and only for keys of this class: one key per
			// class, whoever wrote the file
			r.Key = "doc/written/reread-differs/tree=" + c.Doc
		}
		r.Key += "/keyclass=" + kc
	}
	return r
}

func runDocOnce(c *seqCase, o obs, scratch string, idx int) *result {
	tag := "/tree=" + c.Doc
	open := func(path string) (*model.Context, error) {
		f, err := os.Open(path)
		if err != nil {
			return nil, err
		}
		defer f.Close()
		cf := model.NewDefaultConfiguration()
		cf.Offline = true
		return api.ReadAndValidate(f, cf)
	}
	path := filepath.Join(scratch, fmt.Sprintf("c39-%d.pdf", idx))
	defer os.Remove(path)
	var s *treeState
	var ctx *model.Context
	if c.Start == "generated" {
		data, ref := generatedDoc(c)
		if err := os.WriteFile(path, data, 0o644); err != nil {
			return &result{Key: "harness/scratch", What: err.Error(), OpIndex: -1}
		}
		var err error
		if ctx, err = open(path); err != nil {
			return &result{Key: "doc/generated/read-error" + tag, What: fmt.Sprintf("pdfcpu cannot read the generated document (leaf max %d, %d keys): %v", c.LeafMax, len(ref), err), OpIndex: -1, keyClass: worstClass(ref)}
		}
		root := ctx.Names[c.Doc]
		if root == nil {
			return &result{Key: "doc/generated/tree-missing" + tag, What: fmt.Sprintf("ctx.Names[%q] is nil after reading a generated tree of %d keys", c.Doc, len(ref)), OpIndex: -1, keyClass: worstClass(ref)}
		}
		vc, xrt, err := codecFor(ctx, c.Doc)
		if err != nil {
			return &result{Key: "harness/codec", What: err.Error(), OpIndex: -1}
		}
		s = &treeState{root: root, ref: ref, vc: vc, xrt: xrt, start: c.Start, o: o}
		if f := checkTree(root, ref, vc, absentProbes(ref, c.Universe), &s.sh); f != nil {
			return &result{Key: "doc/generated/read/" + f.Class + tag, What: "tree read from the generated document: " + f.What, OpIndex: -1, keyClass: worstClass(ref)}
		}
		o["doc_generated_trees_read"]++
		o["doc_generated_max_depth"] = max(o["doc_generated_max_depth"], int64(s.sh.depth))
		if s.sh.depth >= 2 {
			o["doc_generated_multilevel"]++
		}
	} else {
		var err error
		if ctx, err = open(corpusFile()); err != nil {
			return &result{Key: "harness/corpus-read", What: err.Error(), OpIndex: -1}
		}
		if err := ctx.LocateNameTree(c.Doc, true); err != nil {
			return &result{Key: "doc/locate-error" + tag, What: err.Error(), OpIndex: -1}
		}
		vc, xrt, err := codecFor(ctx, c.Doc)
		if err != nil {
			return &result{Key: "harness/codec", What: err.Error(), OpIndex: -1}
		}
		s = &treeState{root: ctx.Names[c.Doc], ref: map[string]int{}, vc: vc, xrt: xrt, start: c.Start, o: o}
		if r := s.runOps(buildOps(c.Build), c.Universe, true, 0, ""); r != nil {
			docOpKey(r, c.Doc)
			return r
		}
	}
	if r := s.runOps(c.Ops, c.Universe, false, len(c.Build), ""); r != nil {
		docOpKey(r, c.Doc)
		return r
	}
	ref := s.ref
	for round := 1; round <= 2; round++ {
		if len(ref) == 0 {
			o["doc_write_skipped_tree_empty"]++
			return nil
		}
		kc := worstClass(ref)
		fail := func(class, what string) *result {
			return &result{Key: "doc/written/" + class + tag, What: fmt.Sprintf("round %d: %s", round, what), OpIndex: -1, keyClass: kc}
		}
		if err := writeCtx(ctx, path); err != nil {
			return fail("write-error", fmt.Sprintf("WriteContextFile: %v", err))
		}
		o["doc_writes"]++
		if f := rawCheck(path, c.Doc, ref); f != nil {
			class := f.Class
			switch class {
			case "raw-node-has-kids-and-names", "raw-keys-differ-from-map", "raw-limits-mismatch", "raw-keys-not-sorted", "raw-value-mismatch", "raw-tree-missing", "raw-read-error":
			default:
				// unreadable values, empty kids, missing limits, ...: one class "the written tree is structurally broken"
				class = "raw-structure-broken"
			}
			return fail(class, "raw re-read ("+f.Class+"): "+f.What)
		}
		o["doc_raw_rereads"]++
		ctx2, err := open(path)
		if err != nil {
			return fail("reread-error", fmt.Sprintf("pdfcpu cannot read back what it wrote: %v", err))
		}
		root2 := ctx2.Names[c.Doc]
		if root2 == nil {
			return fail("reread-tree-missing", fmt.Sprintf("ctx.Names[%q] is nil after re-reading a tree of %d keys", c.Doc, len(ref)))
		}
		vc2, xrt2, err := codecFor(ctx2, c.Doc)
		if err != nil {
			return &result{Key: "harness/codec", What: err.Error(), OpIndex: -1}
		}
		s2 := &treeState{root: root2, ref: ref, vc: vc2, xrt: xrt2, start: "reread", o: o}
		if f := checkTree(root2, ref, vc2, absentProbes(ref, c.Universe), &s2.sh); f != nil {
			return fail("reread/"+f.Class, "re-read through pdfcpu: "+f.What)
		}
		o["doc_pdfcpu_rereads"]++
		o["doc_keyclass_"+kc+"_roundtrips"]++
		if s2.sh.depth >= 2 {
			o["doc_multilevel_trees_reread"]++
		}
		if round == 2 {
			break
		}
		// continue editing the tree that was read from the document
		if r := s2.runOps(c.Ops2, c.Universe, false, len(c.Build)+len(c.Ops), ""); r != nil {
			docOpKey(r, c.Doc)
			return r
		}
		ctx = ctx2
	}
	return nil
}

func writeCtx(ctx *model.Context, path string) (err error) {
	defer func() {
		if r := recover(); r != nil {
			err = fmt.Errorf("panic: %v (%s)", r, pdfcpuFrame())
		}
	}()
	return api.WriteContextFile(ctx, path)
}
