package main

import (
	"fmt"
	"reflect"
	"runtime/debug"
	"sort"
	"strings"

	"github.com/pdfcpu/pdfcpu/pkg/pdfcpu/model"
	"github.com/pdfcpu/pdfcpu/pkg/pdfcpu/types"
)

// leafKeys reads the keys of n.Names (slice of an unexported struct {k string; v Object}) by reflection,
// independently of pdfcpu's own traversal (Process / KeyList).
func leafKeys(n *model.Node) []string {
	v := reflect.ValueOf(n).Elem().FieldByName("Names")
	out := make([]string, v.Len())
	for i := range out {
		out[i] = v.Index(i).Field(0).String()
	}
	return out
}

// failure is the first broken invariant found.
type failure struct {
	Class string // invariant class (part of the violation key)
	What  string
}

func failf(class, format string, a ...any) *failure {
	return &failure{Class: class, What: fmt.Sprintf(format, a...)}
}

type shape struct {
	nodes, leaves, depth, maxLeaf, maxFan int
}

// walk checks the structural invariants below n and returns the in-order keys.
func walk(n *model.Node, depth int, isRoot bool, sh *shape) ([]string, *failure) {
	sh.nodes++
	if depth > sh.depth {
		sh.depth = depth
	}
	if depth > 64 {
		return nil, failf("too-deep", "tree deeper than 64 levels")
	}
	own := leafKeys(n)
	var keys []string
	if len(n.Kids) > 0 {
		if len(own) > 0 {
			return nil, failf("intermediate-has-names", "node {%q,%q} has %d kids and %d names %q", n.Kmin, n.Kmax, len(n.Kids), len(own), own)
		}
		if len(n.Kids) > sh.maxFan {
			sh.maxFan = len(n.Kids)
		}
		for i, kid := range n.Kids {
			if kid == nil {
				return nil, failf("nil-kid", "node {%q,%q} kid %d is nil", n.Kmin, n.Kmax, i)
			}
			kk, f := walk(kid, depth+1, false, sh)
			if f != nil {
				return nil, f
			}
			if len(kk) == 0 {
				return nil, failf("empty-subtree", "node {%q,%q} kid %d holds no keys", n.Kmin, n.Kmax, i)
			}
			keys = append(keys, kk...)
		}
	} else {
		sh.leaves++
		if len(own) > sh.maxLeaf {
			sh.maxLeaf = len(own)
		}
		keys = own
	}
	if len(keys) > 0 {
		lo, hi := keys[0], keys[0]
		for _, k := range keys {
			if k < lo {
				lo = k
			}
			if k > hi {
				hi = k
			}
		}
		if n.Kmin != lo || n.Kmax != hi {
			which := "node"
			if isRoot {
				which = "root"
			}
			return nil, failf("limits-mismatch", "%s limits {%q,%q} but the keys below it span {%q,%q} (keys %q)", which, n.Kmin, n.Kmax, lo, hi, keys)
		}
	}
	return keys, nil
}

// valueCodec makes values for a tree kind and reads back their identity.
type valueCodec interface {
	make(key string, id int) (types.Object, error)
	id(o types.Object) (int, error)
}

// checkTree compares the tree with the reference map (key -> value id) after an operation.
func checkTree(root *model.Node, ref map[string]int, vc valueCodec, probes []string, sh *shape) *failure {
	keys, f := walk(root, 0, true, sh)
	if f != nil {
		return f
	}
	for i := 1; i < len(keys); i++ {
		if keys[i-1] == keys[i] {
			return failf("duplicate-key", "key %q occurs twice (in-order keys %q)", keys[i], keys)
		}
		if keys[i-1] > keys[i] {
			return failf("keys-not-sorted", "in-order keys not ascending at %q > %q (keys %q)", keys[i-1], keys[i], keys)
		}
	}
	want := make([]string, 0, len(ref))
	for k := range ref {
		want = append(want, k)
	}
	sort.Strings(want)
	if !eqStrings(keys, want) {
		return failf("keys-differ-from-map", "tree holds %q, reference map %q", keys, want)
	}
	// pdfcpu's own traversal: Process order and KeyList
	var procKeys []string
	var procIDs []int
	var procErr error
	if err := root.Process(nil, func(_ *model.XRefTable, k string, v *types.Object) error {
		procKeys = append(procKeys, k)
		id, err := vc.id(*v)
		if err != nil && procErr == nil {
			procErr = fmt.Errorf("key %q: %v", k, err)
		}
		procIDs = append(procIDs, id)
		return nil
	}); err != nil {
		return failf("process-error", "Process: %v", err)
	}
	if !eqStrings(procKeys, want) {
		return failf("process-order-mismatch", "Process visits %q, reference map %q", procKeys, want)
	}
	if procErr != nil {
		return failf("value-mismatch", "Process: %v", procErr)
	}
	for i, k := range procKeys {
		if procIDs[i] != ref[k] {
			return failf("value-mismatch", "Process: key %q carries value id %d, reference %d", k, procIDs[i], ref[k])
		}
	}
	kl, err := root.KeyList()
	if err != nil {
		return failf("keylist-error", "KeyList: %v", err)
	}
	if len(kl) != len(want) {
		return failf("keylist-mismatch", "KeyList has %d entries, reference map %d: %q", len(kl), len(want), kl)
	}
	for i, k := range want {
		v, _ := root.Value(k)
		if kl[i] != fmt.Sprintf("%s %v", k, v) {
			// KeyList entries are "key value"; compare the key part when the value lookup itself failed (reported below)
			if !strings.HasPrefix(kl[i], k+" ") {
				return failf("keylist-mismatch", "KeyList[%d] = %q, want key %q", i, kl[i], k)
			}
		}
	}
	for _, k := range want {
		v, ok := root.Value(k)
		if !ok {
			return failf("present-key-not-found", "Value(%q) not found; tree %s", k, root.String())
		}
		id, err := vc.id(v)
		if err != nil {
			return failf("value-mismatch", "Value(%q): %v", k, err)
		}
		if id != ref[k] {
			return failf("value-mismatch", "Value(%q) has id %d, reference %d", k, id, ref[k])
		}
	}
	for _, k := range probes {
		if _, in := ref[k]; in {
			continue
		}
		if v, ok := root.Value(k); ok {
			return failf("absent-key-found", "Value(%q) = %v although the key is not in the tree (keys %q)", k, v, want)
		}
	}
	return nil
}

// absentProbes derives lookup probes around the present keys.
func absentProbes(ref map[string]int, universe []string) []string {
	set := map[string]bool{"": true}
	var lo, hi string
	first := true
	n := 0
	for k := range ref {
		if first || k < lo {
			lo = k
		}
		if first || k > hi {
			hi = k
		}
		first = false
		if n < 16 {
			set[k+"\x00"] = true
			set[k+"0"] = true
			if len(k) > 0 {
				set[k[:len(k)-1]] = true
				b := []byte(k)
				if b[len(b)-1] > 0 {
					b[len(b)-1]--
					set[string(b)+"\xff"] = true
				}
			}
		}
		n++
	}
	if !first {
		set[hi+"~"] = true
		set[hi+"\xff"] = true
		if len(lo) > 0 {
			set[lo[:len(lo)-1]] = true
		}
	}
	for _, k := range universe {
		set[k] = true
	}
	out := make([]string, 0, len(set))
	for k := range set {
		if _, in := ref[k]; !in {
			out = append(out, k)
		}
	}
	sort.Strings(out)
	return out
}

func eqStrings(a, b []string) bool {
	if len(a) != len(b) {
		return false
	}
	for i := range a {
		if a[i] != b[i] {
			return false
		}
	}
	return true
}

// pdfcpuFrame extracts the innermost pdfcpu function from a panic stack.
func pdfcpuFrame() string {
	for _, ln := range strings.Split(string(debug.Stack()), "\n") {
		if strings.HasPrefix(ln, "github.com/pdfcpu/pdfcpu/") {
			fn := strings.TrimPrefix(ln, "github.com/pdfcpu/pdfcpu/pkg/")
			if i := strings.LastIndex(fn, "("); i > 0 {
				fn = fn[:i]
			}
			return fn
		}
	}
	return "unknown"
}
