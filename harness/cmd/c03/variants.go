//go:build verifshadow

package main

import (
	"encoding/json"
	"fmt"
	"hash/fnv"
	"math/rand/v2"
	"os"
	"path/filepath"
	"sort"

	"github.com/pdfcpu/pdfcpu/pkg/api"
	"github.com/pdfcpu/pdfcpu/pkg/pdfcpu/model"
	"verif/harness/internal/opcat"
	"verif/harness/internal/opwl"
	"verif/harness/internal/vk"
)

// variant replaces the generic fixtures (multi.pdf, one.pdf) of an operation by another document (thorough tier).
type variant struct {
	Name    string            `json:"name"`
	Desc    string            `json:"desc"`
	Subs    map[string]string `json:"subs"` // fixture name -> file (inside the fixture directory) used instead
	UserPW  string            `json:"upw,omitempty"`
	OwnerPW string            `json:"opw,omitempty"`
	// Rand: the operation's parameters are drawn from a PRNG seeded with (Seed, operation name): the reference
	// run and the run under the relation draw the same parameters.
	Rand bool   `json:"rand,omitempty"`
	Seed uint64 `json:"seed,omitempty"`
}

// rng returns the parameter PRNG of an operation (nil: the catalogue's fixed parameters).
func (v *variant) rng(op opcat.Op) *rand.Rand {
	if v == nil || !v.Rand {
		return nil
	}
	h := fnv.New64a()
	h.Write([]byte(op.Name))
	return rand.New(rand.NewPCG(v.Seed, h.Sum64()))
}

// source is the file of the fixture directory that plays fixture n (nil receiver: the fixture itself).
func (v *variant) source(n string) string {
	if v != nil {
		if s, ok := v.Subs[n]; ok {
			return s
		}
	}
	return n
}

// fits: the operation reads one of the substituted fixtures.
func (v *variant) fits(op opcat.Op) bool {
	if v.Rand {
		return true
	}
	if _, ok := v.Subs[op.Input]; ok && op.Input != "" {
		return true
	}
	if op.Input == "" {
		for _, e := range op.Extra {
			if _, ok := v.Subs[e]; ok {
				return true
			}
		}
	}
	return false
}

// conf is the configuration of a call on this variant (the passwords of an encrypted input).
func (v *variant) conf() *model.Configuration {
	c := opcat.DefaultConf()
	c.UserPW, c.OwnerPW = v.UserPW, v.OwnerPW
	return c
}

func copyTo(src, dst string) error {
	b, err := os.ReadFile(src)
	if err != nil {
		return err
	}
	return os.WriteFile(dst, b, 0o644)
}

// buildVariants prepares the fixtures (through the opwl pool builder, which also draws corpus files and builds
// pdfgen documents from the seed) and derives the input variants into the fixture directory.
func buildVariants(t *vk.T, fx string) []variant {
	pool := opwl.BuildPool(t, opwl.PoolOptions{Corpus: 80, Gen: 36, MaxBytes: 4 << 20})
	if pool.Fx != fx {
		t.Broken("fixture directory %s, expected %s", pool.Fx, fx)
	}
	var vars []variant
	// 1. encrypted input, password in the configuration
	encOne := filepath.Join(fx, "v-enc-one.pdf")
	ec := model.NewAESConfiguration(opcat.UserPW, opcat.OwnerPW, 256)
	ec.Offline = true
	if err := api.EncryptFile(filepath.Join(fx, opcat.FxOne), encOne, ec); err != nil {
		t.Broken("variant enc: %v", err)
	}
	vars = append(vars, variant{Name: "enc", Desc: "AES-256 encrypted (enc.pdf / encrypted one.pdf), user and owner password in the configuration",
		Subs: map[string]string{opcat.FxMulti: opcat.FxEnc, opcat.FxOne: "v-enc-one.pdf"}, UserPW: opcat.UserPW, OwnerPW: opcat.OwnerPW})
	// 2.-5. documents of the pool
	taken := map[string]bool{}
	pick := func(name, desc string, want func(opwl.Input) bool, order func(a, b opwl.Input) bool) {
		var c []opwl.Input
		for _, in := range pool.Inputs {
			if in.Pages >= opcat.PagesMulti && in.Enc == "" && !taken[in.Name] && want(in) {
				c = append(c, in)
			}
		}
		if len(c) == 0 {
			t.Count("variant_unavailable/"+name, 1)
			return
		}
		if order != nil {
			sort.SliceStable(c, func(i, j int) bool { return order(c[i], c[j]) })
			if len(c) > 3 {
				c = c[:3]
			}
		}
		in := c[int(uint64(t.Seed)%uint64(len(c)))]
		taken[in.Name] = true
		file := "v-" + name + ".pdf"
		if err := copyTo(in.Path, filepath.Join(fx, file)); err != nil {
			t.Broken("variant %s: %v", name, err)
		}
		fi, _ := os.Stat(in.Path)
		vars = append(vars, variant{Name: name, Desc: fmt.Sprintf("%s: %s (%d pages, %d bytes)", desc, in.Name, in.Pages, fi.Size()),
			Subs: map[string]string{opcat.FxMulti: file, opcat.FxOne: file}})
	}
	gen := func(tags ...string) func(opwl.Input) bool {
		return func(in opwl.Input) bool {
			if in.Kind != "pdfgen" {
				return false
			}
			for _, k := range tags {
				neg := k[0] == '!'
				if neg {
					k = k[1:]
				}
				if in.Tags[k] == neg {
					return false
				}
			}
			return true
		}
	}
	pick("classic", "pdfgen document with a classic cross-reference table and incremental updates", gen("updates", "!xrefstream", "!hybrid", "!sig"), nil)
	pick("xrefstm", "pdfgen document with a cross-reference stream and object streams", gen("xrefstream", "objstm", "!sig"), nil)
	pick("inherit", "pdfgen document with inherited page attributes (Resources, MediaBox, Rotate, CropBox on Pages nodes)", gen("inherit", "!sig"), nil)
	pick("corpus", "one of the three largest corpus documents of the seed's draw", func(in opwl.Input) bool { return in.Kind == "corpus" },
		func(a, b opwl.Input) bool {
			fa, _ := os.Stat(a.Path)
			fb, _ := os.Stat(b.Path)
			return fa.Size() > fb.Size()
		})
	// 6. the catalogue's fixtures with parameters drawn from the seed
	vars = append(vars, variant{Name: "rnd", Desc: "the catalogue's fixtures, operation parameters (page selections, descriptions, modes) drawn from the seed", Rand: true, Seed: uint64(t.Seed)})
	b, _ := json.MarshalIndent(vars, "", " ")
	if err := os.WriteFile(filepath.Join(fx, "variants.json"), b, 0o644); err != nil {
		t.Broken("variants: %v", err)
	}
	var descs []string
	for _, v := range vars {
		descs = append(descs, v.Name+": "+v.Desc)
	}
	t.Extra("input_variants", descs)
	return vars
}

func loadVariants(t *vk.T, fx string) []variant {
	b, err := os.ReadFile(filepath.Join(fx, "variants.json"))
	if err != nil {
		t.Broken("variants: %v", err)
	}
	var vars []variant
	if err := json.Unmarshal(b, &vars); err != nil {
		t.Broken("variants: %v", err)
	}
	return vars
}
