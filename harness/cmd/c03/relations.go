//go:build verifshadow

package main

import (
	"os"
	"path/filepath"
	"sort"
	"strings"

	"verif/harness/internal/fsx"
	"verif/harness/internal/opcat"
)

type relation struct {
	name  string
	alias bool // output names the same file as the input
	mode  os.FileMode
	// ---- thorough tier
	thorough     bool   // thorough tier only
	variants     bool   // also run with every input variant (thorough)
	existing     bool   // the destination pre-exists (relations whose name does not start with "existing")
	inplace      bool   // Out == "": only for operations that allow it
	dir          bool   // relation of the multi-output operations (output DIRECTORY)
	renamesInput bool   // the input file gets another name
	umask        string // "" = 022
	extraAlias   int    // n > 0: the output names the n-th PDF among the extra inputs of an operation without primary input
}

// long names: 206 + len(".pdf") = 210 bytes; the staging sibling ".<name>.tmp-<16 hex>" stays below NAME_MAX (255)
var longStem = strings.Repeat("o", 206)

const oddStem = "out put – résumé 日本 №1"

var relations = []relation{
	{name: "new", variants: true},
	{name: "existing-0600", mode: 0o600},
	{name: "existing-0640", mode: 0o640, variants: true},
	// permission bits a creation mode would lose to the usual umask 022 (only fchmod keeps them)
	{name: "existing-0664", mode: 0o664},
	{name: "existing-0666", mode: 0o666},
	{name: "existing-0755", mode: 0o755},
	{name: "inplace-empty-out", alias: true, inplace: true, variants: true},
	{name: "inplace-mode-0600", alias: true, inplace: true, mode: 0o600},
	{name: "same-string", alias: true, variants: true},
	{name: "dot-slash", alias: true, variants: true},
	{name: "abs-vs-rel", alias: true, variants: true},
	{name: "symlink-to-input", alias: true, variants: true},
	{name: "hardlink-to-input", alias: true, variants: true},
	{name: "symlinked-dir", alias: true, variants: true},

	// ---------------- thorough: a new or replaced output that is NOT the input
	{name: "dotdot-new", thorough: true},
	{name: "rel-dotdot-new", thorough: true},
	{name: "new-in-symlinked-indir", thorough: true},
	{name: "name-odd-new", thorough: true},
	{name: "name-long-new", thorough: true},
	{name: "existing-0400", mode: 0o400, thorough: true},
	{name: "existing-0444", mode: 0o444, thorough: true},
	{name: "existing-0664-umask077", mode: 0o664, umask: "077", thorough: true},
	{name: "existing-0644-umask077", mode: 0o644, umask: "077", thorough: true},
	{name: "existing-0600-umask000", mode: 0o600, umask: "000", thorough: true},
	{name: "existing-setgid-2664", mode: 0o664 | os.ModeSetgid, thorough: true},
	{name: "existing-sticky-1644", mode: 0o644 | os.ModeSticky, thorough: true},
	{name: "existing-name-odd", mode: 0o640, thorough: true},
	{name: "existing-name-long", mode: 0o604, thorough: true},
	{name: "out-symlink-chain", existing: true, thorough: true, variants: true},
	{name: "out-symlink-relative-target", existing: true, thorough: true},
	{name: "out-dangling-symlink", existing: true, thorough: true},
	{name: "out-hardlink-unrelated", existing: true, thorough: true, variants: true},
	// ---------------- thorough: the output names the input
	{name: "dotdot-alias", alias: true, thorough: true, variants: true},
	{name: "double-slash", alias: true, thorough: true, variants: true},
	{name: "rel-dotdot-alias", alias: true, thorough: true, variants: true},
	{name: "symlink-chain-to-input", alias: true, thorough: true, variants: true},
	{name: "symlink-relative-to-input", alias: true, thorough: true, variants: true},
	{name: "input-via-symlink", alias: true, thorough: true, variants: true},
	{name: "input-via-symlink-inplace", alias: true, inplace: true, thorough: true, variants: true},
	{name: "hardlink-in-subdir", alias: true, thorough: true, variants: true},
	{name: "name-odd-inplace", alias: true, inplace: true, renamesInput: true, thorough: true, variants: true},
	{name: "name-odd-same-string", alias: true, renamesInput: true, thorough: true},
	{name: "name-long-inplace", alias: true, inplace: true, renamesInput: true, thorough: true, variants: true},
	{name: "inplace-mode-0444", alias: true, inplace: true, mode: 0o444, thorough: true, variants: true},
	{name: "inplace-mode-0664-umask077", alias: true, inplace: true, mode: 0o664, umask: "077", thorough: true},
	{name: "inplace-setgid-2660", alias: true, inplace: true, mode: 0o660 | os.ModeSetgid, thorough: true},
	{name: "out-is-first-input", alias: true, extraAlias: 1, thorough: true, variants: true},
	{name: "out-is-second-input", alias: true, extraAlias: 2, thorough: true, variants: true},
	// ---------------- thorough: output directories of the multi-output operations
	{name: "outdir-trailing-slash", dir: true, thorough: true},
	{name: "outdir-prepopulated", dir: true, thorough: true, variants: true},
	{name: "outdir-prepopulated-umask077", dir: true, umask: "077", thorough: true},
	{name: "outdir-symlink", dir: true, thorough: true},
	{name: "outdir-dotdot", dir: true, thorough: true},
	{name: "outdir-rel-dotdot", dir: true, thorough: true},
	{name: "outdir-is-indir", dir: true, thorough: true},
	{name: "outdir-name-odd", dir: true, thorough: true},
}

// plan is a relation applied to one sandbox.
type plan struct {
	dest     string                 // path (as named) that must hold the single output ("" for multi-output operations)
	outReal  string                 // multi-output: slash path (relative to the sandbox) of the real directory receiving the outputs
	allowed  map[string]bool        // relative paths that may change or appear besides the destination itself
	cwd      string                 // working directory of the call
	umask    int                    // -1: the default 022
	statMode bool                   // judge the permission bits through os.Stat(dest) before/after (follows links)
	inReal   string                 // relative path of the real input file
	prepop   map[string]os.FileMode // multi-output: pre-created output files (relative paths) and their modes
	skip     string                 // the relation cannot be built here
}

func ext(op opcat.Op) string { return filepath.Ext(op.OutName) }

// existingFile creates a destination that is not the input: a PDF for PDF outputs, a text file otherwise.
func existingFile(fx string, op opcat.Op, path string, mode os.FileMode) bool {
	if strings.HasSuffix(op.OutName, ".pdf") {
		cp(filepath.Join(fx, opcat.FxOne), path, 0o600)
	} else {
		os.WriteFile(path, []byte("OLD\n"), 0o600)
	}
	if os.Chmod(path, mode) != nil {
		return false
	}
	fi, err := os.Stat(path)
	const bits = os.ModePerm | os.ModeSetuid | os.ModeSetgid | os.ModeSticky
	return err == nil && fi.Mode()&bits == mode&bits
}

// build applies relation r to the sandbox root prepared by setup (c.In names the copy of the input).
func build(fx, root string, op opcat.Op, r relation, c *opcat.Call, refTree fsx.Tree) plan {
	p := plan{allowed: map[string]bool{}, umask: -1, inReal: op.Input, statMode: r.thorough}
	switch r.umask {
	case "077":
		p.umask = 0o077
	case "000":
		p.umask = 0
	}
	join := func(el ...string) string { return filepath.Join(append([]string{root}, el...)...) }
	sub := func() { os.MkdirAll(join("sub"), 0o755) }
	switch r.name {
	// ------------------------------------------------------------------ quick tier (both tiers)
	case "new":
		if op.Kind == opcat.DirOut {
			c.Out = join("outdir")
			os.MkdirAll(c.Out, 0o755)
			p.outReal = "outdir"
		} else {
			c.Out = join(op.OutName)
			p.dest = c.Out
		}
	case "existing-0600", "existing-0640", "existing-0664", "existing-0666", "existing-0755":
		c.Out = join(op.OutName)
		if strings.HasSuffix(op.OutName, ".pdf") {
			cp(filepath.Join(fx, opcat.FxOne), c.Out, r.mode)
		} else {
			os.WriteFile(c.Out, []byte("OLD\n"), 0o600)
			os.Chmod(c.Out, r.mode)
		}
		p.dest = c.Out
	case "inplace-empty-out":
		c.Out, p.dest = "", c.In
	case "inplace-mode-0600":
		os.Chmod(c.In, 0o600)
		c.Out, p.dest = "", c.In
	case "same-string":
		c.Out, p.dest = c.In, c.In
	case "dot-slash":
		p.cwd = root
		c.In = op.Input
		c.Out = "./" + op.Input
		p.dest = join(op.Input)
	case "abs-vs-rel":
		p.cwd = root
		c.Out = op.Input
		p.dest = c.In
	case "symlink-to-input":
		c.Out = join("link.pdf")
		os.Symlink(op.Input, c.Out)
		p.dest = c.Out
	case "hardlink-to-input":
		c.Out = join("hard.pdf")
		os.Link(c.In, c.Out)
		p.dest = c.Out
	case "symlinked-dir":
		os.Symlink(".", join("d"))
		c.Out = join("d", op.Input)
		p.dest = c.Out
		p.allowed[op.Input] = true

	// ------------------------------------------------------------------ thorough: output is not the input
	case "dotdot-new":
		sub()
		c.Out = root + "/sub/../" + op.OutName
		p.dest = join(op.OutName)
	case "rel-dotdot-new":
		sub()
		p.cwd = join("sub")
		if op.Input != "" {
			c.In = "../" + op.Input
		}
		c.Out = "../sub/../" + op.OutName
		p.dest = join(op.OutName)
	case "new-in-symlinked-indir":
		os.Symlink(".", join("d"))
		c.Out = join("d", op.OutName)
		p.dest = c.Out
		p.allowed[op.OutName] = true
	case "name-odd-new":
		c.Out = join(oddStem + ext(op))
		p.dest = c.Out
	case "name-long-new":
		c.Out = join(longStem + ext(op))
		p.dest = c.Out
	case "existing-0400", "existing-0444", "existing-0664-umask077", "existing-0644-umask077", "existing-0600-umask000",
		"existing-setgid-2664", "existing-sticky-1644":
		c.Out = join(op.OutName)
		if !existingFile(fx, op, c.Out, r.mode) {
			p.skip = "mode-bits-not-kept-by-filesystem"
		}
		p.dest = c.Out
	case "existing-name-odd":
		c.Out = join(oddStem + ext(op))
		existingFile(fx, op, c.Out, r.mode)
		p.dest = c.Out
	case "existing-name-long":
		c.Out = join(longStem + ext(op))
		existingFile(fx, op, c.Out, r.mode)
		p.dest = c.Out
	case "out-symlink-chain":
		os.MkdirAll(join("t"), 0o755)
		existingFile(fx, op, join("t", "real"+ext(op)), 0o640)
		os.Symlink("t/real"+ext(op), join("l2"+ext(op)))
		os.Symlink("l2"+ext(op), join("l1"+ext(op)))
		c.Out = join("l1" + ext(op))
		p.dest = c.Out
		p.allowed["t/real"+ext(op)], p.allowed["l2"+ext(op)] = true, true
	case "out-symlink-relative-target":
		sub()
		os.MkdirAll(join("t"), 0o755)
		existingFile(fx, op, join("t", "real"+ext(op)), 0o604)
		os.Symlink("../t/real"+ext(op), join("sub", "link"+ext(op)))
		c.Out = join("sub", "link"+ext(op))
		p.dest = c.Out
		p.allowed["t/real"+ext(op)] = true
	case "out-dangling-symlink":
		os.Symlink("nowhere"+ext(op), join("dangling"+ext(op)))
		c.Out = join("dangling" + ext(op))
		p.dest = c.Out
		p.allowed["nowhere"+ext(op)] = true
	case "out-hardlink-unrelated":
		existingFile(fx, op, join("unrelated.dat"), 0o640)
		c.Out = join(op.OutName)
		os.Link(join("unrelated.dat"), c.Out)
		p.dest = c.Out

	// ------------------------------------------------------------------ thorough: the output names the input
	case "dotdot-alias":
		sub()
		c.Out = root + "/sub/../" + op.Input
		p.dest = c.In
	case "double-slash":
		c.Out = root + "//" + op.Input
		p.dest = c.In
	case "rel-dotdot-alias":
		sub()
		p.cwd = join("sub")
		c.Out = "../sub/../" + op.Input
		p.dest = c.In
	case "symlink-chain-to-input":
		os.Symlink(op.Input, join("l2.pdf"))
		os.Symlink("l2.pdf", join("l1.pdf"))
		c.Out = join("l1.pdf")
		p.dest = c.Out
		p.allowed["l2.pdf"] = true
	case "symlink-relative-to-input":
		sub()
		os.Symlink("../"+op.Input, join("sub", "link.pdf"))
		c.Out = join("sub", "link.pdf")
		p.dest = c.Out
	case "input-via-symlink":
		os.Symlink(op.Input, join("in-link.pdf"))
		c.Out = c.In
		p.dest = c.In
		c.In = join("in-link.pdf")
		p.allowed["in-link.pdf"] = true
	case "input-via-symlink-inplace":
		os.Symlink(op.Input, join("in-link.pdf"))
		c.In = join("in-link.pdf")
		c.Out = ""
		p.dest = c.In
	case "hardlink-in-subdir":
		sub()
		c.Out = join("sub", "hard.pdf")
		os.Link(c.In, c.Out)
		p.dest = c.Out
	case "name-odd-inplace", "name-odd-same-string", "name-long-inplace":
		stem := oddStem
		if r.name == "name-long-inplace" {
			stem = longStem
		}
		p.inReal = stem + ".pdf"
		if os.Rename(c.In, join(p.inReal)) != nil {
			p.skip = "rename-failed"
		}
		c.In = join(p.inReal)
		c.Out, p.dest = "", c.In
		if r.name == "name-odd-same-string" {
			c.Out = c.In
		}
	case "inplace-mode-0444", "inplace-mode-0664-umask077", "inplace-setgid-2660":
		os.Chmod(c.In, r.mode)
		const bits = os.ModePerm | os.ModeSetuid | os.ModeSetgid | os.ModeSticky
		if fi, err := os.Stat(c.In); err != nil || fi.Mode()&bits != r.mode&bits {
			p.skip = "mode-bits-not-kept-by-filesystem"
		}
		c.Out, p.dest = "", c.In

	case "out-is-first-input", "out-is-second-input":
		p.inReal = pdfExtras(op)[r.extraAlias-1]
		c.Out = join(p.inReal)
		p.dest = c.Out

	// ------------------------------------------------------------------ thorough: output directories
	case "outdir-trailing-slash":
		os.MkdirAll(join("outdir"), 0o755)
		c.Out = join("outdir") + "/"
		p.outReal = "outdir"
	case "outdir-prepopulated", "outdir-prepopulated-umask077":
		os.MkdirAll(join("outdir"), 0o755)
		c.Out = join("outdir")
		p.outReal = "outdir"
		p.prepop = map[string]os.FileMode{}
		var outs []string
		for q, e := range refTree {
			if strings.HasPrefix(q, "outdir/") && e.Mode.IsRegular() {
				outs = append(outs, q)
			}
		}
		sort.Strings(outs)
		modes := []os.FileMode{0o600, 0o664, 0o640, 0o444, 0o666}
		for i, q := range outs {
			full := join(filepath.FromSlash(q))
			os.MkdirAll(filepath.Dir(full), 0o755)
			os.WriteFile(full, []byte("OLD CONTENT OF "+q+"\n"), 0o600)
			os.Chmod(full, modes[i%len(modes)])
			p.prepop[q] = modes[i%len(modes)]
		}
		// files the operation has no business with
		os.WriteFile(join("outdir", "keep me.txt"), []byte("unrelated\n"), 0o600)
		cp(filepath.Join(fx, opcat.FxOne), join("outdir", "zz-unrelated.pdf"), 0o640)
		os.WriteFile(join("outdir", ".hidden"), []byte("unrelated\n"), 0o644)
	case "outdir-symlink":
		os.MkdirAll(join("outdir"), 0o755)
		os.Symlink("outdir", join("outlink"))
		c.Out = join("outlink")
		p.outReal = "outdir"
	case "outdir-dotdot":
		sub()
		os.MkdirAll(join("outdir"), 0o755)
		c.Out = root + "/sub/../outdir"
		p.outReal = "outdir"
	case "outdir-rel-dotdot":
		sub()
		os.MkdirAll(join("outdir"), 0o755)
		p.cwd = join("sub")
		if op.Input != "" {
			c.In = "../" + op.Input
		}
		c.Out = "../outdir"
		p.outReal = "outdir"
	case "outdir-is-indir":
		c.Out = root
		p.outReal = "."
	case "outdir-name-odd":
		os.MkdirAll(join(oddStem), 0o755)
		c.Out = join(oddStem)
		p.outReal = oddStem
	default:
		p.skip = "unknown-relation"
	}
	return p
}
