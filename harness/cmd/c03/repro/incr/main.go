package main

import (
	"fmt"
	"os"
	"path/filepath"

	"github.com/pdfcpu/pdfcpu/pkg/api"
	"github.com/pdfcpu/pdfcpu/pkg/pdfcpu/model"
)

func main() {
	api.DisableConfigDir()
	src := os.Args[1]
	d, _ := os.MkdirTemp("/verif/.cache/run", "c03dbg")
	defer os.RemoveAll(d)
	b, _ := os.ReadFile(src)
	run := func(name, in, out string) {
		os.WriteFile(filepath.Join(d, "in.pdf"), b, 0o644)
		os.Chdir(d)
		conf := model.NewDefaultConfiguration()
		err := api.RemoveAnnotationsFile(in, out, nil, []string{"Text"}, nil, conf, true)
		o := out
		if o == "" {
			o = in
		}
		fi, _ := os.Stat(o)
		fmt.Printf("%-10s err=%v size=%d (input %d)\n", name, err, fi.Size(), len(b))
		os.Remove("out.pdf")
	}
	run("fresh", "in.pdf", "out.pdf")
	run("inplace", "in.pdf", "")
	run("same", "in.pdf", "in.pdf")
	run("dotslash", "in.pdf", "./in.pdf")
}
