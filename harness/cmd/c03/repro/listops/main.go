package main

import (
	"fmt"
	"verif/harness/internal/opcat"
)

func main() {
	for _, o := range opcat.All() {
		fmt.Printf("%-40s kind=%d in=%-12s inplace=%-5v out=%-10s app=%v extra=%v\n", o.Name, o.Kind, o.Input, o.InPlace, o.OutName, o.AppendsToOut, o.Extra)
	}
}
