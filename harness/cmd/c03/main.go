//go:build verifshadow

// C03 — successful operations publish exactly and only the result.
// For every catalogued operation × input/output path relation: a reference run onto a fresh path,
// then the run under the relation; the destination must hold the complete output, keep the
// permission bits of an existing destination, leave distinct inputs unchanged and leave no staging
// entries; the filesystem trace must never show the input being opened for writing / truncated
// through any alias (that is what corrupts data still being read).
//
// The thorough tier (relations.go, variants.go) adds path relations (.. segments, symlink chains, relative
// symlink targets, hard link to an unrelated file, odd and long names, read-only / umask-sensitive /
// special-bit modes, pre-populated output directories of the multi-output operations) and input variants
// (encrypted with the password in the configuration, classic cross-reference table with incremental updates,
// cross-reference stream + object streams, inherited page attributes, a larger corpus document).
package main

import (
	"fmt"
	"os"
	"path/filepath"
	"sort"
	"strings"
	"syscall"

	"github.com/pdfcpu/pdfcpu/pkg/api"
	"verif/harness/internal/fsx"
	"verif/harness/internal/opcat"
	"verif/harness/internal/osmon"
	"verif/harness/internal/pdfcmp"
	"verif/harness/internal/vk"
)

// existingMeansSomethingElse: operations whose contract for an EXISTING output is not "replace it":
// ImportImagesFile appends pages to an existing PDF (the /append variant drives that on purpose);
// pdfcpu.Write / CopyFile with overwrite=false leave an existing destination alone and return (false, nil).
func existingMeansSomethingElse(name string) bool {
	switch name {
	case "ImportImagesFile/new", "ImportImagesFile/config", "pdfcpu.CopyFile/new", "pdfcpu.Write/new":
		return true
	}
	return false
}

func applies(op opcat.Op, r relation) bool {
	if (strings.HasPrefix(r.name, "existing") || r.existing) && existingMeansSomethingElse(op.Name) {
		return false
	}
	if op.Kind == opcat.DirOut {
		return r.name == "new" || r.dir
	}
	if r.dir {
		return false
	}
	if op.AppendsToOut {
		// the merged document gets a bookmark titled after the destination file: the output depends on the destination's
		// NAME, so the odd / long names have no reference run to be compared with
		return strings.HasPrefix(r.name, "existing") && !strings.HasPrefix(r.name, "existing-name-")
	}
	if r.extraAlias != 0 {
		// the output names one of the PDF inputs of an operation without a primary input (merge)
		px := pdfExtras(op)
		return op.Input == "" && strings.HasSuffix(op.OutName, ".pdf") && len(px) >= r.extraAlias
	}
	if r.alias {
		if op.Input == "" {
			return false
		}
		if r.renamesInput && contains(op.Extra, op.Input) {
			return false
		}
		if r.inplace {
			return op.InPlace
		}
		// explicit output naming the input: only meaningful when the output is a PDF like the input
		return strings.HasSuffix(op.OutName, ".pdf")
	}
	return true
}

// group is one operation with one input variant and the relations it is run under (one reference run serves all).
type group struct {
	op   opcat.Op
	v    *variant // nil: the catalogue's fixtures
	rels []relation
}

func groups(thorough bool, vars []variant) []group {
	var gs []group
	for _, op := range opcat.All() {
		g := group{op: op}
		for _, r := range relations {
			if (thorough || !r.thorough) && applies(op, r) {
				g.rels = append(g.rels, r)
			}
		}
		if len(g.rels) > 0 {
			gs = append(gs, g)
		}
		if !thorough {
			continue
		}
		for i := range vars {
			if !vars[i].fits(op) {
				continue
			}
			g := group{op: op, v: &vars[i]}
			for _, r := range relations {
				if r.variants && applies(op, r) {
					g.rels = append(g.rels, r)
				}
			}
			if len(g.rels) > 0 {
				gs = append(gs, g)
			}
		}
	}
	return gs
}

func countItems(gs []group) (n int) {
	for _, g := range gs {
		n += len(g.rels)
	}
	return
}

func main() {
	vk.Run("C03", "exploration", func(t *vk.T) {
		api.DisableConfigDir()
		syscall.Umask(0o022) // the usual umask, set explicitly: mode preservation must not depend on the caller's
		if !t.IsShard() {
			t.Rule("case = (operation, input/output path relation[, input variant]); each case runs the real API call under the relation with the filesystem interposer tracing and is compared with a reference run of the same call onto a fresh path; non-trivial = every case whose run succeeded (outputs compared, modes compared, trace checked); distinct by (op, relation, input variant)")
			t.Assume("output equivalence between two runs: both validate with pdfcpu, same page count, byte-equal after masking /ID and dates or sizes within 256 bytes when object streams/encryption make bytes run-dependent (an independent structural comparison is the subject of C18/C19)")
			t.Assume("hard link / symlink to the input: the named output must hold the complete result and the data read must never be corrupted; the input's other name may hold old or new bytes (the property text does not prescribe it)")
			fx := filepath.Join(t.Scratch(), "fx")
			var vars []variant
			if t.Quick() {
				os.MkdirAll(fx, 0o755)
				if err := opcat.Prepare(vk.RepoDir(), fx); err != nil {
					t.Broken("fixtures: %v", err)
				}
			} else {
				vars = buildVariants(t, fx) // prepares the fixtures too
				t.Assume("output named through symbolic links: the named path must read back as the complete result with the permission bits it showed before; whether the link or its target is replaced is not prescribed. Hard link to an unrelated file: the other name keeps its bytes (only the result is published). setuid/setgid/sticky bits of a replaced destination are counted, not judged (the property text speaks of permission bits)")
			}
			gs := groups(!t.Quick(), vars)
			t.Extra("op_relations", countItems(gs))
			t.Extra("op_groups", len(gs))
			t.RunShards(16, "VERIF_FX="+fx)
			if t.Counter("successful_runs_checked") == 0 {
				t.Broken("nothing observed")
			}
			if !t.Quick() {
				for _, r := range relations {
					if r.thorough && t.Counter("relation_succeeded/"+r.name)+t.Counter("relation_refused/"+r.name) == 0 {
						t.Broken("relation %s was never exercised", r.name)
					}
				}
			}
			return
		}
		fx := os.Getenv("VERIF_FX")
		var vars []variant
		if !t.Quick() {
			vars = loadVariants(t, fx)
		}
		si, sn := t.Shard()
		for gi, g := range groups(!t.Quick(), vars) {
			if gi%sn == si {
				runGroup(t, fx, g)
			}
		}
	})
}

func cp(src, dst string, mode os.FileMode) {
	b, err := os.ReadFile(src)
	if err != nil {
		panic(err)
	}
	os.WriteFile(dst, b, 0o600)
	os.Chmod(dst, mode)
}

func setup(fx, root string, op opcat.Op, v *variant) *opcat.Call {
	os.RemoveAll(root)
	os.MkdirAll(root, 0o755)
	c := &opcat.Call{Dir: root}
	if v != nil {
		c.Conf = v.conf
		c.Rng = v.rng(op)
	}
	for _, n := range op.Extra {
		cp(filepath.Join(fx, v.source(n)), filepath.Join(root, n), 0o644)
	}
	if op.Input != "" {
		cp(filepath.Join(fx, v.source(op.Input)), filepath.Join(root, op.Input), 0o644)
		c.In = filepath.Join(root, op.Input)
	}
	return c
}

func run(op opcat.Op, c *opcat.Call) (err error, pv any) {
	defer func() {
		if r := recover(); r != nil {
			pv = r
		}
	}()
	return op.Run(c), nil
}

func inoOf(p string) (uint64, uint64, bool) {
	var st syscall.Stat_t
	if syscall.Stat(p, &st) != nil {
		return 0, 0, false
	}
	return uint64(st.Dev), st.Ino, true
}

// reference is the result of the reference run of a group.
type reference struct {
	root string
	tree fsx.Tree
}

func runGroup(t *vk.T, fx string, g group) {
	op := g.op
	// reference run onto a fresh path
	refRoot := filepath.Join(t.Scratch(), "ref")
	rc := setup(fx, refRoot, op, g.v)
	if op.Kind == opcat.DirOut {
		rc.Out = filepath.Join(refRoot, "outdir")
		os.MkdirAll(rc.Out, 0o755)
	} else {
		rc.Out = filepath.Join(refRoot, op.OutName)
		if op.AppendsToOut {
			cp(filepath.Join(fx, opcat.FxOne), rc.Out, 0o644)
		}
	}
	if err, pv := run(op, rc); err != nil || pv != nil {
		if g.v != nil {
			// the operation does not take this input (needs bookmarks, attachments, a clear document, ...): no case
			t.Count("variant_not_accepted/"+g.v.Name, 1)
			if pv != nil {
				t.Count("pdfcpu_panics", 1)
			}
			return
		}
		for range g.rels {
			t.Inconclusive(fmt.Sprintf("reference-run-failed/%s: %v %v", op.Name, err, pv))
		}
		return
	}
	refTree, _ := fsx.Snapshot(refRoot, false)
	if g.v != nil {
		// an operation whose output for this input does not validate even on a fresh path has an output-quality
		// problem (properties C18/C21), not a publication problem: there is no complete output to compare with
		var outs []string
		for q, e := range refTree {
			if e.Mode.IsRegular() && strings.HasSuffix(q, ".pdf") && (q == op.OutName || strings.HasPrefix(q, "outdir/")) {
				outs = append(outs, q)
			}
		}
		sort.Strings(outs)
		for _, q := range outs {
			if _, err := pdfcmp.Validate(filepath.Join(refRoot, q)); err != nil {
				t.Count("variant_reference_output_invalid/"+g.v.Name, 1)
				t.Count("reference_output_invalid_for_some_variant/op="+op.Name, 1)
				return
			}
		}
	}
	ref := &reference{root: refRoot, tree: refTree}
	for _, r := range g.rels {
		runItem(t, fx, g, r, ref)
	}
}

func runItem(t *vk.T, fx string, g group, r relation, ref *reference) {
	op := g.op
	name := op.Name + "/" + r.name
	base := "op=" + op.Name + "/rel=" + r.name
	if g.v != nil {
		name += "/in=" + g.v.Name
		base = "op=" + op.Name + "/in=" + g.v.Name + "/rel=" + r.name
	}
	refRoot, refTree := ref.root, ref.tree

	root := filepath.Join(t.Scratch(), "sb")
	c := setup(fx, root, op, g.v)
	p := build(fx, root, op, r, c, refTree)
	if p.skip != "" {
		t.Count("relation_not_buildable/"+r.name+"/"+p.skip, 1)
		return
	}
	dest := p.dest // path (as named) that must hold the result
	back := ""
	if p.cwd != "" {
		back, _ = os.Getwd()
		os.Chdir(p.cwd)
		defer os.Chdir(back)
	}
	inPath := ""
	if p.inReal != "" {
		inPath = filepath.Join(root, filepath.FromSlash(p.inReal))
	}
	before, _ := fsx.Snapshot(root, false)
	var inDev, inIno uint64
	var inSize int64
	var inBytes []byte
	haveIno, appended := false, false
	if inPath != "" {
		inDev, inIno, haveIno = inoOf(inPath)
		inBytes, _ = os.ReadFile(inPath)
		inSize = int64(len(inBytes))
	}
	var oldFi os.FileInfo
	if p.statMode && dest != "" {
		oldFi, _ = os.Stat(dest)
	}
	m := &osmon.Mon{Scope: root, Record: true}
	var badOpen []string
	m.Before = func(seq int64, e *osmon.Event) {
		if !haveIno {
			return
		}
		// what corrupts data still being read: truncating the input, or overwriting bytes of it
		// (an incremental update legitimately APPENDS to its input: writes at offsets >= the original size)
		trunc := (e.Op == "openfile" && e.Flag&os.O_TRUNC != 0) || e.Op == "truncate" || e.Op == "ftruncate"
		over := (e.Op == "write" || e.Op == "writeat") && e.Pos >= 0 && e.Pos < inSize
		if trunc || over || ((e.Op == "write" || e.Op == "writeat") && e.Pos >= inSize) {
			if d, i, ok := inoOf(e.Path); ok && d == inDev && i == inIno {
				rel, _ := filepath.Rel(root, e.Path)
				if trunc || over {
					badOpen = append(badOpen, fmt.Sprintf("call %d: %s %s flag=%#x pos=%d (input size %d)", seq, e.Op, rel, e.Flag, e.Pos, inSize))
				} else {
					appended = true
				}
			}
		}
	}
	var rerr error
	var pv any
	if p.umask >= 0 {
		syscall.Umask(p.umask)
	}
	m.Run(func() { rerr, pv = run(op, c) })
	syscall.Umask(0o022)
	if back != "" {
		os.Chdir(back)
	}
	repl := map[string]any{"op": op.Name, "relation": r.name}
	if g.v != nil {
		repl["input"] = g.v.Name
	}
	if pv != nil {
		t.Inconclusive(fmt.Sprintf("run-panicked/%s: %v", name, pv))
		return
	}
	if rerr != nil {
		// a relation may legitimately be refused (e.g. image-input booklet onto its own input); a refusal must change nothing
		after, _ := fsx.Snapshot(root, false)
		if ch := fsx.Diff(before, after); len(ch) > 0 {
			t.Violate(base+"/class=refused-but-changed", fmt.Sprintf("%s returned %q and changed the tree: %v", name, rerr, ch), repl)
		}
		t.Count("refused_runs", 1)
		if r.thorough {
			t.Count("relation_refused/"+r.name, 1)
		}
		t.Eval("")
		return
	}
	t.Count("successful_runs_checked", 1)
	t.Count("fs_calls_traced", m.Calls())
	if r.thorough {
		t.Count("relation_succeeded/"+r.name, 1)
	}
	if g.v != nil {
		t.Count("variant_runs_checked/"+g.v.Name, 1)
	}
	t.Eval(name)
	after, _ := fsx.Snapshot(root, false)
	viol := func(class, what string) {
		rc := map[string]any{"what": what}
		for k, v := range repl {
			rc[k] = v
		}
		t.Violate(base+"/class="+class, name+": "+what, rc)
	}
	if len(badOpen) > 0 {
		viol("input-overwritten", "the input file was truncated or overwritten in place while being the operation's input: "+strings.Join(badOpen, "; "))
	}
	// 1. destination complete
	if op.Kind == opcat.DirOut {
		var outs []string
		for q, e := range refTree {
			if strings.HasPrefix(q, "outdir/") && e.Mode.IsRegular() {
				outs = append(outs, q)
			}
		}
		sort.Strings(outs)
		for _, q := range outs {
			got := filepath.Join(root, filepath.FromSlash(p.outReal), filepath.FromSlash(q[len("outdir/"):]))
			if ok, why := pdfcmp.SameOutput(filepath.Join(refRoot, q), got, 256); !ok {
				viol("output-incomplete", q+": "+why)
			}
		}
		// pre-populated output directory: a replaced file keeps the permission bits it had
		var pre []string
		for q := range p.prepop {
			pre = append(pre, q)
		}
		sort.Strings(pre)
		for _, q := range pre {
			fi, err := os.Stat(filepath.Join(root, filepath.FromSlash(q)))
			if err != nil {
				viol("output-incomplete", q+": pre-existing output is gone: "+err.Error())
				continue
			}
			t.Count("prepopulated_outputs_checked", 1)
			if fi.Mode().Perm() != p.prepop[q] {
				viol("mode-changed", fmt.Sprintf("%s: destination mode %v, before %v", filepath.Base(q), fi.Mode().Perm(), p.prepop[q]))
			}
		}
	} else if appended {
		// incremental update written in place: the original bytes must be a prefix of the result, which must validate
		t.Count("incremental_appends_seen", 1)
		got, _ := os.ReadFile(dest)
		if len(got) <= len(inBytes) || string(got[:len(inBytes)]) != string(inBytes) {
			viol("incremental-not-prefix-preserving", fmt.Sprintf("in-place incremental update: result (%d bytes) does not extend the original %d bytes", len(got), len(inBytes)))
		}
		gp, gerr := pdfcmp.Validate(dest)
		rp, _ := pdfcmp.Validate(filepath.Join(refRoot, op.OutName))
		if gerr != nil || gp != rp {
			viol("output-incomplete", fmt.Sprintf("incrementally updated file: validate err=%v pages=%d (reference %d)", gerr, gp, rp))
		}
	} else {
		if ok, why := pdfcmp.SameOutputMasking(filepath.Join(refRoot, op.OutName), dest, 256, refRoot, root); !ok {
			viol("output-incomplete", why)
		}
	}
	// 2. permission bits of an existing destination
	if dest != "" && p.statMode {
		if oldFi != nil {
			if fi, err := os.Stat(dest); err == nil {
				if fi.Mode().Perm() != oldFi.Mode().Perm() {
					viol("mode-changed", fmt.Sprintf("destination mode %v, before %v", fi.Mode().Perm(), oldFi.Mode().Perm()))
				}
				const special = os.ModeSetuid | os.ModeSetgid | os.ModeSticky
				if ob := oldFi.Mode() & special; ob != 0 {
					if fi.Mode()&special == ob {
						t.Count("special_mode_bits_kept", 1)
					} else {
						t.Count("special_mode_bits_dropped", 1)
					}
				}
			}
		}
	} else if dest != "" {
		rel, _ := filepath.Rel(root, dest)
		rel = filepath.ToSlash(rel)
		if r.name == "symlinked-dir" {
			rel = op.Input
		}
		if old, ok := before[rel]; ok && old.Mode.IsRegular() {
			if fi, err := os.Stat(dest); err == nil && fi.Mode().Perm() != old.Mode.Perm() {
				viol("mode-changed", fmt.Sprintf("destination mode %v, before %v", fi.Mode().Perm(), old.Mode.Perm()))
			}
		}
	}
	// 3. nothing else changed, no staging entries
	destRel := ""
	if dest != "" {
		destRel, _ = filepath.Rel(root, dest)
		destRel = filepath.ToSlash(destRel)
	}
	inOutDir := func(q string) bool {
		if op.Kind != opcat.DirOut {
			return false
		}
		if p.outReal == "." {
			return !strings.Contains(q, "/")
		}
		return strings.HasPrefix(q, p.outReal+"/")
	}
	for _, ch := range fsx.Diff(before, after) {
		q := ch.Path
		_, pre := p.prepop[q]
		switch {
		case q == destRel || p.allowed[q]:
		case r.alias && q == p.inReal:
			// other name of the input: old or new bytes are both accepted (see assumptions)
		case inOutDir(q) && ch.Kind == "added" && !fsx.IsStaging(filepath.Base(q)):
		case pre && (ch.Kind == "content" || ch.Kind == "mode"):
			// a pre-existing output was replaced (its mode is judged above)
		case ch.Kind == "added" && fsx.IsStaging(filepath.Base(q)):
			viol("staging-left", ch.String())
		case ch.Kind == "added":
			if _, inRef := refTree[q]; inRef {
				continue
			}
			viol("unexpected-file", ch.String())
		default:
			if q == p.inReal || contains(op.Extra, q) {
				viol("input-changed", ch.String())
			} else {
				viol("other-path-changed", ch.String())
			}
		}
	}
	s := map[string]any{"op": op.Name, "relation": r.name, "fs_calls": m.Calls(), "dest": destRel}
	if g.v != nil {
		s["input"] = g.v.Name
	}
	t.Sample(s)
}

// pdfExtras lists the distinct PDF fixtures among an operation's extra inputs.
func pdfExtras(op opcat.Op) []string {
	var out []string
	for _, e := range op.Extra {
		if strings.HasSuffix(e, ".pdf") && !contains(out, e) {
			out = append(out, e)
		}
	}
	return out
}

func contains(l []string, s string) bool {
	for _, x := range l {
		if x == s {
			return true
		}
	}
	return false
}
