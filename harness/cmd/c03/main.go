//go:build verifshadow

// C03 — successful operations publish exactly and only the result.
// For every catalogued operation × input/output path relation: a reference run onto a fresh path,
// then the run under the relation; the destination must hold the complete output, keep the
// permission bits of an existing destination, leave distinct inputs unchanged and leave no staging
// entries; the filesystem trace must never show the input being opened for writing / truncated
// through any alias (that is what corrupts data still being read).
package main

import (
	"fmt"
	"os"
	"path/filepath"
	"strings"
	"syscall"

	"github.com/pdfcpu/pdfcpu/pkg/api"
	"verif/harness/internal/fsx"
	"verif/harness/internal/opcat"
	"verif/harness/internal/osmon"
	"verif/harness/internal/pdfcmp"
	"verif/harness/internal/vk"
)

type relation struct {
	name  string
	alias bool // output names the same file as the input
	mode  os.FileMode
}

var relations = []relation{
	{name: "new"},
	{name: "existing-0600", mode: 0o600},
	{name: "existing-0640", mode: 0o640},
	// permission bits a creation mode would lose to the usual umask 022 (only fchmod keeps them)
	{name: "existing-0664", mode: 0o664},
	{name: "existing-0666", mode: 0o666},
	{name: "existing-0755", mode: 0o755},
	{name: "inplace-empty-out", alias: true},
	{name: "inplace-mode-0600", alias: true, mode: 0o600},
	{name: "same-string", alias: true},
	{name: "dot-slash", alias: true},
	{name: "abs-vs-rel", alias: true},
	{name: "symlink-to-input", alias: true},
	{name: "hardlink-to-input", alias: true},
	{name: "symlinked-dir", alias: true},
}

// existingMeansSomethingElse: operations whose contract for an EXISTING output is not "replace it":
// ImportImagesFile appends pages to an existing PDF (the /append variant drives that on purpose);
// pdfcpu.Write / CopyFile with overwrite=false leave an existing destination alone and return (false, nil).
func existingMeansSomethingElse(name string) bool {
	switch name {
	case "ImportImagesFile/new", "ImportImagesFile/config", "pdfcpu.CopyFile/new", "pdfcpu.Write/new":
		return true
	}
	return false
}

func applies(op opcat.Op, r relation) bool {
	if strings.HasPrefix(r.name, "existing") && existingMeansSomethingElse(op.Name) {
		return false
	}
	if op.Kind == opcat.DirOut {
		return r.name == "new"
	}
	if op.AppendsToOut {
		return strings.HasPrefix(r.name, "existing")
	}
	if r.alias {
		if op.Input == "" {
			return false
		}
		if r.name == "inplace-empty-out" || r.name == "inplace-mode-0600" {
			return op.InPlace
		}
		// explicit output naming the input: only meaningful when the output is a PDF like the input
		return strings.HasSuffix(op.OutName, ".pdf")
	}
	return true
}

type item struct {
	op opcat.Op
	r  relation
}

func items() []item {
	var its []item
	for _, op := range opcat.All() {
		for _, r := range relations {
			if applies(op, r) {
				its = append(its, item{op, r})
			}
		}
	}
	return its
}

func main() {
	vk.Run("C03", "exploration", func(t *vk.T) {
		api.DisableConfigDir()
		syscall.Umask(0o022) // the usual umask, set explicitly: mode preservation must not depend on the caller's
		if !t.IsShard() {
			t.Rule("case = (operation, input/output path relation); each case runs the real API call twice (reference run onto a fresh path, run under the relation) with the filesystem interposer tracing; non-trivial = every case whose run succeeded (outputs compared, modes compared, trace checked); distinct by (op, relation)")
			t.Assume("output equivalence between two runs: both validate with pdfcpu, same page count, byte-equal after masking /ID and dates or sizes within 256 bytes when object streams/encryption make bytes run-dependent (an independent structural comparison is the subject of C18/C19)")
			t.Assume("hard link / symlink to the input: the named output must hold the complete result and the data read must never be corrupted; the input's other name may hold old or new bytes (the property text does not prescribe it)")
			fx := filepath.Join(t.Scratch(), "fx")
			os.MkdirAll(fx, 0o755)
			if err := opcat.Prepare(vk.RepoDir(), fx); err != nil {
				t.Broken("fixtures: %v", err)
			}
			t.Extra("op_relations", len(items()))
			t.RunShards(16, "VERIF_FX="+fx)
			if t.Counter("successful_runs_checked") == 0 {
				t.Broken("nothing observed")
			}
			return
		}
		fx := os.Getenv("VERIF_FX")
		si, sn := t.Shard()
		for idx, it := range items() {
			if idx%sn == si {
				runItem(t, fx, it)
			}
		}
	})
}

func cp(src, dst string, mode os.FileMode) {
	b, err := os.ReadFile(src)
	if err != nil {
		panic(err)
	}
	os.WriteFile(dst, b, 0o600)
	os.Chmod(dst, mode)
}

func setup(fx, root string, op opcat.Op) *opcat.Call {
	os.RemoveAll(root)
	os.MkdirAll(root, 0o755)
	c := &opcat.Call{Dir: root}
	for _, n := range op.Extra {
		cp(filepath.Join(fx, n), filepath.Join(root, n), 0o644)
	}
	if op.Input != "" {
		cp(filepath.Join(fx, op.Input), filepath.Join(root, op.Input), 0o644)
		c.In = filepath.Join(root, op.Input)
	}
	return c
}

func run(op opcat.Op, c *opcat.Call) (err error, pv any) {
	defer func() {
		if r := recover(); r != nil {
			pv = r
		}
	}()
	return op.Run(c), nil
}

func inoOf(p string) (uint64, uint64, bool) {
	var st syscall.Stat_t
	if syscall.Stat(p, &st) != nil {
		return 0, 0, false
	}
	return uint64(st.Dev), st.Ino, true
}

func runItem(t *vk.T, fx string, it item) {
	op, r := it.op, it.r
	name := op.Name + "/" + r.name
	base := "op=" + op.Name + "/rel=" + r.name
	// reference run onto a fresh path
	refRoot := filepath.Join(t.Scratch(), "ref")
	rc := setup(fx, refRoot, op)
	if op.Kind == opcat.DirOut {
		rc.Out = filepath.Join(refRoot, "outdir")
		os.MkdirAll(rc.Out, 0o755)
	} else {
		rc.Out = filepath.Join(refRoot, op.OutName)
		if op.AppendsToOut {
			cp(filepath.Join(fx, opcat.FxOne), rc.Out, 0o644)
		}
	}
	if err, pv := run(op, rc); err != nil || pv != nil {
		t.Inconclusive(fmt.Sprintf("reference-run-failed/%s: %v %v", op.Name, err, pv))
		return
	}
	refTree, _ := fsx.Snapshot(refRoot, false)

	root := filepath.Join(t.Scratch(), "sb")
	c := setup(fx, root, op)
	dest := "" // path (as named) that must hold the result
	var restoreCwd string
	switch r.name {
	case "new":
		if op.Kind == opcat.DirOut {
			c.Out = filepath.Join(root, "outdir")
			os.MkdirAll(c.Out, 0o755)
		} else {
			c.Out = filepath.Join(root, op.OutName)
			dest = c.Out
		}
	case "existing-0600", "existing-0640", "existing-0664", "existing-0666", "existing-0755":
		c.Out = filepath.Join(root, op.OutName)
		if strings.HasSuffix(op.OutName, ".pdf") {
			cp(filepath.Join(fx, opcat.FxOne), c.Out, r.mode)
		} else {
			os.WriteFile(c.Out, []byte("OLD\n"), 0o600)
			os.Chmod(c.Out, r.mode)
		}
		dest = c.Out
	case "inplace-empty-out":
		c.Out, dest = "", c.In
	case "inplace-mode-0600":
		os.Chmod(c.In, 0o600)
		c.Out, dest = "", c.In
	case "same-string":
		c.Out, dest = c.In, c.In
	case "dot-slash":
		restoreCwd, _ = os.Getwd()
		os.Chdir(root)
		c.In = op.Input
		c.Out = "./" + op.Input
		dest = filepath.Join(root, op.Input)
	case "abs-vs-rel":
		restoreCwd, _ = os.Getwd()
		os.Chdir(root)
		c.Out = op.Input
		dest = c.In
	case "symlink-to-input":
		c.Out = filepath.Join(root, "link.pdf")
		os.Symlink(op.Input, c.Out)
		dest = c.Out
	case "hardlink-to-input":
		c.Out = filepath.Join(root, "hard.pdf")
		os.Link(c.In, c.Out)
		dest = c.Out
	case "symlinked-dir":
		os.Symlink(".", filepath.Join(root, "d"))
		c.Out = filepath.Join(root, "d", op.Input)
		dest = c.Out
	}
	if restoreCwd != "" {
		defer os.Chdir(restoreCwd)
	}
	before, _ := fsx.Snapshot(root, false)
	var inDev, inIno uint64
	var inSize int64
	var inBytes []byte
	haveIno, appended := false, false
	if op.Input != "" {
		inDev, inIno, haveIno = inoOf(filepath.Join(root, op.Input))
		inBytes, _ = os.ReadFile(filepath.Join(root, op.Input))
		inSize = int64(len(inBytes))
	}
	m := &osmon.Mon{Scope: root, Record: true}
	var badOpen []string
	m.Before = func(seq int64, e *osmon.Event) {
		if !haveIno {
			return
		}
		// what corrupts data still being read: truncating the input, or overwriting bytes of it
		// (an incremental update legitimately APPENDS to its input: writes at offsets >= the original size)
		trunc := (e.Op == "openfile" && e.Flag&os.O_TRUNC != 0) || e.Op == "truncate" || e.Op == "ftruncate"
		over := (e.Op == "write" || e.Op == "writeat") && e.Pos >= 0 && e.Pos < inSize
		if trunc || over || ((e.Op == "write" || e.Op == "writeat") && e.Pos >= inSize) {
			if d, i, ok := inoOf(e.Path); ok && d == inDev && i == inIno {
				rel, _ := filepath.Rel(root, e.Path)
				if trunc || over {
					badOpen = append(badOpen, fmt.Sprintf("call %d: %s %s flag=%#x pos=%d (input size %d)", seq, e.Op, rel, e.Flag, e.Pos, inSize))
				} else {
					appended = true
				}
			}
		}
	}
	var rerr error
	var pv any
	m.Run(func() { rerr, pv = run(op, c) })
	if restoreCwd != "" {
		os.Chdir(restoreCwd)
	}
	if pv != nil {
		t.Inconclusive(fmt.Sprintf("run-panicked/%s: %v", name, pv))
		return
	}
	if rerr != nil {
		// a relation may legitimately be refused (e.g. image-input booklet onto its own input); a refusal must change nothing
		after, _ := fsx.Snapshot(root, false)
		if ch := fsx.Diff(before, after); len(ch) > 0 {
			t.Violate(base+"/class=refused-but-changed", fmt.Sprintf("%s returned %q and changed the tree: %v", name, rerr, ch), map[string]any{"op": op.Name, "relation": r.name})
		}
		t.Count("refused_runs", 1)
		t.Eval("")
		return
	}
	t.Count("successful_runs_checked", 1)
	t.Count("fs_calls_traced", m.Calls())
	t.Eval(name)
	after, _ := fsx.Snapshot(root, false)
	viol := func(class, what string) {
		t.Violate(base+"/class="+class, name+": "+what, map[string]any{"op": op.Name, "relation": r.name, "what": what})
	}
	if len(badOpen) > 0 {
		viol("input-overwritten", "the input file was truncated or overwritten in place while being the operation's input: "+strings.Join(badOpen, "; "))
	}
	// 1. destination complete
	if op.Kind == opcat.DirOut {
		for p, e := range refTree {
			if !strings.HasPrefix(p, "outdir/") || !e.Mode.IsRegular() {
				continue
			}
			if ok, why := pdfcmp.SameOutput(filepath.Join(refRoot, p), filepath.Join(root, p), 256); !ok {
				viol("output-incomplete", p+": "+why)
			}
		}
	} else if appended {
		// incremental update written in place: the original bytes must be a prefix of the result, which must validate
		t.Count("incremental_appends_seen", 1)
		got, _ := os.ReadFile(dest)
		if len(got) <= len(inBytes) || string(got[:len(inBytes)]) != string(inBytes) {
			viol("incremental-not-prefix-preserving", fmt.Sprintf("in-place incremental update: result (%d bytes) does not extend the original %d bytes", len(got), len(inBytes)))
		}
		gp, gerr := pdfcmp.Validate(dest)
		rp, _ := pdfcmp.Validate(filepath.Join(refRoot, op.OutName))
		if gerr != nil || gp != rp {
			viol("output-incomplete", fmt.Sprintf("incrementally updated file: validate err=%v pages=%d (reference %d)", gerr, gp, rp))
		}
	} else {
		if ok, why := pdfcmp.SameOutputMasking(filepath.Join(refRoot, op.OutName), dest, 256, refRoot, root); !ok {
			viol("output-incomplete", why)
		}
	}
	// 2. permission bits of an existing destination
	if dest != "" {
		rel, _ := filepath.Rel(root, dest)
		rel = filepath.ToSlash(rel)
		if r.name == "symlinked-dir" {
			rel = op.Input
		}
		if old, ok := before[rel]; ok && old.Mode.IsRegular() {
			if fi, err := os.Stat(dest); err == nil && fi.Mode().Perm() != old.Mode.Perm() {
				viol("mode-changed", fmt.Sprintf("destination mode %v, before %v", fi.Mode().Perm(), old.Mode.Perm()))
			}
		}
	}
	// 3. nothing else changed, no staging entries
	destRel := ""
	if dest != "" {
		destRel, _ = filepath.Rel(root, dest)
		destRel = filepath.ToSlash(destRel)
	}
	for _, ch := range fsx.Diff(before, after) {
		p := ch.Path
		switch {
		case p == destRel || (r.name == "symlinked-dir" && p == op.Input):
		case r.alias && p == op.Input:
			// other name of the input: old or new bytes are both accepted (see assumptions)
		case op.Kind == opcat.DirOut && strings.HasPrefix(p, "outdir/") && ch.Kind == "added" && !fsx.IsStaging(filepath.Base(p)):
		case ch.Kind == "added" && fsx.IsStaging(filepath.Base(p)):
			viol("staging-left", ch.String())
		case ch.Kind == "added":
			if _, inRef := refTree[p]; inRef {
				continue
			}
			viol("unexpected-file", ch.String())
		default:
			if p == op.Input || contains(op.Extra, p) {
				viol("input-changed", ch.String())
			} else {
				viol("other-path-changed", ch.String())
			}
		}
	}
	t.Sample(map[string]any{"op": op.Name, "relation": r.name, "fs_calls": m.Calls(), "dest": destRel})
}

func contains(l []string, s string) bool {
	for _, x := range l {
		if x == s {
			return true
		}
	}
	return false
}
