package main

import (
	"bytes"
	"crypto/sha256"
	"encoding/hex"
	"fmt"
	"regexp"
	"sort"
	"strings"

	"verif/harness/internal/pdfstrict"
)

var dropKeys = map[string]bool{"ID": true, "CreationDate": true, "ModDate": true}

// canonPDF: canonical text of everything reachable from the trailer's Root and Info (strict,
// non-repairing reader), plus the structural defect kinds the reader found in the file.
func canonPDF(data []byte) (string, map[string]int, error) {
	d, err := pdfstrict.Open(data, pdfstrict.Options{})
	if err != nil {
		return "", nil, err
	}
	tr := d.Trailer()
	root := pdfstrict.Dict{}
	if v, ok := tr["Root"]; ok {
		root["Root"] = v
	}
	if v, ok := tr["Info"]; ok {
		root["Info"] = v
	}
	if _, ok := root["Root"]; !ok {
		return "", d.DefectKinds(), fmt.Errorf("trailer without /Root")
	}
	c := d.Canonical(root, pdfstrict.CanonOpts{DropKeys: dropKeys, DropNullEntries: true})
	return maskXMPDates(c), d.DefectKinds(), nil
}

// The canonical form shows streams by the digest of their decoded data, so nothing date-like is
// left to mask there; kept as a hook (identity) so that a future need is one place.
func maskXMPDates(s string) string { return s }

// structural kinds that text mixed into (or around) a PDF written to stdout would cause.
var streamDefectKinds = []string{
	pdfstrict.KindHeader, "startxref-target", "obj-offset", "obj-id", "obj-parse", "obj-endobj",
	"stream-length", "eof-marker", "eof-trailing", "startxref-syntax", "xref-subsection-count", "xref-entry-format",
}

// extraDefects names kinds (of the list above) present in got but not in ref.
func extraDefects(ref, got map[string]int) string {
	var out []string
	for _, k := range streamDefectKinds {
		if got[k] > 0 && ref[k] == 0 {
			out = append(out, fmt.Sprintf("%s×%d", k, got[k]))
		}
	}
	sort.Strings(out)
	return strings.Join(out, ",")
}

// pureStdoutPDF: "" if b begins with %PDF- and ends with %%EOF (+ optional end of line).
func pureStdoutPDF(b []byte) string {
	if !bytes.HasPrefix(b, []byte("%PDF-")) {
		return "does not begin with %PDF-"
	}
	t := bytes.TrimRight(b, "\r\n")
	if !bytes.HasSuffix(t, []byte("%%EOF")) {
		return "does not end with %%EOF"
	}
	if len(b)-len(t) > 2 {
		return "has extra line ends after %%EOF"
	}
	return ""
}

// completePDF: something that looks like a whole document (header ... %%EOF).
func completePDF(b []byte) bool {
	i := bytes.Index(b, []byte("%PDF-"))
	return i >= 0 && bytes.Contains(b[i:], []byte("%%EOF"))
}

func hashOf(s string) string {
	h := sha256.Sum256([]byte(s))
	return hex.EncodeToString(h[:8])
}

func firstDiff(a, b string) string {
	la, lb := strings.Split(a, "\n"), strings.Split(b, "\n")
	for i := 0; i < len(la) && i < len(lb); i++ {
		if la[i] != lb[i] {
			return fmt.Sprintf("line %d: %q vs %q", i, clipS(la[i], 140), clipS(lb[i], 140))
		}
	}
	return fmt.Sprintf("%d vs %d lines", len(la), len(lb))
}

func clipS(s string, n int) string {
	if len(s) > n {
		return s[:n] + "…"
	}
	return s
}

var (
	reSrc  = regexp.MustCompile(`\bin\.pdf\b|\bstdin\b`)
	reDash = regexp.MustCompile(`(?m)(^|[ \t])-(:?)$`)
	reTime = regexp.MustCompile(`\d{4}-\d\d-\d\d[T ]\d\d:\d\d(:\d\d)?( [A-Z]{3,4})?`)
)

// maskSource hides what legitimately differs between `cmd in.pdf` and `cmd - < in.pdf` in a listing:
// the name of the source and wall-clock stamps.
func maskSource(s string) string {
	s = reSrc.ReplaceAllString(s, "<SRC>")
	s = reDash.ReplaceAllString(s, "${1}<SRC>${2}")
	s = reTime.ReplaceAllString(s, "<TIME>")
	var out []string
	for _, ln := range strings.Split(s, "\n") {
		out = append(out, strings.TrimRight(ln, " \t"))
	}
	return strings.Join(out, "\n")
}
