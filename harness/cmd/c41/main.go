// C41 — CLI streams and machine-readable output behave like the file interface.
//
// Black-box monitor of the REAL command line binary (built at run time from the tree under test).
//
//  1. Streams. For every command that pkg/cli routes through stdin/stdout (table in forms.go, cross-checked
//     against the leaves the binary's help reports): a reference run `cmd in.pdf out.pdf`, then
//     `cmd - - < in.pdf > out2`, `cmd in.pdf - > out2`, `cmd - out2.pdf < in.pdf` and, where the output is
//     optional, `cmd - < in.pdf > out2`. The outputs must have the same canonical form as the reference
//     (independent reader internal/pdfstrict; /ID and dates dropped; encrypted outputs are decrypted with
//     the CLI first); what arrives on stdout must begin with %PDF-, end with %%EOF and show no structural
//     defect that the file output does not show (log text mixed into the stream shifts offsets).
//     Directory- and listing-producing commands are compared output by output / line by line.
//  2. JSON. Every --json command and JSON export to "-": stdout decodes as exactly one JSON value followed
//     by white space only, in six configuration situations (first run with the default config dir,
//     second run, existing but outdated config, --conf <fresh dir>, --conf <existing dir>, --conf disable).
//  4. Multi-input forms mixing files and "-" (multi.go): info, validate, form list, images list,
//     permissions list, merge, import with 2 and 3 inputs, every position failing in turn, the failing
//     input as a file or on stdin, text and JSON: same exit status as the all-files form (non-zero when
//     an input cannot be read) and, when both succeed, the same listing / JSON entries / document.
//  3. Failures. Missing file, non-PDF bytes or nothing on stdin, wrong password, refused overwrite:
//     exit status != 0 and nothing that looks like a complete PDF on stdout; truncated input: exit 0 iff
//     a valid PDF was produced.
package main

import (
	"bytes"
	"encoding/json"
	"fmt"
	"os"
	"path/filepath"
	"regexp"
	"sort"
	"strings"
	"sync"

	"github.com/pdfcpu/pdfcpu/pkg/api"
	"verif/harness/internal/clirun"
	"verif/harness/internal/opcat"
	"verif/harness/internal/vk"
)

type env struct {
	t       *vk.T
	fx      string
	bin     string
	cases   string
	debug   bool
	only    *regexp.Regexp
	helpOf  map[string]string // leaf path -> help text
	mu      sync.Mutex
	nextDir int
}

type replayCase struct {
	Form   string   `json:"form"`
	Mode   string   `json:"mode"`
	Input  string   `json:"input,omitempty"`
	Args   []string `json:"args"`
	Exit   int      `json:"exit"`
	Stderr string   `json:"stderr"`
	Stdout string   `json:"stdout_head,omitempty"`
}

func main() {
	vk.Run("C41", "exploration", func(t *vk.T) {
		api.DisableConfigDir()
		e := &env{t: t, debug: os.Getenv("C41_DEBUG") != "", helpOf: map[string]string{}}
		if s := os.Getenv("C41_ONLY"); s != "" {
			e.only = regexp.MustCompile(s)
		}
		scratch := t.Scratch()
		e.fx = filepath.Join(scratch, "fx")
		e.cases = filepath.Join(scratch, "c")
		bindir := filepath.Join(scratch, "bin")
		for _, d := range []string{e.fx, e.cases, bindir} {
			if err := os.MkdirAll(d, 0o755); err != nil {
				t.Broken("mkdir: %v", err)
			}
		}
		if err := opcat.Prepare(vk.RepoDir(), e.fx); err != nil {
			t.Broken("fixtures: %v", err)
		}
		e.bin = filepath.Join(bindir, "pdfcpu")
		if err := clirun.Build(vk.RepoDir(), e.bin, ""); err != nil {
			t.Broken("%v", err)
		}
		leaves, err := clirun.Leaves(e.bin, scratch)
		if err != nil {
			t.Broken("leaf discovery: %v", err)
		}
		for _, l := range leaves {
			e.helpOf[l.Path] = l.Help
		}
		sf, jf, mf := streamForms(), jsonForms(), multiForms()
		e.coverage(leaves, sf, jf, mf)

		if t.Replay != nil {
			var rc replayCase
			_ = json.Unmarshal(t.Replay.Case, &rc)
			e.only = regexp.MustCompile("^" + regexp.QuoteMeta(rc.Form) + "$")
		}

		t.Rule("case = (command form, stream mode | configuration situation | failure kind, input file); each case is one or more runs of the real binary in a fresh sandbox; non-trivial = every case that reached a verdict (outputs compared canonically, stdout framed, exit status checked); distinct by that tuple")
		t.Assume("equivalence of two outputs: equal pdfstrict canonical form of {Root, Info} with /ID, /CreationDate, /ModDate dropped (encrypted outputs decrypted with the CLI first); if two FILE-form runs already differ the case is inconclusive")
		t.Assume("listing commands: stdout equal as a multiset of words after masking the source name (file name vs stdin label) and wall-clock stamps; directory-producing commands: same multiset of canonical outputs, file names ignored (they embed the source name)")
		t.Assume("multi-input forms (info, validate, form list, images list, permissions list, merge, import with 2 and 3 inputs): an input that is not a PDF / image, is empty, is missing or needs a password that is not given must make the command fail whether it is named as a file or delivered on stdin; a truncated input may be repaired, so only agreement with the all-files form is required; results are compared only when both forms exit 0")
		t.Assume("failure cases: a missing file, non-PDF / empty stdin, a wrong password for an AES-256 encrypted input and an existing output without --force must make the command fail; a truncated PDF may be repaired, so only consistency (exit 0 iff a valid PDF came out) is required")
		t.Exhaustive(e.only == nil)

		type job func()
		var jobs []job
		for _, f := range sf {
			f := f
			if e.only != nil && !e.only.MatchString(f.name) {
				continue
			}
			jobs = append(jobs, func() { e.runStreamForm(f, f.in, "") })
			jobs = append(jobs, func() { e.runFailures(f) })
		}
		for _, jf1 := range jf {
			jf1 := jf1
			if e.only != nil && !e.only.MatchString("json/"+jf1.name) {
				continue
			}
			jobs = append(jobs, func() { e.runJSONForm(jf1) })
		}
		for _, m := range mf {
			if e.only != nil && !e.only.MatchString("multi/"+m.name) {
				continue
			}
			for _, j := range e.multiJobs(m) {
				jobs = append(jobs, job(j))
			}
		}
		if t.Replay == nil {
			for _, c := range e.corpus(t.Pick(1, 8)) {
				c := c
				for _, f := range sf {
					f := f
					if f.generic && (e.only == nil || e.only.MatchString(f.name)) {
						jobs = append(jobs, func() { e.runStreamForm(f, "", c) })
					}
				}
			}
		}
		vk.Parallel(len(jobs), func(i int) { jobs[i]() })
	})
}

// corpus picks n extra input files (deterministic in the seed; quick 1, thorough 8): files of
// pkg/testdata and pkg/samples/basic that the CLI validates without a password.
func (e *env) corpus(n int) []string {
	var all []string
	for _, g := range []string{"pkg/testdata/*.pdf", "pkg/samples/basic/*.pdf"} {
		m, _ := filepath.Glob(filepath.Join(vk.RepoDir(), g))
		all = append(all, m...)
	}
	sort.Strings(all)
	rng := e.t.RNG("corpus")
	rng.Shuffle(len(all), func(i, j int) { all[i], all[j] = all[j], all[i] })
	var out []string
	scratch := e.t.Scratch()
	for _, pth := range all {
		if len(out) == n {
			break
		}
		st, err := os.Stat(pth)
		if err != nil || st.Size() > 3<<20 {
			continue
		}
		r := clirun.Run(clirun.Spec{Bin: e.bin, Args: []string{"--conf", "disable", "validate", pth}, Dir: scratch, Home: scratch, Tmp: scratch})
		if r.Exit == 0 && !bytes.Contains(r.Stderr, []byte("password")) {
			out = append(out, pth)
		}
	}
	e.t.Extra("corpus_inputs", out)
	return out
}

func (e *env) coverage(leaves []clirun.Leaf, sf []sform, jf []jform, mf []mform) {
	t := e.t
	driven := map[string]bool{}
	for _, f := range sf {
		driven[f.leaf] = true
	}
	jdriven := map[string]bool{}
	for _, f := range jf {
		jdriven[f.leaf] = true
	}
	mdriven := map[string]bool{}
	for _, f := range mf {
		mdriven[f.leaf] = true
	}
	var uncovered, unJSON, unMulti []string
	n := 0
	for _, l := range leaves {
		if strings.Contains(l.Usage, "inFile...") || strings.Contains(l.Usage, "imageFile...") {
			if _, ok := notMultiStreaming[l.Path]; !ok && !mdriven[l.Path] {
				unMulti = append(unMulti, l.Path)
			}
		}
		if l.HasInArg() || l.HasOutArg() {
			n++
			if !driven[l.Path] {
				if _, ok := notStreaming[l.Path]; !ok {
					uncovered = append(uncovered, l.Path)
				}
			}
		}
		if strings.Contains(l.Help, "--json") && !jdriven[l.Path] {
			unJSON = append(unJSON, l.Path)
		}
	}
	var declared []string
	for l, why := range notStreaming {
		declared = append(declared, l+": "+why)
	}
	sort.Strings(declared)
	t.Count("leaves_discovered", int64(len(leaves)))
	t.Count("leaves_with_file_arguments", int64(n))
	t.Count("uncovered_stream_leaves", int64(len(uncovered)))
	t.Count("uncovered_json_leaves", int64(len(unJSON)))
	t.Count("stream_forms_in_table", int64(len(sf)))
	t.Count("json_forms_in_table", int64(len(jf)))
	t.Count("multi_input_forms_in_table", int64(len(mf)))
	t.Count("uncovered_multi_input_leaves", int64(len(unMulti)))
	t.Extra("uncovered_multi_input", unMulti)
	t.Extra("uncovered", uncovered)
	t.Extra("uncovered_json", unJSON)
	t.Extra("declared_not_streaming", declared)
	for _, u := range append(append(uncovered, unJSON...), unMulti...) {
		fmt.Printf("UNCOVERED: property=C41 leaf %q is not driven by the table\n", u)
	}
}

// ---------------------------------------------------------------- sandboxes

type box struct{ root, sb, home, tmp string }

func (e *env) newBox(names ...string) *box {
	e.mu.Lock()
	e.nextDir++
	n := e.nextDir
	e.mu.Unlock()
	root := filepath.Join(e.cases, fmt.Sprint(n))
	b := &box{root: root, sb: filepath.Join(root, "sb"), home: filepath.Join(root, "home"), tmp: filepath.Join(root, "tmp")}
	for _, d := range []string{b.sb, b.home, b.tmp} {
		if err := os.MkdirAll(d, 0o755); err != nil {
			e.t.Broken("mkdir: %v", err)
		}
	}
	for _, n := range names {
		if n == "" {
			continue
		}
		if err := clirun.CopyFile(filepath.Join(e.fx, n), filepath.Join(b.sb, n), 0o644); err != nil {
			e.t.Broken("fixture %s: %v", n, err)
		}
	}
	return b
}

func (b *box) done() { _ = os.RemoveAll(b.root) }

func (e *env) run(b *box, args []string, stdin []byte, conf []string) clirun.Result {
	if conf == nil {
		conf = []string{"--conf", "disable"}
	}
	full := append(append([]string{}, conf...), args...)
	r := clirun.Run(clirun.Spec{Bin: e.bin, Args: full, Dir: b.sb, Home: b.home, XDG: filepath.Join(b.home, "xdg"), Tmp: b.tmp, Stdin: stdin})
	e.t.Count("child_runs", 1)
	if e.debug {
		fmt.Fprintf(os.Stderr, "RUN %q stdin=%d exit=%d stdout=%d %q stderr=%q\n", full, len(stdin), r.Exit, len(r.Stdout), clirun.Clip(r.Stdout, 40), clirun.Clip(r.Stderr, 160))
	}
	if left, _ := os.ReadDir(b.tmp); len(left) > 0 {
		e.t.Count("tmpdir_leftovers", int64(len(left)))
		for _, l := range left {
			_ = os.RemoveAll(filepath.Join(b.tmp, l.Name()))
		}
	}
	return r
}

func killed(r clirun.Result) bool { return r.TimedOut || r.Signal != "" || r.Err != "" }

func rcOf(form, mode, input string, args []string, r clirun.Result) replayCase {
	return replayCase{Form: form, Mode: mode, Input: input, Args: args, Exit: r.Exit, Stderr: clirun.Clip(r.Stderr, 300), Stdout: clirun.Clip(r.Stdout, 80)}
}

// ---------------------------------------------------------------- stream forms

// result of one run of a form, reduced to what is compared.
type product struct {
	pdf   []byte   // pdfRes
	js    []byte   // jsonRes
	files []string // dirRes: sorted canonical identities
	text  string   // textRes
}

// stageInput puts the input into the box under the neutral name in.pdf and returns the fixture/needs list.
func (e *env) inputBytes(f sform, fixture, corpusPath string) ([]byte, string) {
	if corpusPath != "" {
		b, err := os.ReadFile(corpusPath)
		if err != nil {
			e.t.Broken("corpus: %v", err)
		}
		return b, filepath.Base(corpusPath)
	}
	if fixture == "" {
		return nil, ""
	}
	b, err := os.ReadFile(filepath.Join(e.fx, fixture))
	if err != nil {
		e.t.Broken("fixture: %v", err)
	}
	return b, fixture
}

const inName = "in.pdf"

// execForm runs one mode of a form in a fresh box and extracts its product.
// mode: ff | ss | fs | sf | impl.
func (e *env) execForm(f sform, mode string, input []byte) (clirun.Result, []string, *product, *box) {
	b := e.newBox(f.needs...)
	streamIn := mode == "ss" || mode == "sf" || mode == "impl"
	streamOut := mode == "ss" || mode == "fs" || mode == "impl"
	in := inName
	var stdin []byte
	if input != nil {
		if streamIn {
			in, stdin = "-", input
		} else if err := os.WriteFile(filepath.Join(b.sb, inName), input, 0o644); err != nil {
			e.t.Broken("%v", err)
		}
	}
	out, dir := "out.pdf", "outdir"
	if f.kind == jsonRes {
		out = "out.json"
	}
	if streamOut {
		out = "-"
	}
	args := f.args
	if mode == "impl" {
		args = f.impl
	}
	if f.outViaDir {
		_ = os.MkdirAll(filepath.Join(b.sb, dir), 0o755)
		if !hasPlaceholder(f.args, "{dir}") && !streamOut {
			out = dir // extract -m page: the output argument is the directory
		} else if !streamOut {
			out = "stdout.pdf" // the CLI derives names inside the document from the output name; "-" counts as "stdout"
		}
	}
	if f.kind == dirRes {
		_ = os.MkdirAll(filepath.Join(b.sb, dir), 0o755)
	}
	full := subst(args, in, out, dir)
	r := e.run(b, full, stdin, nil)
	if killed(r) || r.Exit != 0 {
		return r, full, nil, b
	}
	p := &product{}
	read := func(pth string) []byte {
		bb, err := os.ReadFile(pth)
		if err != nil {
			return nil
		}
		return bb
	}
	switch {
	case f.kind == textRes:
		p.text = string(r.Stdout)
	case f.kind == dirRes:
		p.files = e.dirIdentity(b, f, filepath.Join(b.sb, dir))
	case streamOut && f.kind == jsonRes:
		p.js = r.Stdout
	case streamOut:
		p.pdf = r.Stdout
	case f.inplaceOnly:
		p.pdf = read(filepath.Join(b.sb, inName))
	case f.outViaDir:
		ents, _ := os.ReadDir(filepath.Join(b.sb, dir))
		if len(ents) == 1 {
			p.pdf = read(filepath.Join(b.sb, dir, ents[0].Name()))
		}
	case f.kind == jsonRes:
		p.js = read(filepath.Join(b.sb, out))
	default:
		p.pdf = read(filepath.Join(b.sb, out))
	}
	return r, full, p, b
}

func (e *env) modes(f sform) []string {
	hasIn := f.in != ""
	hasOut := (hasPlaceholder(f.args, "{out}") || f.inplaceOnly) && !f.noOutStream
	var ms []string
	switch {
	case f.inplaceOnly:
		ms = []string{"ss"} // `cmd - file...` : stdin -> stdout
	case hasIn && hasOut:
		ms = []string{"ss", "fs", "sf"}
	case hasIn:
		ms = []string{"sf"} // stdin -> directory / listing
	case hasOut:
		ms = []string{"fs"}
	}
	if f.impl != nil && hasIn {
		ms = append(ms, "impl")
	}
	return ms
}

func (e *env) runStreamForm(f sform, fixture, corpusPath string) {
	t := e.t
	input, label := e.inputBytes(f, fixture, corpusPath)
	key := "cmd=" + f.name
	base := "C41/stream/" + f.name + "/" + label

	rRef, aRef, ref, b0 := e.execForm(f, "ff", input)
	defer b0.done()
	t.Eval(base + "/ff")
	if killed(rRef) {
		t.Inconclusive("watchdog:" + f.name)
		return
	}
	if ref == nil {
		if corpusPath != "" {
			t.Count("corpus_reference_failed", 1) // the command does not apply to this corpus file
			return
		}
		t.Inconclusive("reference-failed:" + f.name)
		fmt.Fprintf(os.Stderr, "C41: reference run of %s failed: %q exit %d: %s\n", f.name, aRef, rRef.Exit, clirun.Clip(rRef.Stderr, 300))
		return
	}
	refID, refDefects, err := e.identity(b0, f, ref)
	if err != nil {
		if corpusPath != "" {
			t.Count("corpus_reference_unreadable", 1)
			return
		}
		t.Inconclusive("reference-unreadable:" + f.name)
		fmt.Fprintf(os.Stderr, "C41: reference output of %s unreadable: %v\n", f.name, err)
		return
	}
	if corpusPath == "" {
		t.Sample(map[string]any{"form": f.name, "reference_args": aRef, "modes": e.modes(f)})
	}
	var ref2ID string
	ref2Done := false
	modes := e.modes(f)
	if corpusPath != "" {
		modes = modes[:1]
	}
	for _, m := range modes {
		r, args, got, b := e.execForm(f, m, input)
		t.Eval(base + "/" + m)
		func() {
			defer b.done()
			rc := rcOf(f.name, m, label, args, r)
			if killed(r) {
				t.Inconclusive("watchdog:" + f.name)
				return
			}
			if got == nil {
				if completePDF(r.Stdout) {
					t.Violate(key+"/mode=stream/class=failed-with-pdf-on-stdout", fmt.Sprintf("%q exit %d but stdout carries a complete PDF", args, r.Exit), rc)
					return
				}
				if m == "impl" {
					// `cmd -` without an output argument: some commands insist on an explicit output
					// (clean refusal, nothing written); the property does not demand the shorthand.
					t.Count("implicit_stdout_refused", 1)
					return
				}
				t.Violate(key+"/mode=stream/class=failed", fmt.Sprintf("%q (input %s, mode %s) exit %d while the file form %q succeeds: %s", args, label, m, r.Exit, aRef, clirun.Clip(r.Stderr, 200)), rc)
				return
			}
			streamOut := m == "ss" || m == "fs" || m == "impl"
			if streamOut && f.kind == pdfRes {
				if why := pureStdoutPDF(r.Stdout); why != "" {
					t.Violate(key+"/mode="+m+"/class=stdout-not-pure-pdf", fmt.Sprintf("%q: stdout %s (head %q)", args, why, clirun.Clip(r.Stdout, 60)), rc)
					return
				}
			}
			if streamOut && f.kind == jsonRes {
				if why := oneJSON(r.Stdout); why != "" {
					t.Violate(key+"/mode="+m+"/class=stdout-not-one-json", fmt.Sprintf("%q: stdout %s (head %q)", args, why, clirun.Clip(r.Stdout, 60)), rc)
					return
				}
			}
			id, defects, err := e.identity(b, f, got)
			if err != nil {
				t.Violate(key+"/mode="+m+"/class=unreadable-output", fmt.Sprintf("%q: output cannot be read by the strict reader: %v", args, err), rc)
				return
			}
			if extra := extraDefects(refDefects, defects); streamOut && extra != "" {
				t.Violate(key+"/mode="+m+"/class=stdout-not-pure-pdf", fmt.Sprintf("%q: the stream output shows structural defects the file output does not: %s", args, extra), rc)
				return
			}
			if id == refID {
				t.Count("stream_equal/"+m, 1)
				return
			}
			// control: is the file form itself reproducible?
			if !ref2Done {
				ref2Done = true
				_, _, p2, b2 := e.execForm(f, "ff", input)
				if p2 != nil {
					ref2ID, _, _ = e.identity(b2, f, p2)
				}
				b2.done()
			}
			if ref2ID != refID {
				t.Inconclusive("reference-not-reproducible:" + f.name)
				if e.debug {
					fmt.Fprintf(os.Stderr, "C41: %s: two file-form runs differ: %s\n", f.name, firstDiff(refID, ref2ID))
				}
				return
			}
			t.Violate(key+"/mode="+m+"/class=differs", fmt.Sprintf("%q (input %s): result differs from the file form %q: %s", args, label, aRef, firstDiff(refID, id)), rc)
		}()
	}
}

// identity reduces a product to a comparable string (+ structural defect kinds for PDFs).
func (e *env) identity(b *box, f sform, p *product) (string, map[string]int, error) {
	switch f.kind {
	case textRes:
		// compared as a multiset of words: some listings print map-ordered entries, the first of them
		// on the line of the label (info: "Properties: Owner = x" / "Properties: Project = y")
		words := strings.Fields(maskSource(p.text))
		sort.Strings(words)
		return strings.Join(words, "\n"), nil, nil
	case dirRes:
		return strings.Join(p.files, "\n"), nil, nil
	case jsonRes:
		c, err := canonJSON(p.js)
		return c, nil, err
	}
	if p.pdf == nil {
		return "", nil, fmt.Errorf("no output file")
	}
	data := p.pdf
	if f.upw != "" || f.opw != "" {
		d, err := e.decryptCopy(b, data, f.upw, f.opw)
		if err != nil {
			return "", nil, err
		}
		_, defects, _ := canonPDF(data)
		id, _, err := canonPDF(d)
		return id, defects, err
	}
	return canonPDF(data)
}

func (e *env) decryptCopy(b *box, data []byte, upw, opw string) ([]byte, error) {
	e.mu.Lock()
	e.nextDir++
	n := e.nextDir
	e.mu.Unlock()
	src := filepath.Join(b.root, fmt.Sprintf("enc%d.pdf", n))
	dst := filepath.Join(b.root, fmt.Sprintf("dec%d.pdf", n))
	if err := os.WriteFile(src, data, 0o644); err != nil {
		return nil, err
	}
	args := []string{"--conf", "disable", "decrypt"}
	if upw != "" {
		args = append(args, "--upw", upw)
	}
	if opw != "" {
		args = append(args, "--opw", opw)
	}
	r := clirun.Run(clirun.Spec{Bin: e.bin, Args: append(args, src, dst), Dir: b.root, Home: b.home, Tmp: b.tmp})
	e.t.Count("decrypt_runs", 1)
	if r.Exit != 0 {
		return nil, fmt.Errorf("decrypt for comparison: exit %d: %s", r.Exit, clirun.Clip(r.Stderr, 200))
	}
	return os.ReadFile(dst)
}

// dirIdentity lists the canonical identities of the files of an output directory (names ignored).
func (e *env) dirIdentity(b *box, f sform, dir string) []string {
	var ids []string
	_ = filepath.Walk(dir, func(p string, info os.FileInfo, err error) error {
		if err != nil || !info.Mode().IsRegular() {
			return nil
		}
		bb, _ := os.ReadFile(p)
		ext := strings.ToLower(filepath.Ext(p))
		if ext == ".pdf" {
			if id, _, err := canonPDF(bb); err == nil {
				ids = append(ids, "pdf:"+hashOf(id))
				return nil
			}
		}
		ids = append(ids, ext+":"+hashOf(string(bb)))
		return nil
	})
	sort.Strings(ids)
	return ids
}

// ---------------------------------------------------------------- failure cases

func (e *env) runFailures(f sform) {
	if f.in == "" {
		return
	}
	t := e.t
	key := "cmd=" + f.name
	streamOutOK := (hasPlaceholder(f.args, "{out}") || f.inplaceOnly) && !f.noOutStream
	good, _ := e.inputBytes(f, f.in, "")
	type fcase struct {
		name   string
		in     string // "-" or a file name
		stdin  []byte
		args   []string
		plant  bool // existing out.pdf
		out    string
		must   bool // the command MUST fail
	}
	out := "out.pdf"
	if f.kind == jsonRes {
		out = "out.json"
	}
	sout := out
	if streamOutOK {
		sout = "-"
	}
	cases := []fcase{
		{name: "missing-file", in: "missing.pdf", out: sout, must: true},
		{name: "garbage-stdin", in: "-", stdin: []byte("this is not a PDF document\n%%EOF\n"), out: sout, must: true},
		{name: "empty-stdin", in: "-", stdin: []byte{}, out: sout, must: true},
		{name: "truncated-stdin", in: "-", stdin: good[:len(good)*(30+t.RNGi("truncate/"+f.name, 0).IntN(65))/100], out: sout},
	}
	if hasPlaceholder(f.args, "{out}") && !f.outViaDir && f.kind != dirRes {
		cases = append(cases, fcase{name: "refused-overwrite", in: "-", stdin: good, out: out, plant: true, must: true})
	}
	if wp := e.wrongPasswordArgs(f); wp != nil {
		encBytes, err := os.ReadFile(filepath.Join(e.fx, enc))
		if err != nil {
			t.Broken("%v", err)
		}
		cases = append(cases, fcase{name: "wrong-password", in: "-", stdin: encBytes, out: sout, args: wp, must: true})
	}
	for _, c := range cases {
		b := e.newBox(f.needs...)
		args := f.args
		if c.args != nil {
			args = c.args
		}
		dir := "outdir"
		if f.kind == dirRes || f.outViaDir {
			_ = os.MkdirAll(filepath.Join(b.sb, dir), 0o755)
		}
		o := c.out
		if f.outViaDir && o != "-" {
			o = dir
			if hasPlaceholder(f.args, "{dir}") {
				o = "stdout.pdf"
			}
		}
		planted := []byte("pre-existing output\n")
		if c.plant {
			_ = os.WriteFile(filepath.Join(b.sb, o), planted, 0o644)
		}
		full := subst(args, c.in, o, dir)
		r := e.run(b, full, c.stdin, nil)
		t.Eval("C41/fail/" + f.name + "/" + c.name)
		rc := rcOf(f.name, "fail:"+c.name, "", full, r)
		switch {
		case killed(r):
			t.Inconclusive("watchdog:" + f.name)
		case r.Exit == 0 && c.must:
			t.Violate(key+"/fail="+c.name+"/class=exit0", fmt.Sprintf("%q exits 0 (stdout %d bytes, stderr %q)", full, len(r.Stdout), clirun.Clip(r.Stderr, 160)), rc)
		case r.Exit != 0 && completePDF(r.Stdout):
			t.Violate(key+"/fail="+c.name+"/class=pdf-on-stdout", fmt.Sprintf("%q exits %d but stdout carries a complete PDF (%d bytes)", full, r.Exit, len(r.Stdout)), rc)
		case r.Exit == 0 && !c.must:
			// truncated input accepted (repaired): then the result must be a real document
			ok := true
			why := ""
			if o == "-" && f.kind == pdfRes {
				if why = pureStdoutPDF(r.Stdout); why != "" {
					ok = false
				} else if _, _, err := canonPDF(r.Stdout); err != nil {
					ok, why = false, err.Error()
				}
			}
			if !ok {
				t.Violate(key+"/fail="+c.name+"/class=exit0-without-document", fmt.Sprintf("%q exits 0 but stdout %s", full, why), rc)
			} else {
				t.Count("truncated_input_accepted", 1)
			}
		default:
			if c.plant {
				if now, _ := os.ReadFile(filepath.Join(b.sb, o)); !bytes.Equal(now, planted) {
					t.Violate(key+"/fail="+c.name+"/class=overwritten", fmt.Sprintf("%q exits %d but the existing output changed", full, r.Exit), rc)
					break
				}
			}
			t.Count("failed_ok/"+c.name, 1)
		}
		b.done()
	}
}

// wrongPasswordArgs builds the invocation for the wrong-password case, nil if not applicable.
func (e *env) wrongPasswordArgs(f sform) []string {
	hasPW := false
	for _, a := range f.args {
		if a == "--upw" || a == "--opw" {
			hasPW = true
		}
	}
	if hasPW {
		if f.in != enc {
			return nil
		}
		out := make([]string, len(f.args))
		for i, a := range f.args {
			switch a {
			case "upw":
				a = "wrong-u"
			case "opw":
				a = "wrong-o"
			}
			out[i] = a
		}
		return out
	}
	if f.generic || f.kind == textRes {
		if strings.Contains(e.helpOf[f.leaf], "--upw") {
			return append([]string{f.args[0], "--upw", "wrong-u"}, f.args[1:]...)
		}
		return f.args
	}
	return nil
}

// ---------------------------------------------------------------- JSON commands

type situation struct {
	name string
	prep func(e *env, b *box) []string // returns the --conf arguments (may be empty)
}

func bootstrap(e *env, b *box, conf []string) {
	r := e.run(b, []string{"version"}, nil, conf)
	if r.Exit != 0 {
		e.t.Count("bootstrap_failed", 1)
	}
}

func outdate(cfgRoot string) {
	_ = filepath.Walk(cfgRoot, func(p string, info os.FileInfo, err error) error {
		if err == nil && info.Name() == "config.yml" {
			bb, _ := os.ReadFile(p)
			lines := strings.Split(string(bb), "\n")
			for i, ln := range lines {
				if strings.HasPrefix(ln, "version:") {
					lines[i] = "version: v0.9.1"
				}
			}
			_ = os.WriteFile(p, []byte(strings.Join(lines, "\n")), 0o644)
		}
		return nil
	})
}

var situations = []situation{
	{"fresh-default", func(e *env, b *box) []string { return []string{} }},
	{"existing-default", func(e *env, b *box) []string { bootstrap(e, b, []string{}); return []string{} }},
	{"outdated-default", func(e *env, b *box) []string {
		bootstrap(e, b, []string{})
		outdate(filepath.Join(b.home, "xdg"))
		return []string{}
	}},
	{"fresh-conf", func(e *env, b *box) []string {
		d := filepath.Join(b.root, "conf")
		_ = os.MkdirAll(d, 0o755)
		return []string{"--conf", d}
	}},
	{"existing-conf", func(e *env, b *box) []string {
		d := filepath.Join(b.root, "conf")
		_ = os.MkdirAll(d, 0o755)
		bootstrap(e, b, []string{"--conf", d})
		return []string{"--conf", d}
	}},
	{"disable", func(e *env, b *box) []string { return []string{"--conf", "disable"} }},
}

func (e *env) runJSONForm(jf jform) {
	t := e.t
	okAnywhere := false
	variants := []bool{false}
	if jf.stdin {
		variants = append(variants, true)
	}
	for _, viaStdin := range variants {
		for _, s := range situations {
			b := e.newBox(append([]string{jf.in}, jf.needs...)...)
			conf := s.prep(e, b)
			in := jf.in
			var stdin []byte
			if viaStdin {
				in = "-"
				stdin, _ = os.ReadFile(filepath.Join(e.fx, jf.in))
			}
			args := subst(jf.args, in, "", "")
			r := e.run(b, args, stdin, conf)
			mode := "file"
			if viaStdin {
				mode = "stdin"
			}
			t.Eval("C41/json/" + jf.name + "/" + mode + "/" + s.name)
			rc := rcOf("json/"+jf.name, s.name+"/"+mode, jf.in, append(conf, args...), r)
			switch {
			case killed(r):
				t.Inconclusive("watchdog:json/" + jf.name)
			case r.Exit != 0:
				t.Count("json_command_failed/"+s.name, 1)
				if len(bytes.TrimSpace(r.Stdout)) > 0 {
					if why := oneJSON(r.Stdout); why != "" {
						t.Count("json_failed_with_non_json_stdout", 1)
					}
				}
			default:
				if why := oneJSON(r.Stdout); why != "" {
					t.Violate("json="+strings.ReplaceAll(jf.leaf, " ", "/")+"/class="+strings.ReplaceAll(why, " ", "-"),
						fmt.Sprintf("%q (%s, input via %s): stdout is not exactly one JSON value: %s; head %q tail %q", args, s.name, mode, why, clirun.Clip(r.Stdout, 80), tail(r.Stdout, 80)), rc)
				} else {
					okAnywhere = true
					t.Count("json_ok/"+s.name, 1)
				}
			}
			b.done()
		}
	}
	if !okAnywhere {
		t.Inconclusive("json-form-never-succeeded:" + jf.name)
	}
	// failures: missing file / garbage on stdin
	if jf.in != "" {
		for _, fc := range []struct {
			name  string
			in    string
			stdin []byte
		}{{"missing-file", "missing.pdf", nil}, {"garbage-stdin", "-", []byte("not a pdf\n")}} {
			if fc.in == "-" && !jf.stdin {
				continue
			}
			b := e.newBox(jf.needs...)
			args := subst(jf.args, fc.in, "", "")
			r := e.run(b, args, fc.stdin, nil)
			t.Eval("C41/json/" + jf.name + "/fail/" + fc.name)
			if !killed(r) && r.Exit == 0 {
				t.Violate("json="+strings.ReplaceAll(jf.leaf, " ", "/")+"/fail="+fc.name+"/class=exit0", fmt.Sprintf("%q exits 0", args), rcOf("json/"+jf.name, "fail:"+fc.name, "", args, r))
			} else if !killed(r) {
				t.Count("failed_ok/json-"+fc.name, 1)
			}
			b.done()
		}
	}
}

func tail(b []byte, n int) string {
	if len(b) > n {
		b = b[len(b)-n:]
	}
	return string(b)
}

// oneJSON: "" if b is exactly one JSON value followed only by white space.
func oneJSON(b []byte) string {
	if len(bytes.TrimSpace(b)) == 0 {
		return "empty"
	}
	dec := json.NewDecoder(bytes.NewReader(b))
	var v any
	if err := dec.Decode(&v); err != nil {
		return "not json"
	}
	rest := b[dec.InputOffset():]
	if len(bytes.TrimSpace(rest)) != 0 {
		return "trailing data"
	}
	if lead := bytes.TrimLeft(b, " \t\r\n"); len(lead) > 0 && lead[0] != '{' && lead[0] != '[' {
		return "not a json document"
	}
	return ""
}

// canonJSON: the decoded value with run-dependent members (header, source names) removed, re-encoded.
func canonJSON(b []byte) (string, error) {
	var v any
	if err := json.Unmarshal(b, &v); err != nil {
		return "", err
	}
	var strip func(v any) any
	strip = func(v any) any {
		switch x := v.(type) {
		case map[string]any:
			delete(x, "header")
			delete(x, "source")
			for k, c := range x {
				x[k] = strip(c)
			}
		case []any:
			for i, c := range x {
				x[i] = strip(c)
			}
		}
		return v
	}
	out, err := json.Marshal(strip(v))
	return string(out), err
}
