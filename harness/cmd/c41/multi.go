package main

// Multi-input command forms mixing files and "-".
//
// Several commands take a LIST of inputs (info, validate, form list, images list, permissions list,
// merge, import) and route the list through different code when one of the inputs is "-" (stdin)
// than when all of them are files. For N = 2 and 3 inputs, with every position failing in turn
// (not a PDF, empty, missing file, truncated, wrong password) and the failing input delivered as a
// file or on stdin, in text and in JSON mode, the stream form must agree with the all-files form:
// same exit status (non-zero when an input cannot be read), and - when both succeed - the same
// listing / the same JSON entries / the same merged document.

import (
	"encoding/json"
	"fmt"
	"os"
	"path/filepath"
	"regexp"
	"sort"
	"strings"

	"verif/harness/internal/clirun"
	"verif/harness/internal/opcat"
)

// mform is one multi-input command form: pre [out] input...
type mform struct {
	name  string
	leaf  string
	pre   []string
	good  []string // >= 3 fixtures that the command accepts
	kind  resKind  // textRes | jsonRes | pdfRes
	out   string   // "" = none, "file" = out.pdf, "stdout" = "-"
	image bool     // the inputs are images, not PDFs
}

func multiForms() []mform {
	pdfs := []string{multi, one, wm}
	fpdfs := []string{fform, core, blank}
	ipdfs := []string{images, multi, one}
	imgs := []string{opcat.FxImg, opcat.FxImg2, opcat.FxReplImg}
	return []mform{
		{name: "info", leaf: "info", pre: split("info"), good: pdfs, kind: textRes},
		{name: "info/json", leaf: "info", pre: split("info|--json"), good: pdfs, kind: jsonRes},
		{name: "validate", leaf: "validate", pre: split("validate"), good: pdfs, kind: textRes},
		{name: "form/list", leaf: "form list", pre: split("form|list"), good: fpdfs, kind: textRes},
		{name: "form/list/json", leaf: "form list", pre: split("form|list|--json"), good: fpdfs, kind: jsonRes},
		{name: "images/list", leaf: "images list", pre: split("images|list"), good: ipdfs, kind: textRes},
		{name: "permissions/list", leaf: "permissions list", pre: split("permissions|list"), good: pdfs, kind: textRes},
		{name: "merge/create", leaf: "merge", pre: split("merge|-b=false"), good: pdfs, kind: pdfRes, out: "file"},
		{name: "merge/create/stdout", leaf: "merge", pre: split("merge|-b=false"), good: pdfs, kind: pdfRes, out: "stdout"},
		{name: "import", leaf: "import", pre: split("import"), good: imgs, kind: pdfRes, out: "file", image: true},
	}
}

// failure kinds of one input. must: the command has to fail; otherwise (an input that pdfcpu may
// repair) only agreement between the stream form and the all-files form is required.
type failKind struct {
	name    string
	must    bool
	onStdin bool // the failing input can be delivered on stdin
}

var failKinds = []failKind{
	{"not-a-pdf", true, true},
	{"empty", true, true},
	{"missing", true, false},
	{"truncated", false, true},
	{"wrong-password", true, true},
}

var reMultiSrc = regexp.MustCompile(`\bin\d\.(pdf|png|jpg)\b|\bstdin\b`)

func maskMulti(s string) string {
	return maskSource(reMultiSrc.ReplaceAllString(s, "<SRC>"))
}

// canonJSONSet is canonJSON with every array compared as a multiset (form list --json reports the
// fields of a form in map order, which differs from run to run): the elements of every array are
// sorted by their encoding.
func canonJSONSet(b []byte) (string, error) {
	c, err := canonJSON(b)
	if err != nil {
		return "", err
	}
	var v any
	if err := json.Unmarshal([]byte(c), &v); err != nil {
		return "", err
	}
	var norm func(v any) any
	enc := func(v any) string { bb, _ := json.Marshal(v); return string(bb) }
	norm = func(v any) any {
		switch x := v.(type) {
		case map[string]any:
			for k, c := range x {
				x[k] = norm(c)
			}
		case []any:
			for i, c := range x {
				x[i] = norm(c)
			}
			sort.SliceStable(x, func(i, j int) bool { return enc(x[i]) < enc(x[j]) })
		}
		return v
	}
	out, err := json.MarshalIndent(norm(v), "", " ")
	return string(out), err
}

// mrun is one invocation of a multi form.
type mrun struct {
	args []string
	res  clirun.Result
	id   string // comparable product (only when exit 0)
	err  error  // product unreadable
}

// execMulti runs the form with n inputs in a fresh box. fail < 0: all inputs good; otherwise input
// number fail is replaced by the failing input of kind fk. stdin < 0: all files; otherwise input number
// stdin is delivered on standard input and named "-".
func (e *env) execMulti(f mform, n, fail int, fk failKind, stdin int) mrun {
	b := e.newBox()
	defer b.done()
	ext0 := ".pdf"
	if f.image {
		ext0 = ".png"
	}
	pre := append([]string{}, f.pre...)
	var names []string
	var input []byte
	for q := 0; q < n; q++ {
		fx := f.good[q%len(f.good)]
		data, err := os.ReadFile(filepath.Join(e.fx, fx))
		if err != nil {
			e.t.Broken("fixture: %v", err)
		}
		name := fmt.Sprintf("in%d%s", q, filepath.Ext(fx))
		if q == fail {
			switch fk.name {
			case "not-a-pdf":
				name, data = "bad"+ext0, []byte("this is not a PDF document and not an image\n%%EOF\n")
			case "empty":
				name, data = "empty"+ext0, []byte{}
			case "missing":
				name, data = "missing"+ext0, nil
			case "truncated":
				name = "trunc" + filepath.Ext(fx)
				data = data[:len(data)*(30+e.t.RNGi("multi/truncate/"+f.name, q).IntN(65))/100]
			case "wrong-password":
				enc, err := os.ReadFile(filepath.Join(e.fx, opcat.FxEnc))
				if err != nil {
					e.t.Broken("fixture: %v", err)
				}
				name, data = "locked.pdf", enc
				if strings.Contains(e.helpOf[f.leaf], "--upw") {
					pre = append(pre, "--upw", "wrong-u")
				}
			}
		}
		if q == stdin {
			names = append(names, "-")
			input = data
			if input == nil {
				input = []byte{}
			}
			continue
		}
		names = append(names, name)
		if data != nil {
			if err := os.WriteFile(filepath.Join(b.sb, name), data, 0o644); err != nil {
				e.t.Broken("%v", err)
			}
		}
	}
	args := pre
	switch f.out {
	case "file":
		args = append(args, "out.pdf")
	case "stdout":
		args = append(args, "-")
	}
	args = append(args, names...)
	m := mrun{args: args}
	m.res = e.run(b, args, input, nil)
	if killed(m.res) || m.res.Exit != 0 {
		return m
	}
	switch {
	case f.kind == textRes:
		words := strings.Fields(maskMulti(string(m.res.Stdout)))
		sort.Strings(words)
		m.id = strings.Join(words, "\n")
	case f.kind == jsonRes:
		m.id, m.err = canonJSONSet(m.res.Stdout)
	case f.out == "stdout":
		m.id, _, m.err = canonPDF(m.res.Stdout)
	default:
		data, err := os.ReadFile(filepath.Join(b.sb, "out.pdf"))
		if err != nil {
			m.err = err
		} else {
			m.id, _, m.err = canonPDF(data)
		}
	}
	return m
}

// runMultiGroup: one (n, failing position, kind): the all-files form, then "-" at the positions in streamAt.
func (e *env) runMultiGroup(f mform, n, fail int, fk failKind, streamAt []int) {
	t := e.t
	key := "multi=" + f.name
	label := "all-good"
	if fail >= 0 {
		label = fmt.Sprintf("%s@%d", fk.name, fail)
	}
	base := fmt.Sprintf("C41/multi/%s/n=%d/%s", f.name, n, label)
	must := fail >= 0 && fk.must

	ref := e.execMulti(f, n, fail, fk, -1)
	t.Eval(base + "/files")
	if killed(ref.res) {
		t.Inconclusive("watchdog:multi/" + f.name)
		return
	}
	rcRef := rcOf("multi/"+f.name, label+"/files", "", ref.args, ref.res)
	switch {
	case must && ref.res.Exit == 0:
		t.Violate(key+"/mode=files/class=failed-input-exit0", fmt.Sprintf("%q: input %d cannot be read (%s) but the command exits 0 (stderr %q)", ref.args, fail, fk.name, clirun.Clip(ref.res.Stderr, 160)), rcRef)
	case ref.res.Exit != 0 && completePDF(ref.res.Stdout):
		t.Violate(key+"/mode=files/class=failed-with-pdf-on-stdout", fmt.Sprintf("%q exits %d but stdout carries a complete PDF", ref.args, ref.res.Exit), rcRef)
	case fail < 0 && ref.res.Exit != 0:
		t.Inconclusive("reference-failed:multi/" + f.name)
		fmt.Fprintf(os.Stderr, "C41: reference run %q failed: exit %d: %s\n", ref.args, ref.res.Exit, clirun.Clip(ref.res.Stderr, 300))
		return
	case ref.res.Exit == 0 && f.kind == jsonRes && oneJSON(ref.res.Stdout) != "":
		t.Violate(key+"/mode=files/class=stdout-not-one-json", fmt.Sprintf("%q: stdout %s", ref.args, oneJSON(ref.res.Stdout)), rcRef)
	case ref.res.Exit == 0 && ref.err != nil && fail < 0:
		t.Inconclusive("reference-unreadable:multi/" + f.name)
		return
	}
	if fail < 0 {
		t.Sample(map[string]any{"form": "multi/" + f.name, "reference_args": ref.args, "inputs": n})
	}

	for _, s := range streamAt {
		if s == fail && !fk.onStdin {
			continue
		}
		where := "file"
		if s == fail {
			where = "stdin"
		}
		got := e.execMulti(f, n, fail, fk, s)
		t.Eval(fmt.Sprintf("%s/stdin=%d", base, s))
		if killed(got.res) {
			t.Inconclusive("watchdog:multi/" + f.name)
			continue
		}
		rc := rcOf("multi/"+f.name, fmt.Sprintf("%s/stdin=%d", label, s), "", got.args, got.res)
		switch {
		case must && got.res.Exit == 0:
			t.Violate(key+"/mode=stream/class=failed-input-exit0",
				fmt.Sprintf("%q: input %d (%s, delivered as %s) cannot be read but the command exits 0 (stdout %d bytes, stderr %q); the all-files form %q exits %d",
					got.args, fail, fk.name, where, len(got.res.Stdout), clirun.Clip(got.res.Stderr, 160), ref.args, ref.res.Exit), rc)
		case (got.res.Exit == 0) != (ref.res.Exit == 0):
			t.Violate(key+"/mode=stream/class=exit-differs-from-file-form",
				fmt.Sprintf("%q exits %d but the all-files form %q exits %d (%s; stderr %q)", got.args, got.res.Exit, ref.args, ref.res.Exit, label, clirun.Clip(got.res.Stderr, 160)), rc)
		case got.res.Exit != 0 && completePDF(got.res.Stdout):
			t.Violate(key+"/mode=stream/class=failed-with-pdf-on-stdout", fmt.Sprintf("%q exits %d but stdout carries a complete PDF", got.args, got.res.Exit), rc)
		case got.res.Exit != 0:
			t.Count("multi_failed_ok/"+fk.name+"/"+where, 1)
		case f.kind == jsonRes && oneJSON(got.res.Stdout) != "":
			t.Violate(key+"/mode=stream/class=stdout-not-one-json", fmt.Sprintf("%q: stdout %s (head %q)", got.args, oneJSON(got.res.Stdout), clirun.Clip(got.res.Stdout, 60)), rc)
		case f.out == "stdout" && pureStdoutPDF(got.res.Stdout) != "":
			t.Violate(key+"/mode=stream/class=stdout-not-pure-pdf", fmt.Sprintf("%q: stdout %s", got.args, pureStdoutPDF(got.res.Stdout)), rc)
		case got.err != nil && ref.err == nil:
			t.Violate(key+"/mode=stream/class=unreadable-output", fmt.Sprintf("%q: result cannot be read: %v", got.args, got.err), rc)
		case got.err != nil:
			t.Count("multi_both_unreadable", 1)
		case got.id != ref.id:
			what := "listing"
			switch {
			case f.kind == jsonRes:
				what = "set of JSON entries"
			case f.kind == pdfRes:
				what = "document"
			}
			t.Violate(key+"/mode=stream/class=differs", fmt.Sprintf("%q (%s): %s differs from the all-files form %q: %s", got.args, label, what, ref.args, firstDiff(ref.id, got.id)), rc)
		default:
			t.Count("multi_equal/"+label[:strings.IndexAny(label+"@", "@")], 1)
		}
	}
}

// multiJobs plans the groups of one form. thorough: n = 2 and 3, every failing position, every kind,
// "-" at every position. quick: all inputs good with n = 2 and 3; n = 2 with, per kind, ONE failing position (alternating with the kind,
// start drawn from the seed) and "-" at both positions (failing input on stdin / as a file), plus one
// seeded (kind, position) with n = 3.
func (e *env) multiJobs(f mform) []func() {
	t := e.t
	var jobs []func()
	all := func(n int) []int {
		s := make([]int, n)
		for i := range s {
			s[i] = i
		}
		return s
	}
	kinds := failKinds
	if f.image {
		kinds = nil
		for _, k := range failKinds {
			if k.name != "wrong-password" {
				kinds = append(kinds, k)
			}
		}
	}
	add := func(n, fail int, fk failKind) {
		jobs = append(jobs, func() { e.runMultiGroup(f, n, fail, fk, all(n)) })
	}
	add(2, -1, failKind{})
	add(3, -1, failKind{})
	if t.Quick() {
		rng := t.RNG("multi/plan/" + f.name)
		start := rng.IntN(2)
		for ki, fk := range kinds {
			add(2, (start+ki)%2, fk)
		}
		add(3, rng.IntN(3), kinds[rng.IntN(len(kinds))])
		return jobs
	}
	for _, n := range []int{2, 3} {
		for p := 0; p < n; p++ {
			for _, fk := range kinds {
				add(n, p, fk)
			}
		}
	}
	return jobs
}
