#!/bin/bash
# Stand-alone reproducer for the C41 observations (no harness code involved).
#   usage: . /verif/env.sh; bash repro.sh [repo-dir]
# 1. images update: the file form derives (pageNr, Id) from the image file name (repl_1_Im1.png),
#    the stream forms ("-" as input and/or output) reject the very same arguments.
# 2. (observation, not flagged) merge with a stdin source goes through api.MergeRaw and creates no
#    file-name bookmarks, while the file form does (default configuration: createBookmarks on).
# 3. (observation, not flagged) properties add/remove refuse `cmd - args` (stdin without an output
#    argument), every other command writes to stdout in that case.
# 4. import with an image on stdin and an outFile that does not exist yet always fails
#    ("import images: prepare PDF context: read context: invalid argument"): importImagesToFile hands a
#    nil *os.File to api.ImportImages as a non-nil io.ReadSeeker. `import - -` and the all-files form work.
#    (repair: /verif/.cache/patches/C41-import-stdin-image-new-outfile.diff)
set -u
REPO=${1:-/repo}
W=$(mktemp -d "${VERIF_CACHE:-/verif/.cache}/run/c41-repro.XXXXXX")
trap 'rm -rf "$W"' EXIT
(cd "$REPO" && "$GO125" build -buildvcs=false -o "$W/pdfcpu" ./cmd/pdfcpu) || exit 2
export HOME=$W XDG_CONFIG_HOME=$W TMPDIR=$W
cd "$W" && mkdir sb && cd sb
P="$W/pdfcpu --conf disable"
cp "$REPO/pkg/testdata/testImage.pdf" images.pdf
cp "$REPO/pkg/testdata/test.pdf" one.pdf
cp "$REPO/pkg/testdata/zineTest.pdf" multi.pdf
# a replacement image whose NAME encodes page 1, id Im1
img=repl_1_Im1.png
python3 - "$img" <<'PY'
import sys, zlib, struct
w, h = 259, 182   # dimensions of Im1 on page 1 of testImage.pdf
raw = b"".join(b"\0" + b"".join(bytes([(x + y) % 256, x % 256, y % 256]) for x in range(w)) for y in range(h))
def chunk(t, d): return struct.pack(">I", len(d)) + t + d + struct.pack(">I", zlib.crc32(t + d) & 0xffffffff)
open(sys.argv[1], "wb").write(b"\x89PNG\r\n\x1a\n" + chunk(b"IHDR", struct.pack(">IIBBBBB", w, h, 8, 2, 0, 0, 0)) + chunk(b"IDAT", zlib.compress(raw)) + chunk(b"IEND", b""))
PY

echo "== 1. images update, file form vs stream form"
$P images update images.pdf "$img" out.pdf >/dev/null 2>&1; echo "file form:   exit=$?"
$P images update - "$img" - < images.pdf > out2.pdf 2> err.txt; echo "stream form: exit=$? ($(tail -1 err.txt))"

echo "== 2. merge: file sources vs one stdin source (default config)"
$P merge m1.pdf one.pdf multi.pdf >/dev/null 2>&1
$P merge m2.pdf one.pdf - < multi.pdf >/dev/null 2>&1
echo "file form bookmarks:";  $P bookmarks list m1.pdf 2>/dev/null | head -3
echo "stdin form bookmarks:"; $P bookmarks list m2.pdf 2>&1 | tail -1

echo "== 3. properties add - 'k = v' (no output argument)"
$P properties add - 'Dept = QA' < one.pdf > p.pdf; echo "exit=$?"
$P keywords add - kw < one.pdf > k.pdf 2>/dev/null; echo "keywords add - kw: exit=$? ($(head -c 8 k.pdf))"

echo "== 4. import: image file vs the same image on stdin, new outFile"
cp "$REPO/pkg/testdata/resources/logoVerySmall.png" img.png
$P import i1.pdf img.png >/dev/null 2>&1; echo "file form:   exit=$?"
$P import i2.pdf - < img.png > /dev/null 2> err.txt; echo "stdin form:  exit=$? ($(tail -1 err.txt))"
$P import - - < img.png 2>/dev/null | head -c 8; echo "  <- import - - (stdout) works"
