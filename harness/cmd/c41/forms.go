package main

import (
	"strings"

	"verif/harness/internal/opcat"
)

// kind of result a stream-capable command produces.
type resKind int

const (
	pdfRes  resKind = iota // one PDF ({out} or stdout)
	jsonRes                // one JSON document ({out} or stdout)
	dirRes                 // files in a directory ({dir}); only the input may be a stream
	textRes                // a listing on stdout; only the input may be a stream
)

// sform is one stream-capable command form. Placeholders: {in} the PDF input (file name or "-"),
// {out} the output (file name or "-"), {dir} the output directory.
type sform struct {
	name  string
	leaf  string
	kind  resKind
	in    string   // fixture fed as the input ("" = the command has no stream input)
	needs []string // other fixtures
	args  []string
	// optOut: the output argument is optional and directly follows nothing else that must stay:
	// `cmd -` (input from stdin, no output named) writes to stdout. impl are the args of that form.
	impl     []string
	upw, opw string // passwords that open the OUTPUT (the comparison runs on decrypted copies)
	// pwFlag: the command takes --upw/--opw (wrong-password case feeds enc.pdf with a wrong password)
	noOutStream bool // the output cannot be "-" (only the input streams)
	generic     bool // works on any PDF with >= 1 page (thorough feeds corpus files)
	// inplaceOnly: the file form has no output argument and rewrites its input; with "-" as input the
	// result goes to stdout (attachments add/remove, portfolio add). Reference = the rewritten input.
	inplaceOnly bool
	// outViaDir: in the file form the single result lands in a directory: {out} names a directory
	// (extract -m page ... outDir) or a file inside {dir} (form multifill -m merge); "-" streams it.
	outViaDir bool
}

func split(s string) []string { return strings.Split(s, "|") }

func p(name, leaf, in, args, impl string, needs ...string) sform {
	f := sform{name: name, leaf: leaf, in: in, args: split(args), needs: needs}
	if impl != "" {
		f.impl = split(impl)
	}
	return f
}

func (f sform) with(mod func(*sform)) sform { mod(&f); return f }

const (
	one    = opcat.FxOne
	multi  = opcat.FxMulti
	wm     = opcat.FxWM
	enc    = opcat.FxEnc
	annot  = opcat.FxAnnot
	images = opcat.FxImages
	fonts  = opcat.FxFonts
	viewer = opcat.FxViewer
	boxes  = opcat.FxBoxes
	fform  = opcat.FxForm
	core   = opcat.FxCoreForm
	blank  = opcat.FxFormBlank
	signed = opcat.FxSigned
)

// streamForms: every command that pkg/cli routes through streamInOutForOperation /
// withStdinReadSeeker / readSeekerFromStdin (read off pkg/cli/*_exec.go and cmd/pdfcpu/*.go).
func streamForms() []sform {
	gen := func(f *sform) { f.generic = true }
	pw := func(f *sform) { f.upw, f.opw = opcat.UserPW, opcat.OwnerPW }
	dir := func(f *sform) { f.kind, f.noOutStream = dirRes, true }
	txt := func(f *sform) { f.kind, f.noOutStream = textRes, true }
	inpl := func(f *sform) { f.inplaceOnly = true }
	viaDir := func(f *sform) { f.outViaDir = true }
	return []sform{
		// ---- document
		p("optimize", "optimize", multi, "optimize|{in}|{out}", "optimize|{in}").with(gen),
		p("trim", "trim", multi, "trim|-p|1|{in}|{out}", "trim|-p|1|{in}").with(gen),
		p("collect", "collect", multi, "collect|-p|1,1|{in}|{out}", "collect|-p|1,1|{in}").with(gen),
		p("create/update", "create", one, "create|create.json|{in}|{out}", "", opcat.FxCreateJSON),
		p("create/new", "create", "", "create|create.json|{out}", "", opcat.FxCreateJSON),
		p("merge/create", "merge", "", "merge|-b=false|{out}|one.pdf|multi.pdf", "", one, multi),
		p("merge/create/stdin-source", "merge", multi, "merge|-b=false|{out}|one.pdf|{in}", "", one),
		p("merge/zip", "merge", "", "merge|-m|zip|{out}|multi.pdf|wm.pdf", "", multi, wm),
		p("split", "split", multi, "split|{in}|{dir}|3", "").with(dir),
		p("split/page", "split", multi, "split|-m|page|{in}|{dir}|3|6", "").with(dir),
		p("validate", "validate", multi, "validate|{in}", "").with(txt).with(gen),
		p("info", "info", multi, "info|{in}", "").with(txt).with(gen),

		// ---- pages
		p("pages/insert", "pages insert", multi, "pages|insert|-p|1|{in}|{out}", "pages|insert|-p|1|{in}").with(gen),
		p("pages/remove", "pages remove", multi, "pages|remove|-p|2|{in}|{out}", "pages|remove|-p|2|{in}"),
		p("rotate", "rotate", multi, "rotate|{in}|90|{out}", "rotate|{in}|90").with(gen),
		p("nup", "nup", multi, "nup|{out}|4|{in}", "").with(gen),
		p("grid", "grid", multi, "grid|{out}|1|2|{in}", "").with(gen),
		p("booklet", "booklet", multi, "booklet|{out}|4|{in}", "").with(gen),
		p("resize", "resize", multi, "resize|sc:.5|{in}|{out}", "resize|sc:.5|{in}").with(gen),
		p("zoom", "zoom", multi, "zoom|factor: .5|{in}|{out}", "zoom|factor: .5|{in}").with(gen),
		p("crop", "crop", multi, "crop|10|{in}|{out}", "crop|10|{in}").with(gen),
		p("boxes/add", "boxes add", multi, "boxes|add|trim:5|{in}|{out}", "boxes|add|trim:5|{in}").with(gen),
		p("boxes/remove", "boxes remove", boxes, "boxes|remove|crop,trim|{in}|{out}", "boxes|remove|crop,trim|{in}"),
		p("boxes/list", "boxes list", boxes, "boxes|list|{in}", "").with(txt),
		p("poster", "poster", one, "poster|f:A6|{in}|{dir}", "").with(dir),
		p("ndown", "ndown", one, "ndown|2|{in}|{dir}", "").with(dir),
		p("cut", "cut", one, "cut|hor:.5|{in}|{dir}", "").with(dir),

		// ---- content
		p("watermark/add", "watermark add", multi, "watermark|add|Draft|pos:c, rot:0|{in}|{out}", "watermark|add|Draft|pos:c, rot:0|{in}").with(gen),
		p("watermark/update", "watermark update", wm, "watermark|update|New|pos:tl|{in}|{out}", "watermark|update|New|pos:tl|{in}"),
		p("watermark/remove", "watermark remove", wm, "watermark|remove|{in}|{out}", "watermark|remove|{in}"),
		p("stamp/add", "stamp add", multi, "stamp|add|Confidential|pos:br, scale:.3|{in}|{out}", "stamp|add|Confidential|pos:br, scale:.3|{in}").with(gen),
		p("stamp/add/image", "stamp add", multi, "stamp|add|-m|image|img.png|pos:tr, scale:.2|{in}|{out}", "", opcat.FxImg),
		p("stamp/update", "stamp update", wm, "stamp|update|New|pos:tl|{in}|{out}", "stamp|update|New|pos:tl|{in}"),
		p("stamp/remove", "stamp remove", wm, "stamp|remove|{in}|{out}", "stamp|remove|{in}"),
		p("annotations/remove", "annotations remove", annot, "annotations|remove|{in}|{out}", "annotations|remove|{in}"),
		p("annotations/list", "annotations list", annot, "annotations|list|{in}", "").with(txt),
		p("bookmarks/export", "bookmarks export", multi, "bookmarks|export|{in}|{out}", "").with(func(f *sform) { f.kind = jsonRes }),
		p("bookmarks/import", "bookmarks import", multi, "bookmarks|import|-r|{in}|bookmarks.json|{out}", "bookmarks|import|-r|{in}|bookmarks.json", opcat.FxBMJSON),
		p("bookmarks/remove", "bookmarks remove", multi, "bookmarks|remove|{in}|{out}", "bookmarks|remove|{in}"),
		p("bookmarks/list", "bookmarks list", multi, "bookmarks|list|{in}", "").with(txt),
		p("pagelayout/set", "pagelayout set", multi, "pagelayout|set|{in}|TwoColumnLeft|{out}", "pagelayout|set|{in}|TwoColumnLeft").with(gen),
		p("pagelayout/reset", "pagelayout reset", viewer, "pagelayout|reset|{in}|{out}", "pagelayout|reset|{in}"),
		p("pagelayout/list", "pagelayout list", viewer, "pagelayout|list|{in}", "").with(txt),
		p("pagemode/set", "pagemode set", multi, "pagemode|set|{in}|UseOutlines|{out}", "pagemode|set|{in}|UseOutlines").with(gen),
		p("pagemode/reset", "pagemode reset", viewer, "pagemode|reset|{in}|{out}", "pagemode|reset|{in}"),
		p("pagemode/list", "pagemode list", viewer, "pagemode|list|{in}", "").with(txt),
		p("viewerpref/set", "viewerpref set", multi, "viewerpref|set|{in}|vp.json|{out}", "viewerpref|set|{in}|vp.json", opcat.FxVPJSON),
		p("viewerpref/reset", "viewerpref reset", viewer, "viewerpref|reset|{in}|{out}", "viewerpref|reset|{in}"),
		p("viewerpref/list", "viewerpref list", viewer, "viewerpref|list|{in}", "").with(txt),

		// ---- resources
		p("import", "import", "", "import|{out}|img.png|img2.jpg", "", opcat.FxImg, opcat.FxImg2),
		p("images/update", "images update", images, "images|update|{in}|repl_1_Im1.png|{out}", "", opcat.FxReplImg),
		p("images/update/objnr", "images update", images, "images|update|{in}|repl_1_Im1.png|{out}|7", "", opcat.FxReplImg),
		p("images/list", "images list", images, "images|list|{in}", "").with(txt),
		p("images/extract", "images extract", images, "images|extract|{in}|{dir}", "").with(dir),
		p("attachments/add", "attachments add", multi, "attachments|add|{in}|img.png", "", opcat.FxImg).with(inpl),
		p("attachments/remove", "attachments remove", multi, "attachments|remove|{in}|att.txt", "").with(inpl),
		p("attachments/list", "attachments list", multi, "attachments|list|{in}", "").with(txt),
		p("attachments/extract", "attachments extract", multi, "attachments|extract|{in}|{dir}", "").with(dir),
		p("portfolio/add", "portfolio add", multi, "portfolio|add|{in}|img.png", "", opcat.FxImg).with(inpl),
		p("keywords/add", "keywords add", multi, "keywords|add|{in}|{out}|gamma", "keywords|add|{in}|gamma").with(gen),
		p("keywords/remove", "keywords remove", multi, "keywords|remove|{in}|{out}|alpha", "keywords|remove|{in}|alpha"),
		p("keywords/list", "keywords list", multi, "keywords|list|{in}", "").with(txt),
		p("properties/add", "properties add", multi, "properties|add|{in}|{out}|Dept = QA", "properties|add|{in}|Dept = QA").with(gen),
		p("properties/remove", "properties remove", multi, "properties|remove|{in}|{out}|Project", "properties|remove|{in}|Project"),
		p("properties/list", "properties list", multi, "properties|list|{in}", "").with(txt),

		// ---- extract
		p("extract/page/stdout", "extract", multi, "extract|-m|page|-p|2|{in}|{out}", "").with(viaDir),
		p("extract/page", "extract", multi, "extract|-m|page|-p|2-3|{in}|{dir}", "").with(dir),
		p("extract/image", "extract", images, "extract|-m|image|{in}|{dir}", "").with(dir),
		p("extract/font", "extract", fonts, "extract|-m|font|{in}|{dir}", "").with(dir),
		p("extract/content", "extract", multi, "extract|-m|content|-p|1|{in}|{dir}", "").with(dir),
		p("extract/meta", "extract", signed, "extract|-m|meta|{in}|{dir}", "").with(dir),

		// ---- form
		p("form/fill", "form fill", blank, "form|fill|{in}|form.json|{out}", "", opcat.FxFormJSON),
		p("form/lock", "form lock", core, "form|lock|{in}|{out}", "form|lock|{in}"),
		p("form/unlock", "form unlock", fform, "form|unlock|{in}|{out}", "form|unlock|{in}"),
		p("form/reset", "form reset", core, "form|reset|{in}|{out}", "form|reset|{in}"),
		p("form/remove", "form remove", fform, "form|remove|{in}|{out}|dob1|firstName1", ""),
		p("form/list", "form list", fform, "form|list|{in}", "").with(txt),
		p("form/multifill/merge", "form multifill", blank, "form|multifill|-m|merge|{in}|multifill.json|{dir}|{out}", "", opcat.FxMultiJSON).with(viaDir),
		p("form/multifill", "form multifill", blank, "form|multifill|{in}|multifill.json|{dir}", "", opcat.FxMultiJSON).with(dir),

		// ---- security
		p("encrypt", "encrypt", multi, "encrypt|--upw|upw|--opw|opw|{in}|{out}", "encrypt|--upw|upw|--opw|opw|{in}").with(pw).with(gen),
		p("decrypt", "decrypt", enc, "decrypt|--upw|upw|--opw|opw|{in}|{out}", "decrypt|--upw|upw|--opw|opw|{in}"),
		p("changeupw", "changeupw", enc, "changeupw|--opw|opw|{in}|upw|u2|{out}", "changeupw|--opw|opw|{in}|upw|u2").with(func(f *sform) { f.upw, f.opw = "u2", opcat.OwnerPW }),
		p("changeopw", "changeopw", enc, "changeopw|--upw|upw|{in}|opw|o2|{out}", "changeopw|--upw|upw|{in}|opw|o2").with(func(f *sform) { f.upw, f.opw = opcat.UserPW, "o2" }),
		p("permissions/set", "permissions set", enc, "permissions|set|--perm|all|--upw|upw|--opw|opw|{in}|{out}", "permissions|set|--perm|all|--upw|upw|--opw|opw|{in}").with(pw),
		p("permissions/list", "permissions list", multi, "permissions|list|{in}", "").with(txt),
		p("signatures/remove", "signatures remove", signed, "signatures|remove|{in}|{out}", "signatures|remove|{in}"),
	}
}

// notStreaming: leaves with an inFile/outFile argument that, by the source, accept no "-" at all.
var notStreaming = map[string]string{
	"form export":           `outFileJSON must end in ".json"; "-" is rejected by the handler`,
	"certificates inspect":  "certificate files only",
	"certificates import":   "certificate files only",
	"signatures validate":   "reads stdin but validates signatures offline against the trust store; output is a report, driven in C27/C28",
	"portfolio remove":      "same handler as attachments remove (driven there)",
	"portfolio extract":     "same handler as attachments extract (driven there)",
	"portfolio list":        "same handler as attachments list (driven there)",
}

// notMultiStreaming: leaves taking a list of inputs that, by the source, accept no "-" among them.
var notMultiStreaming = map[string]string{
	"certificates import": "certificate files only",
}

// jform is one JSON-printing invocation.
type jform struct {
	name  string
	leaf  string
	args  []string // may contain {in}: the fixture name, or "-" in the stdin variant
	in    string
	needs []string
	stdin bool // also run with the input on stdin
}

func jsonForms() []jform {
	j := func(name, leaf, in, args string, stdin bool, needs ...string) jform {
		return jform{name: name, leaf: leaf, in: in, args: split(args), needs: needs, stdin: stdin}
	}
	return []jform{
		j("info", "info", multi, "info|--json|{in}", true),
		j("info/short-flag", "info", multi, "info|-j|{in}", false),
		j("info/fonts/pages", "info", fonts, "info|--json|--fonts|-p|1|{in}", true),
		j("info/two-files", "info", multi, "info|--json|{in}|one.pdf", false, one),
		j("info/encrypted", "info", enc, "info|--json|--upw|upw|{in}", true),
		j("annotations/list", "annotations list", annot, "annotations|list|--json|{in}", true),
		j("annotations/list/pages", "annotations list", annot, "annotations|list|-j|-p|1|{in}", false),
		j("annotations/list/none", "annotations list", one, "annotations|list|--json|{in}", false),
		j("viewerpref/list", "viewerpref list", viewer, "viewerpref|list|--json|{in}", true),
		j("viewerpref/list/all", "viewerpref list", viewer, "viewerpref|list|--json|--all|{in}", false),
		j("viewerpref/list/none", "viewerpref list", one, "viewerpref|list|-j|{in}", false),
		j("form/list", "form list", fform, "form|list|--json|{in}", true),
		j("form/list/two-files", "form list", fform, "form|list|--json|{in}|coreform.pdf", false, core),
		j("certificates/list", "certificates list", "", "certificates|list|--json", false),
		j("bookmarks/export/stdout", "bookmarks export", multi, "bookmarks|export|{in}|-", true),
	}
}

func subst(args []string, in, out, dir string) []string {
	res := make([]string, len(args))
	for i, a := range args {
		switch a {
		case "{in}":
			a = in
		case "{out}":
			a = out
		case "{dir}":
			a = dir
		}
		res[i] = a
	}
	return res
}

func hasPlaceholder(args []string, ph string) bool {
	for _, a := range args {
		if a == ph {
			return true
		}
	}
	return false
}
