package main

import (
	"bytes"
	"fmt"
	"math/rand/v2"
	"os"
	"path/filepath"
	"regexp"
	"sort"
	"strconv"

	"verif/harness/internal/pdfgen"
	"verif/harness/internal/vk"
)

// input is one document to be read.
type input struct {
	Name  string // stable within (seed, tier)
	Class string // corpus | objstm | gen | repair
	Data  []byte
	Chunk int // the counting reader returns at most Chunk bytes per Read (0: no limit)

	// measured by the baseline (uncancelled) read
	Reads, Seeks, Polls int64
}

func (in *input) ops() int64 { return in.Reads + in.Seeks }

// corpusInputs: the n largest corpus files plus m seeded picks among the others.
func corpusInputs(t *vk.T, n, m int) []*input {
	files, _ := filepath.Glob(filepath.Join(vk.RepoDir(), "pkg", "testdata", "*.pdf"))
	type fs struct {
		p string
		s int64
	}
	var l []fs
	for _, f := range files {
		if st, err := os.Stat(f); err == nil && st.Size() > 0 {
			l = append(l, fs{f, st.Size()})
		}
	}
	sort.Slice(l, func(i, j int) bool {
		if l[i].s != l[j].s {
			return l[i].s > l[j].s
		}
		return l[i].p < l[j].p
	})
	var pick []fs
	if n > len(l) {
		n = len(l)
	}
	pick = append(pick, l[:n]...)
	rest := l[n:]
	rng := t.RNG("corpus-pick")
	for i := 0; i < m && len(rest) > 0; i++ {
		j := rng.IntN(len(rest))
		pick = append(pick, rest[j])
		rest = append(rest[:j:j], rest[j+1:]...)
	}
	var out []*input
	for _, f := range pick {
		b, err := os.ReadFile(f.p)
		if err != nil {
			continue
		}
		out = append(out, &input{Name: "corpus/" + filepath.Base(f.p), Class: "corpus", Data: b})
	}
	return out
}

// objstmDoc: one page plus n small dictionaries, all eligible objects packed into object streams
// of at most perStream members (perStream >= n+8: one large object stream).
func objstmDoc(n, perStream int, plain bool) []byte {
	doc := pdfgen.NewDoc()
	pages := doc.Alloc()
	content := doc.Add(&pdfgen.Stream{Dict: pdfgen.D(), Data: []byte("BT /F1 12 Tf 72 720 Td (VERIF-C10) Tj ET\n")})
	fontRef := doc.Add(pdfgen.D("Type", pdfgen.Name("Font"), "Subtype", pdfgen.Name("Type1"), "BaseFont", pdfgen.Name("Helvetica")))
	page := doc.Add(pdfgen.D("Type", pdfgen.Name("Page"), "Parent", pages, "MediaBox", pdfgen.Rect(0, 0, 612, 792),
		"Contents", content, "Resources", pdfgen.D("Font", pdfgen.D("F1", fontRef))))
	doc.Put(pages, pdfgen.D("Type", pdfgen.Name("Pages"), "Kids", pdfgen.Array{page}, "Count", 1))
	var fill pdfgen.Array
	for i := 0; i < n; i++ {
		r := doc.Add(pdfgen.D("VerifFill", i, "S", pdfgen.String(fmt.Sprintf("filler-%06d", i)), "A", pdfgen.A(i, i+1, i+2), "N", pdfgen.D("K", pdfgen.Name("V"))))
		if i%64 == 0 {
			fill = append(fill, r)
		}
	}
	doc.SetRoot(doc.Add(pdfgen.D("Type", pdfgen.Name("Catalog"), "Pages", pages, "VerifFill", fill)))
	out := pdfgen.MustWrite(doc, pdfgen.Options{XRef: pdfgen.XRefStream, ObjStm: true, ObjStmMax: perStream, ObjStmPlain: plain, XRefStreamFlate: true})
	return out.Bytes
}

// classicDoc: many top-level objects and a classic xref table (base for repair inputs).
func classicDoc(n int, eol string) []byte {
	doc := pdfgen.NewDoc()
	pages := doc.Alloc()
	content := doc.Add(&pdfgen.Stream{Dict: pdfgen.D(), Data: []byte("BT /F1 12 Tf 72 720 Td (VERIF-C10) Tj ET\n")})
	fontRef := doc.Add(pdfgen.D("Type", pdfgen.Name("Font"), "Subtype", pdfgen.Name("Type1"), "BaseFont", pdfgen.Name("Helvetica")))
	page := doc.Add(pdfgen.D("Type", pdfgen.Name("Page"), "Parent", pages, "MediaBox", pdfgen.Rect(0, 0, 612, 792),
		"Contents", content, "Resources", pdfgen.D("Font", pdfgen.D("F1", fontRef))))
	doc.Put(pages, pdfgen.D("Type", pdfgen.Name("Pages"), "Kids", pdfgen.Array{page}, "Count", 1))
	var fill pdfgen.Array
	for i := 0; i < n; i++ {
		var r pdfgen.Ref
		if i%7 == 3 {
			r = doc.Add(&pdfgen.Stream{Dict: pdfgen.D("VerifFill", i), Data: bytes.Repeat([]byte{byte('a' + i%26)}, 100+i%900)})
		} else {
			r = doc.Add(pdfgen.D("VerifFill", i, "S", pdfgen.String(fmt.Sprintf("filler-%06d", i)), "A", pdfgen.A(i, i+1, i+2)))
		}
		if i%16 == 0 {
			fill = append(fill, r)
		}
	}
	doc.SetRoot(doc.Add(pdfgen.D("Type", pdfgen.Name("Catalog"), "Pages", pages, "VerifFill", fill)))
	out := pdfgen.MustWrite(doc, pdfgen.Options{XRef: pdfgen.XRefTable, EOL: eol, Version: "1.4"})
	return out.Bytes
}

var reStartXRef = regexp.MustCompile(`startxref[\r\n ]+(\d+)`)

// breakXRef returns variants of a classic-xref document whose cross-reference data cannot be used,
// so that pdfcpu has to rebuild the table by scanning the file. nil if b is not a classic file.
func breakXRef(b []byte) map[string][]byte {
	ms := reStartXRef.FindAllSubmatchIndex(b, -1)
	if len(ms) == 0 {
		return nil
	}
	m := ms[len(ms)-1]
	off, err := strconv.Atoi(string(b[m[2]:m[3]]))
	if err != nil || off <= 0 || off+4 > len(b) || string(b[off:off+4]) != "xref" {
		return nil
	}
	out := map[string][]byte{}
	// (a) the xref keyword is damaged
	v := append([]byte(nil), b...)
	copy(v[off:], "xrex")
	out["xref-keyword"] = v
	// (b) startxref points into the first object instead of the xref section
	v = append([]byte(nil), b[:m[2]]...)
	v = append(v, []byte(fmt.Sprintf("%0*d", m[3]-m[2], 17))...)
	v = append(v, b[m[3]:]...)
	out["startxref-wrong"] = v
	// (c) one subsection header of the table is garbage
	if i := bytes.IndexAny(b[off+4:], "0123456789"); i >= 0 {
		v = append([]byte(nil), b...)
		v[off+4+i] = 'x'
		out["xref-header"] = v
	}
	// (d) the file ends behind the last object: no xref, no trailer, no startxref
	out["tail-cut"] = append([]byte(nil), b[:off]...)
	return out
}

func isClassic(b []byte) bool { return breakXRef(b) != nil }

// buildInputs assembles the candidate inputs of this (seed, tier). Which of them are used is
// decided by the baseline read (inputs that do not read with a live context are left out).
func buildInputs(t *vk.T) []*input {
	var ins []*input
	// corpus
	corpus := corpusInputs(t, t.Pick(3, 30), t.Pick(8, 30))
	ins = append(ins, corpus...)

	// object streams
	rng := t.RNG("objstm")
	type os struct {
		n, per int
		plain  bool
		chunk  int
	}
	specs := []os{{20000, 30000, false, 0}, {6000, 20, false, 0}, {3000, 5, true, 0}, {12000, 100, true, 0}}
	if !t.Quick() {
		specs = append(specs, os{50000, 60000, false, 0}, os{50000, 60000, true, 0})
	}
	for i := 0; i < t.Pick(0, 12); i++ {
		n := 1000 + rng.IntN(40000)
		per := []int{1, 3, 10, 50, 200, n + 10}[rng.IntN(6)]
		if per == 1 && n > 5000 {
			n = 5000
		}
		specs = append(specs, os{n, per, rng.IntN(2) == 0, []int{0, 0, 0, 0}[rng.IntN(4)]})
	}
	for _, s := range specs {
		ins = append(ins, &input{Name: fmt.Sprintf("objstm/n=%d,per=%d,plain=%v,chunk=%d", s.n, s.per, s.plain, s.chunk), Class: "objstm",
			Data: objstmDoc(s.n, s.per, s.plain), Chunk: s.chunk})
	}

	// random generated documents (all cross-reference formats, incremental updates, filters)
	grng := t.RNG("gen")
	for i := 0; i < t.Pick(4, 20); i++ {
		spec := pdfgen.RandomSpec(grng, 40)
		bt := pdfgen.Build(spec)
		ins = append(ins, &input{Name: fmt.Sprintf("gen/%d/xref=%s,objstm=%v,updates=%d,pages=%d", i, spec.Write.XRef, spec.Write.ObjStm, spec.Updates, spec.Pages),
			Class: "gen", Data: bt.Bytes})
	}

	// documents whose xref must be repaired
	kinds := []string{"xref-keyword", "startxref-wrong", "xref-header", "tail-cut"}
	addRepair := func(base string, b []byte, only map[string]bool) {
		vs := breakXRef(b)
		for _, k := range kinds {
			if v, ok := vs[k]; ok && (only == nil || only[k]) {
				ins = append(ins, &input{Name: "repair/" + k + "/" + base, Class: "repair", Data: v})
			}
		}
	}
	addRepair("classic-n=1500-lf", classicDoc(1500, "\n"), nil)
	addRepair("classic-n=800-crlf", classicDoc(800, "\r\n"), map[string]bool{"xref-keyword": true, "tail-cut": true})
	nc := 0
	for _, c := range corpus {
		if nc >= t.Pick(3, 12) {
			break
		}
		if isClassic(c.Data) {
			k := kinds[nc%len(kinds)]
			addRepair(c.Name[len("corpus/"):], c.Data, map[string]bool{k: true, "xref-keyword": true})
			nc++
		}
	}
	// small broken documents (tens of Read calls): every Read of them is a cancel point (see main.go), so a
	// defect tied to one particular Read of the repair path - the one that loads a cross-reference stream,
	// the one that hits EOF while buffering a bogus xref object - is met deterministically
	addRepair("classic-n=12-lf", classicDoc(12, "\n"), nil)
	addRepair("classic-n=40-crlf", classicDoc(40, "\r\n"), nil)
	for i, xs := range smallXRefStreamDocs() {
		for k, v := range breakXRefStream(xs) {
			ins = append(ins, &input{Name: fmt.Sprintf("repair/%s/xrefstm-small-%d", k, i), Class: "repair", Data: v})
		}
	}
	if !t.Quick() {
		rrng := t.RNG("repair-gen")
		for i := 0; i < 8; i++ {
			addRepair(fmt.Sprintf("classic-%d", i), classicDoc(200+rrng.IntN(6000), []string{"\n", "\r\n", "\r"}[rrng.IntN(3)]), nil)
		}
	}
	return ins
}

// smallXRefStreamDocs: two small pdfgen documents written with a cross-reference stream (without and
// with object streams).
func smallXRefStreamDocs() [][]byte {
	var out [][]byte
	for _, objstm := range []bool{false, true} {
		spec := pdfgen.RandomSpec(rand.New(rand.NewPCG(77, 78)), 6)
		spec.Pages = 2
		spec.Updates = 0
		spec.Write.XRef = pdfgen.XRefStream
		spec.Write.ObjStm = objstm
		out = append(out, pdfgen.Build(spec).Bytes)
	}
	return out
}

// breakXRefStream damages a document whose last cross-reference section is a stream in the ways pdfcpu
// repairs by rebuilding the table from the file: startxref pointing elsewhere, the stream data cut short.
func breakXRefStream(b []byte) map[string][]byte {
	ms := reStartXRef.FindAllSubmatchIndex(b, -1)
	if len(ms) == 0 {
		return nil
	}
	m := ms[len(ms)-1]
	off, err := strconv.Atoi(string(b[m[2]:m[3]]))
	if err != nil || off <= 0 || off >= len(b) {
		return nil
	}
	out := map[string][]byte{}
	v := append([]byte(nil), b[:m[2]]...)
	v = append(v, []byte(fmt.Sprintf("%0*d", m[3]-m[2], 17))...)
	v = append(v, b[m[3]:]...)
	out["startxref-wrong"] = v
	// cut the encoded data of the xref stream short (keep /Length as it is): "corrupt xref stream"
	if i := bytes.Index(b[off:], []byte("stream")); i >= 0 {
		d := off + i + len("stream")
		for d < len(b) && (b[d] == '\r' || b[d] == '\n') {
			d++
		}
		if e := bytes.Index(b[d:], []byte("endstream")); e > 8 {
			v = append([]byte(nil), b[:d+e/2]...)
			v = append(v, b[d+e:]...)
			out["xrefstream-short"] = v
		}
	}
	return out
}
