// Stand-alone reproducer for the C10 findings (run: cd /verif/harness && $GO125 test -count=1 -v ./cmd/c10/repro).
// It fails on a tree where a cancelled read keeps scanning the input.
package repro

import (
	"bytes"
	"context"
	"errors"
	"os"
	"path/filepath"
	"testing"

	"github.com/pdfcpu/pdfcpu/pkg/api"
	"github.com/pdfcpu/pdfcpu/pkg/pdfcpu"
	"github.com/pdfcpu/pdfcpu/pkg/pdfcpu/model"
)

type rs struct {
	*bytes.Reader
	reads, ops, after, cancelAt int
	cancel                      context.CancelFunc
	fired                       bool
}

func (r *rs) count() {
	if r.fired {
		r.after++
	}
	r.ops++
}
func (r *rs) Read(p []byte) (int, error) {
	r.count()
	r.reads++
	if r.reads == r.cancelAt {
		r.fired = true
		r.cancel()
	}
	return r.Reader.Read(p)
}
func (r *rs) Seek(o int64, w int) (int64, error) { r.count(); return r.Reader.Seek(o, w) }

func repo() string {
	if d := os.Getenv("VERIF_REPO"); d != "" {
		return d
	}
	return "/repo"
}

func read(t *testing.T, b []byte, cancelAt int) (total, after int, err error) {
	api.DisableConfigDir()
	c, cancel := context.WithCancel(context.Background())
	defer cancel()
	r := &rs{Reader: bytes.NewReader(b), cancelAt: cancelAt, cancel: cancel}
	if cancelAt == 0 { // pre-cancelled
		cancel()
		r.fired = true
	}
	conf := model.NewDefaultConfiguration()
	conf.Offline = true
	doc, err := pdfcpu.ReadWithContext(c, r, conf)
	if cancelAt >= 0 && (doc != nil || !errors.Is(err, context.Canceled)) {
		t.Errorf("doc=%v err=%v", doc != nil, err)
	}
	return r.ops, r.after, err
}

// A valid xref-stream document: cancelling inside the xref stream parse must not start the xref repair scan.
func TestCancelDuringXRefStreamDoesNotStartRepair(t *testing.T) {
	b, err := os.ReadFile(filepath.Join(repo(), "pkg/testdata/BuildingWebappsWithGo.pdf"))
	if err != nil {
		t.Fatal(err)
	}
	total, _, err := read(t, b, -1)
	if err != nil {
		t.Fatal(err)
	}
	_, after, err := read(t, b, 3)
	t.Logf("uncancelled read: %d reader operations; cancelled in Read #3: %d operations after the cancel, err=%v", total, after, err)
	if after > 32 {
		t.Errorf("%d reader operations after the cancel (whole uncancelled read: %d)", after, total)
	}
}

func brokenXRef(t *testing.T) []byte {
	b, err := os.ReadFile(filepath.Join(repo(), "pkg/testdata/text_annotations.pdf"))
	if err != nil {
		t.Fatal(err)
	}
	i := bytes.LastIndex(b, []byte("\nxref"))
	if i < 0 {
		t.Skip("no classic xref")
	}
	b = append([]byte(nil), b...)
	copy(b[i+1:], "xrex")
	return b
}

// A document whose xref has to be rebuilt: a cancel during the rebuild must end it.
func TestCancelDuringXRefRepairStopsRepair(t *testing.T) {
	b := brokenXRef(t)
	total, _, err := read(t, b, -1)
	if err != nil {
		t.Fatal(err)
	}
	_, after, err := read(t, b, 20)
	t.Logf("uncancelled read: %d reader operations; cancelled in Read #20: %d operations after the cancel, err=%v", total, after, err)
	if after > 32 {
		t.Errorf("%d reader operations after the cancel (whole uncancelled read: %d)", after, total)
	}
}

// The same document with an already cancelled context: nothing should be scanned.
func TestPreCancelledDoesNotScanForRepair(t *testing.T) {
	b := brokenXRef(t)
	b = b[:bytes.LastIndex(b, []byte("xrex"))] // no xref, trailer, startxref at all
	total, _, err := read(t, b, -1)
	if err != nil {
		t.Skipf("variant does not read: %v", err)
	}
	_, after, err := read(t, b, 0)
	t.Logf("uncancelled read: %d reader operations; pre-cancelled: %d operations, err=%v", total, after, err)
	if after > 32 {
		t.Errorf("%d reader operations under a cancelled context (whole uncancelled read: %d)", after, total)
	}
}
