// C10 — cancelling a read stops it promptly with the cancellation error.
//
// The real pdfcpu.ReadWithContext / ReadFileWithContext are run on corpus documents, generated
// documents with large / many object streams and documents whose cross-reference data is broken
// (pdfcpu's xref repair runs). The input is a counting io.ReadSeeker; the context counts Err() polls.
//
//	precancel  the context is cancelled (or past its deadline) before the call: no document and an
//	           error matching the context's error.
//	midread    the context is cancelled synchronously inside the reader's k-th Read (a deterministic
//	           schedule point): the read either finishes or returns no document and the context's
//	           error; reader operations after the cancel point <= max(32, 2 % of an uncancelled read).
//	async      (-race) another goroutine cancels after a seeded number of reader operations (or a real
//	           timer fires): same outcome rule, and the race detector's log must stay empty.
//
// The worker re-executes itself once as a vk shard with GORACE=log_path=…; the parent parses the log.
package main

import (
	"bytes"
	"context"
	"encoding/json"
	"errors"
	"fmt"
	"io"
	"os"
	"path/filepath"
	"runtime"
	"sort"
	"strings"
	"sync"
	"sync/atomic"
	"time"

	"github.com/pdfcpu/pdfcpu/pkg/api"
	"github.com/pdfcpu/pdfcpu/pkg/pdfcpu"
	"github.com/pdfcpu/pdfcpu/pkg/pdfcpu/model"
	"verif/harness/internal/racelog"
	"verif/harness/internal/vk"
)

// ---------------------------------------------------------------------------------------------
// instruments

// countingRS counts Read/Seek calls and fires hook inside its k-th Read (before reading).
type countingRS struct {
	r        *bytes.Reader
	chunk    int
	reads    int64
	seeks    int64
	fireRead int64 // fire inside this Read (1-based); 0: never
	fireOp   int64 // or: fire inside this operation (Read or Seek, 1-based); 0: never
	hook     func()
	fired    bool
	after    int64 // operations started after the hook fired
}

func (c *countingRS) op(isRead bool) {
	if c.fired {
		c.after++
	}
	if isRead {
		c.reads++
	} else {
		c.seeks++
	}
	if !c.fired && c.hook != nil && ((isRead && c.fireRead > 0 && c.reads == c.fireRead) || (c.fireOp > 0 && c.reads+c.seeks == c.fireOp)) {
		c.fired = true
		c.hook()
	}
}

func (c *countingRS) Read(p []byte) (int, error) {
	c.op(true)
	if c.chunk > 0 && len(p) > c.chunk {
		p = p[:c.chunk]
	}
	return c.r.Read(p)
}

func (c *countingRS) Seek(off int64, whence int) (int64, error) {
	c.op(false)
	return c.r.Seek(off, whence)
}

// manualCtx is a context whose cancellation is fired by the harness with a chosen error
// (context.DeadlineExceeded cannot be produced synchronously with the standard constructors).
type manualCtx struct {
	mu   sync.Mutex
	done chan struct{}
	err  error
}

func newManualCtx() *manualCtx { return &manualCtx{done: make(chan struct{})} }

func (m *manualCtx) Deadline() (time.Time, bool) { return time.Time{}, false }
func (m *manualCtx) Done() <-chan struct{}       { return m.done }
func (m *manualCtx) Value(any) any               { return nil }
func (m *manualCtx) Err() error {
	m.mu.Lock()
	defer m.mu.Unlock()
	return m.err
}
func (m *manualCtx) fire(err error) {
	m.mu.Lock()
	defer m.mu.Unlock()
	if m.err == nil {
		m.err = err
		close(m.done)
	}
}

// pollCtx counts Err() polls, and those answered with a non-nil error.
type pollCtx struct {
	context.Context
	polls    atomic.Int64
	positive atomic.Int64
}

func (p *pollCtx) Err() error {
	p.polls.Add(1)
	err := p.Context.Err()
	if err != nil {
		p.positive.Add(1)
	}
	return err
}

func newConf() *model.Configuration {
	conf := model.NewDefaultConfiguration()
	conf.Offline = true
	return conf
}

type outcome struct {
	doc      *model.Context
	err      error
	panicVal any
	panicAt  string
}

func guardedRead(c context.Context, rs io.ReadSeeker) (o outcome) {
	defer func() {
		if r := recover(); r != nil {
			o.doc, o.err, o.panicVal, o.panicAt = nil, nil, r, pdfcpuFrame()
		}
	}()
	o.doc, o.err = pdfcpu.ReadWithContext(c, rs, newConf())
	return o
}

func guardedReadFile(c context.Context, path string) (o outcome) {
	defer func() {
		if r := recover(); r != nil {
			o.doc, o.err, o.panicVal, o.panicAt = nil, nil, r, pdfcpuFrame()
		}
	}()
	o.doc, o.err = pdfcpu.ReadFileWithContext(c, path, newConf())
	return o
}

// pdfcpuFrame names the innermost pdfcpu function on the current (panicking) stack.
func pdfcpuFrame() string {
	pc := make([]uintptr, 64)
	n := runtime.Callers(3, pc)
	fr := runtime.CallersFrames(pc[:n])
	for {
		f, more := fr.Next()
		if strings.Contains(f.Function, "github.com/pdfcpu/pdfcpu/pkg/") {
			return strings.TrimPrefix(f.Function, "github.com/pdfcpu/pdfcpu/")
		}
		if !more {
			return "unknown"
		}
	}
}

// ---------------------------------------------------------------------------------------------
// cases

type kase struct {
	Mode  string `json:"mode"`  // precancel | midread | async
	Input string `json:"input"` // input name
	Class string `json:"class"`
	Kind  string `json:"kind"`  // cancel | deadline | timer
	Point string `json:"point"` // label of the cancel point
	K     int64  `json:"k"`     // Read index (midread) / operation index (async)
	Entry string `json:"entry"` // ReadWithContext | ReadFileWithContext
	Spin  int    `json:"spin,omitempty"`
	US    int    `json:"us,omitempty"`
}

type points struct {
	label string
	k     int64
}

func cancelPoints(reads int64) []points {
	raw := []points{{"1", 1}, {"2", 2}, {"3", 3}, {"5", 5},
		{"10%", reads / 10}, {"25%", reads / 4}, {"50%", reads / 2}, {"75%", reads * 3 / 4}, {"90%", reads * 9 / 10}, {"last", reads}}
	var out []points
	for _, p := range raw {
		if p.k < 1 {
			p.k = 1
		}
		if p.k > reads {
			p.k = reads
		}
		out = append(out, p)
	}
	return out
}

func bound(total int64) int64 {
	b := total / 50
	if b < 32 {
		b = 32
	}
	return b
}

type env struct {
	t      *vk.T
	inputs map[string]*input
	fileOf map[string]string
}

// judge applies the outcome rule shared by midread and async: finished (document, nil error), or
// no document and an error matching the context's error.
func (e *env) judge(k kase, o outcome, ctxErr error) {
	t := e.t
	pre := fmt.Sprintf("mode=%s/input=%s/", k.Mode, k.Class)
	what := func(s string) string {
		return fmt.Sprintf("%s (%s, entry %s, kind %s, point %s k=%d): %s", k.Mode, k.Input, k.Entry, k.Kind, k.Point, k.K, s)
	}
	switch {
	case o.panicVal != nil:
		t.Count("pdfcpu_panics", 1)
		t.Violate(pre+"class=panic/"+o.panicAt, what(fmt.Sprintf("panic instead of a result: %v", o.panicVal)), k)
	case o.err == nil && o.doc != nil:
		t.Count("outcome_finished", 1)
	case o.err == nil && o.doc == nil:
		t.Violate(pre+"class=nil-doc-nil-error", what("returned neither a document nor an error"), k)
	case ctxErr == nil:
		// an error although the context was never cancelled (the input reads fine with a live context)
		t.Violate(pre+"class=error-without-cancel", what("failed although the context was not cancelled: "+o.err.Error()), k)
	case !errors.Is(o.err, ctxErr):
		t.Violate(pre+"class=wrong-error", what(fmt.Sprintf("error %q does not match the context's error %q", o.err.Error(), ctxErr.Error())), k)
	case o.doc != nil:
		t.Violate(pre+"class=non-nil-doc", what("a document was returned together with the cancellation error"), k)
	default:
		t.Count("outcome_ctx_error", 1)
	}
}

func (e *env) precancel(k kase) {
	t := e.t
	in := e.inputs[k.Input]
	var c context.Context
	var want error
	switch k.Kind {
	case "cancel":
		cc, cancel := context.WithCancel(context.Background())
		cancel()
		c, want = cc, context.Canceled
	case "deadline":
		cc, cancel := context.WithDeadline(context.Background(), time.Unix(1, 0))
		defer cancel()
		c, want = cc, context.DeadlineExceeded
	}
	pc := &pollCtx{Context: c}
	var o outcome
	rs := &countingRS{r: bytes.NewReader(in.Data)}
	if k.Entry == "ReadFileWithContext" {
		o = guardedReadFile(pc, e.fileOf[k.Input])
	} else {
		o = guardedRead(pc, rs)
	}
	t.Eval(fmt.Sprintf("precancel/%s/%s/%s", k.Input, k.Kind, k.Entry))
	t.Count("precancel_cases", 1)
	t.Count("precancel_reader_ops", rs.reads+rs.seeks)
	pre := fmt.Sprintf("mode=precancel/input=%s/", k.Class)
	what := func(s string) string {
		return fmt.Sprintf("precancel (%s, entry %s, kind %s): %s", k.Input, k.Entry, k.Kind, s)
	}
	switch {
	case o.panicVal != nil:
		t.Count("pdfcpu_panics", 1)
		t.Violate(pre+"class=panic/"+o.panicAt, what(fmt.Sprintf("panic: %v", o.panicVal)), k)
	case o.doc != nil:
		t.Violate(pre+"class=non-nil-doc", what(fmt.Sprintf("a document was built (err=%v)", o.err)), k)
	case o.err == nil:
		t.Violate(pre+"class=nil-error", what("no error"), k)
	case !errors.Is(o.err, want):
		t.Violate(pre+"class=wrong-error", what(fmt.Sprintf("error %q does not match %q", o.err.Error(), want.Error())), k)
	}
	// The property asks nothing about the work done under an already cancelled context (only the
	// error and the absence of a document); the reader operations are recorded as an observation.
	maxi(&maxPre, rs.reads+rs.seeks)
}

func (e *env) midread(k kase) {
	t := e.t
	in := e.inputs[k.Input]
	var c context.Context
	var fire func()
	switch k.Kind {
	case "cancel":
		cc, cancel := context.WithCancel(context.Background())
		c, fire = cc, cancel
	case "deadline":
		mc := newManualCtx()
		c, fire = mc, func() { mc.fire(context.DeadlineExceeded) }
	}
	pc := &pollCtx{Context: c}
	rs := &countingRS{r: bytes.NewReader(in.Data), chunk: in.Chunk, fireRead: k.K, hook: fire}
	o := guardedRead(pc, rs)
	fire() // release resources if the hook was never reached
	t.Eval(fmt.Sprintf("midread/%s/%s/%s", k.Input, k.Kind, k.Point))
	t.Count("midread_cases", 1)
	if !rs.fired {
		t.Inconclusive("midread-cancel-point-not-reached/" + k.Class)
		return
	}
	t.Count("midread_ops_after_cancel", rs.after)
	t.Count("midread_polls_after_cancel", pc.positive.Load())
	maxi(&maxAfter, rs.after)
	maxi(&maxPolls, pc.positive.Load())
	e.judge(k, o, c.Err())
	if os.Getenv("VERIF_C10_DEBUG") != "" {
		fmt.Fprintf(os.Stderr, "DEBUG midread %-60s %-8s %-5s k=%-6d reads=%-6d ops=%-6d after=%-6d polls+=%-5d err=%v\n", k.Input, k.Kind, k.Point, k.K, in.Reads, in.ops(), rs.after, pc.positive.Load(), o.err)
	}
	pre := fmt.Sprintf("mode=midread/input=%s/", k.Class)
	if b := bound(in.ops()); rs.after > b {
		t.Violate(pre+"class=work-after-cancel",
			fmt.Sprintf("midread (%s, kind %s, point %s: cancel inside Read #%d of %d): %d reader operations after the cancel (uncancelled read: %d operations, bound %d); result err=%v",
				k.Input, k.Kind, k.Point, k.K, in.Reads, rs.after, in.ops(), b, o.err), k)
	}
	// every positive poll is a delivered stop request; code that keeps polling after having been told
	// to stop is swallowing the cancellation (the bound is the reader-operation bound).
	if b := bound(in.Polls); pc.positive.Load() > b {
		t.Violate(pre+"class=cancel-seen-but-continued",
			fmt.Sprintf("midread (%s, kind %s, point %s): the context answered %d polls with its error before the read returned (uncancelled read polls %d times, bound %d); result err=%v",
				k.Input, k.Kind, k.Point, pc.positive.Load(), in.Polls, b, o.err), k)
	}
}

var maxAfter, maxPolls, maxPre atomic.Int64

func maxi(a *atomic.Int64, v int64) {
	for {
		o := a.Load()
		if v <= o || a.CompareAndSwap(o, v) {
			return
		}
	}
}

func (e *env) async(k kase) {
	t := e.t
	in := e.inputs[k.Input]
	var c context.Context
	var cancel context.CancelFunc
	trig := make(chan struct{})
	var wg sync.WaitGroup
	rs := &countingRS{r: bytes.NewReader(in.Data), chunk: in.Chunk, fireOp: k.K}
	switch k.Kind {
	case "cancel":
		c, cancel = context.WithCancel(context.Background())
		rs.hook = func() { close(trig) }
		wg.Add(1)
		go func() {
			defer wg.Done()
			<-trig
			for i := 0; i < k.Spin; i++ {
				runtime.Gosched()
			}
			cancel()
		}()
	case "timer":
		// a real runtime timer cancels; wall-clock only spreads the cancel point, it decides nothing
		rs.hook = func() {}
		c, cancel = context.WithTimeout(context.Background(), time.Duration(k.US)*time.Microsecond)
	default:
		c, cancel = context.WithCancel(context.Background())
	}
	defer cancel()
	var o outcome
	if k.Entry == "ReadFileWithContext" {
		if k.Kind == "cancel" {
			close(trig)
		}
		o = guardedReadFile(c, e.fileOf[k.Input])
	} else {
		o = guardedRead(c, rs)
	}
	if k.Kind == "cancel" && !rs.fired && k.Entry != "ReadFileWithContext" {
		close(trig)
	}
	wg.Wait()
	ctxErr := c.Err()
	if k.Kind == "timer" {
		// the timer may fire between the return and this line
		if o.err == nil {
			ctxErr = nil
		}
	}
	t.Eval(fmt.Sprintf("async/%s/%s/%d", k.Input, k.Kind, k.K))
	t.Count("async_cases", 1)
	if o.err == nil && o.doc != nil {
		// finished before the cancel was seen
		t.Count("async_finished", 1)
		t.Count("outcome_finished", 1)
		return
	}
	e.judge(k, o, ctxErr)
}

// ---------------------------------------------------------------------------------------------

//go:noinline
func raceCanary() {
	// two goroutines, no synchronisation between their writes: the detector must report it.
	var x int
	var wg sync.WaitGroup
	for g := 0; g < 2; g++ {
		wg.Add(1)
		go func() { defer wg.Done(); canaryWrite(&x) }()
	}
	wg.Wait()
}

//go:noinline
func canaryWrite(p *int) {
	for i := 0; i < 100; i++ {
		*p = i
	}
}

func main() {
	vk.Run("C10", "exploration", func(t *vk.T) {
		api.DisableConfigDir()
		if t.Replay != nil || t.IsShard() {
			work(t)
			return
		}
		t.Rule("case = (mode, input, cancel kind, cancel point); precancel: 2 kinds x 2 entry points per input; midread: cancel/deadline fired synchronously inside the k-th Read of the counting reader, k in {1,2,3,5,10,25,50,75,90 %,last} of the uncancelled read's Read calls (every k when the read takes <= 64 Read calls, <= 120 for broken-xref documents); async: a goroutine (or a real timer) cancels after a seeded reader operation, under -race; non-trivial = distinct (mode, input, kind, point)")
		t.Assume("\"promptly\" is measured in reader operations after the cancel point (<= max(32, 2 % of the uncancelled read)), not in time; CPU-only work between two reader operations is not bounded by this check")
		t.Assume("inputs that do not read with a live context are left out (the property's error clause is about inputs that would read)")
		t.Assume("the deadline kind of the synchronous mode uses a harness context.Context implementation whose Err() becomes context.DeadlineExceeded inside the Read call")
		if !raceEnabled {
			t.Inconclusive("race-detector-off (worker built without -race: add 'C10 race' to props.conf)")
			work(t)
			return
		}
		prefix := filepath.Join(t.Scratch(), "race")
		t.RunShards(1, racelog.Env(prefix), "VERIF_C10_CANARY=1")
		blocks, err := racelog.Read(prefix)
		if err != nil {
			t.Broken("race log: %v", err)
		}
		canary := 0
		seen := map[string]bool{}
		for _, b := range blocks {
			if b.HasFunc("main.canaryWrite") {
				canary++
				continue
			}
			t.Count("race_blocks", 1)
			key := "mode=async/race/" + b.Key()
			if !seen[key] {
				seen[key] = true
				t.Violate(key, "DATA RACE between a cancelled read and the canceller (site "+b.Site()+"): "+b.Text, map[string]string{"site": b.Site(), "report": b.Text})
			}
		}
		t.Count("race_canary_blocks", int64(canary))
		if canary == 0 {
			t.Broken("the race detector's log did not show the canary race: the race oracle is dead (log prefix %s)", prefix)
		}
	})
}

func work(t *vk.T) {
	if os.Getenv("VERIF_C10_CANARY") != "" {
		raceCanary()
	}
	e := &env{t: t, inputs: map[string]*input{}, fileOf: map[string]string{}}
	cands := buildInputs(t)

	// baseline: uncancelled read with the counting instruments
	var mu sync.Mutex
	var ins []*input
	vk.Parallel(len(cands), func(i int) {
		in := cands[i]
		pc := &pollCtx{Context: context.Background()}
		rs := &countingRS{r: bytes.NewReader(in.Data), chunk: in.Chunk}
		o := guardedRead(pc, rs)
		if o.panicVal != nil {
			t.Count("pdfcpu_panics", 1)
		}
		if o.err != nil || o.doc == nil {
			t.Count("inputs_left_out_baseline_fails/"+in.Class, 1)
			return
		}
		in.Reads, in.Seeks, in.Polls = rs.reads, rs.seeks, pc.polls.Load()
		mu.Lock()
		ins = append(ins, in)
		mu.Unlock()
	})
	sort.Slice(ins, func(i, j int) bool { return ins[i].Name < ins[j].Name })
	perClass := map[string]int{}
	for _, in := range ins {
		e.inputs[in.Name] = in
		perClass[in.Class]++
		t.Count("inputs/"+in.Class, 1)
		t.Count("baseline_reader_ops", in.ops())
		t.Count("baseline_ctx_polls", in.Polls)
	}
	for _, c := range []string{"corpus", "objstm", "gen", "repair"} {
		if perClass[c] == 0 {
			t.Broken("no usable input of class %s", c)
		}
	}
	// files for ReadFileWithContext
	dir := filepath.Join(t.Scratch(), "in")
	_ = os.MkdirAll(dir, 0o755)
	for i, in := range ins {
		p := filepath.Join(dir, fmt.Sprintf("in%03d.pdf", i))
		if err := os.WriteFile(p, in.Data, 0o644); err != nil {
			t.Broken("scratch: %v", err)
		}
		e.fileOf[in.Name] = p
	}

	var cases []kase
	for inIdx, in := range ins {
		for _, kind := range []string{"cancel", "deadline"} {
			for _, entry := range []string{"ReadWithContext", "ReadFileWithContext"} {
				cases = append(cases, kase{Mode: "precancel", Input: in.Name, Class: in.Class, Kind: kind, Entry: entry})
			}
		}
		pts := cancelPoints(in.Reads)
		if in.Reads <= 64 || (in.Class == "repair" && in.Reads <= 120) {
			// short reads (small and broken-xref documents): every Read call is a cancel point in both tiers,
			// so a defect that needs the cancel in one particular Read (e.g. the one that loads an xref
			// stream, or the one that hits EOF while buffering) cannot fall between the standard points
			have := map[int64]bool{}
			for _, p := range pts {
				have[p.k] = true
			}
			for k := int64(1); k <= in.Reads; k++ {
				if !have[k] {
					pts = append(pts, points{fmt.Sprintf("k%d", k), k})
				}
			}
		}
		if !t.Quick() {
			// 30 more seeded points
			rng := t.RNG("points/" + in.Name)
			for i := 0; i < 30; i++ {
				k := 1 + rng.Int64N(in.Reads)
				pts = append(pts, points{fmt.Sprintf("r%d", i), k})
			}
		}
		for j, p := range pts {
			kinds := []string{"cancel", "deadline"}
			if t.Quick() || j >= 10 {
				kinds = kinds[(j+inIdx)%2 : (j+inIdx)%2+1]
			}
			for _, kind := range kinds {
				cases = append(cases, kase{Mode: "midread", Input: in.Name, Class: in.Class, Kind: kind, Point: p.label, K: p.k, Entry: "ReadWithContext"})
			}
		}
	}
	arng := t.RNG("async")
	for i := 0; i < t.Pick(100, 1500); i++ {
		in := ins[arng.IntN(len(ins))]
		k := kase{Mode: "async", Input: in.Name, Class: in.Class, Kind: "cancel", Entry: "ReadWithContext", Point: "seeded"}
		k.K = 1 + arng.Int64N(in.ops())
		k.Spin = []int{0, 0, 1, 3, 10, 50}[arng.IntN(6)]
		switch arng.IntN(8) {
		case 0, 1:
			k.Kind, k.US = "timer", 20+arng.IntN(20000)
		case 2:
			k.Entry = "ReadFileWithContext"
		}
		cases = append(cases, k)
	}

	if t.Replay != nil {
		var k kase
		if err := json.Unmarshal(t.Replay.Case, &k); err != nil {
			t.Broken("replay case: %v", err)
		}
		if _, ok := e.inputs[k.Input]; !ok {
			t.Broken("replay: input %q is not part of this (seed, tier)", k.Input)
		}
		e.run(k)
		t.Eval("replay")
		return
	}

	vk.Parallel(len(cases), func(i int) { e.run(cases[i]) })
	t.Count("midread_max_ops_after_cancel", maxAfter.Load())
	t.Count("midread_max_polls_after_cancel", maxPolls.Load())
	t.Count("precancel_max_reader_ops", maxPre.Load())
	for i, in := range ins {
		if i%7 == 0 {
			t.Sample(map[string]any{"input": in.Name, "bytes": len(in.Data), "reads": in.Reads, "seeks": in.Seeks, "ctx_polls": in.Polls, "bound_ops_after_cancel": bound(in.ops())})
		}
	}
}

func (e *env) run(k kase) {
	if os.Getenv("VERIF_C10_DEBUG") != "" {
		st := time.Now()
		defer func() {
			fmt.Fprintf(os.Stderr, "TIME %8.1fms %s %s %s %s k=%d\n", float64(time.Since(st).Microseconds())/1000, k.Mode, k.Input, k.Kind, k.Point, k.K)
		}()
	}
	switch k.Mode {
	case "precancel":
		e.precancel(k)
	case "midread":
		e.midread(k)
	case "async":
		e.async(k)
	}
}
