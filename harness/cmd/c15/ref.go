package main

// Reference encoders/decoders (same code as cmd/c16/ref.go; worker packages cannot share files):
// RunLength and ASCIIHex written from PDF 32000-1 7.4.2 / 7.4.5, ASCII85 and Flate from the
// standard library, LZW and predictors from harness/internal/ref.

import (
	"bytes"
	"compress/zlib"
	"encoding/ascii85"
	"errors"
	"fmt"
	"io"
	"math/rand/v2"

	"github.com/pdfcpu/pdfcpu/pkg/filter"
	reflzw "verif/harness/internal/ref/lzw"
	"verif/harness/internal/ref/predictor"
)

type stage struct {
	Name  string         `json:"name"`
	Parms map[string]int `json:"parms,omitempty"`
}

func (s stage) params() predictor.Params {
	p := predictor.Params{Predictor: 1, Colors: 1, BPC: 8, Columns: 1}
	if v, ok := s.Parms["Predictor"]; ok {
		p.Predictor = v
	}
	if v, ok := s.Parms["Colors"]; ok {
		p.Colors = v
	}
	if v, ok := s.Parms["BitsPerComponent"]; ok {
		p.BPC = v
	}
	if v, ok := s.Parms["Columns"]; ok {
		p.Columns = v
	}
	return p
}

func (s stage) earlyChange() int {
	if v, ok := s.Parms["EarlyChange"]; ok && v == 0 {
		return 0
	}
	return 1
}

// class is the short name used in violation keys and counters.
func (s stage) class() string {
	n := map[string]string{filter.ASCII85: "a85", filter.ASCIIHex: "ahx", filter.RunLength: "rl", filter.LZW: "lzw", filter.Flate: "flate"}[s.Name]
	switch p := s.params(); {
	case p.Predictor == 2:
		n += "(tiff)"
	case p.Predictor >= 10:
		n += "(png)"
	}
	return n
}

// ---- RunLength (7.4.5): length 0..127 copy next length+1 bytes, 129..255 repeat next byte 257-length times, 128 EOD

func rlDecode(in []byte) ([]byte, error) {
	var out []byte
	for i := 0; i < len(in); {
		l := int(in[i])
		i++
		switch {
		case l == 128:
			return out, nil
		case l < 128:
			if i+l+1 > len(in) {
				return nil, errors.New("runlength: literal run cut short")
			}
			out = append(out, in[i:i+l+1]...)
			i += l + 1
		default:
			if i >= len(in) {
				return nil, errors.New("runlength: repeat run cut short")
			}
			out = append(out, bytes.Repeat(in[i:i+1], 257-l)...)
			i++
		}
	}
	return nil, errors.New("runlength: no EOD")
}

// rlEncode variants: 0 literal blocks only, 1 greedy runs, 2 random chunking.
func rlEncode(data []byte, variant int, rng *rand.Rand) []byte {
	var out []byte
	for i := 0; i < len(data); {
		run := 1
		for i+run < len(data) && data[i+run] == data[i] && run < 128 {
			run++
		}
		useRun := run >= 2 && variant != 0
		if variant == 2 {
			if useRun && rng.IntN(3) == 0 {
				useRun = false
			}
			if useRun {
				run = 2 + rng.IntN(run-1)
			}
		}
		if useRun {
			out = append(out, byte(257-run), data[i])
			i += run
			continue
		}
		// literal block
		n := 1
		max := 128
		if variant == 2 {
			max = 1 + rng.IntN(128)
		}
		for i+n < len(data) && n < max {
			if variant == 1 && i+n+1 < len(data) && data[i+n] == data[i+n+1] {
				break
			}
			n++
		}
		out = append(out, byte(n-1))
		out = append(out, data[i:i+n]...)
		i += n
	}
	return append(out, 128)
}

// ---- ASCIIHex (7.4.2)

func hexDecode(in []byte) ([]byte, error) {
	var dig []byte
	for _, c := range in {
		switch {
		case c == '>':
			goto done
		case c == 0 || c == 9 || c == 10 || c == 12 || c == 13 || c == 32:
		case c >= '0' && c <= '9':
			dig = append(dig, c-'0')
		case c >= 'a' && c <= 'f':
			dig = append(dig, c-'a'+10)
		case c >= 'A' && c <= 'F':
			dig = append(dig, c-'A'+10)
		default:
			return nil, fmt.Errorf("asciihex: invalid character %q", c)
		}
	}
	return nil, errors.New("asciihex: no EOD")
done:
	if len(dig)%2 == 1 {
		dig = append(dig, 0)
	}
	out := make([]byte, len(dig)/2)
	for i := range out {
		out[i] = dig[2*i]<<4 | dig[2*i+1]
	}
	return out, nil
}

// hexEncode variants: 0 lower case, 1 upper case, 2 mixed case with white space, 3 last digit dropped when it is 0.
func hexEncode(data []byte, variant int, rng *rand.Rand) []byte {
	const lo, up = "0123456789abcdef", "0123456789ABCDEF"
	var out []byte
	for _, b := range data {
		for _, d := range []byte{b >> 4, b & 15} {
			al := lo
			if variant == 1 || (variant == 2 && rng.IntN(2) == 0) {
				al = up
			}
			out = append(out, al[d])
			if variant == 2 && rng.IntN(4) == 0 {
				out = append(out, " \n\r\t\f"[rng.IntN(5)])
			}
		}
	}
	if variant == 3 && len(data) > 0 && data[len(data)-1]&15 == 0 {
		out = out[:len(out)-1]
	}
	return append(out, '>')
}

// ---- ASCII85 (std codec + "~>")

func a85Decode(in []byte) ([]byte, error) {
	in = bytes.TrimRight(in, "\r\n \t")
	if !bytes.HasSuffix(in, []byte("~>")) {
		return nil, errors.New("ascii85: no EOD")
	}
	return io.ReadAll(ascii85.NewDecoder(bytes.NewReader(in[:len(in)-2])))
}

// a85Encode variants: 0 one line, 1 line breaks every 1..40 characters.
func a85Encode(data []byte, variant int, rng *rand.Rand) []byte {
	var b bytes.Buffer
	w := ascii85.NewEncoder(&b)
	w.Write(data)
	w.Close()
	enc := b.Bytes()
	if variant == 1 {
		var o []byte
		for len(enc) > 0 {
			k := 1 + rng.IntN(40)
			if k > len(enc) {
				k = len(enc)
			}
			o = append(o, enc[:k]...)
			o = append(o, '\n')
			enc = enc[k:]
		}
		enc = o
	}
	return append(enc, '~', '>')
}

// ---- Flate

var zlevels = []int{zlib.DefaultCompression, zlib.NoCompression, zlib.BestSpeed, zlib.HuffmanOnly, zlib.BestCompression}

func deflate(b []byte, variant int) []byte {
	var out bytes.Buffer
	w, _ := zlib.NewWriterLevel(&out, zlevels[variant%len(zlevels)])
	w.Write(b)
	w.Close()
	return out.Bytes()
}

func inflate(b []byte) ([]byte, error) {
	r, err := zlib.NewReader(bytes.NewReader(b))
	if err != nil {
		return nil, err
	}
	return io.ReadAll(r)
}

// refEncode produces an encoding of data for one stage; data must be whole rows when a predictor is set.
func refEncode(s stage, data []byte, variant int, rng *rand.Rand) ([]byte, error) {
	p := s.params()
	if p.Predictor != 1 {
		var fl []byte
		if p.IsPNG() {
			fl = make([]byte, len(data)/p.RowBytes())
			for i := range fl {
				fl[i] = byte(rng.IntN(5))
			}
		}
		var err error
		if data, err = predictor.Encode(p, data, fl); err != nil {
			return nil, err
		}
	}
	switch s.Name {
	case filter.ASCII85:
		return a85Encode(data, variant%2, rng), nil
	case filter.ASCIIHex:
		return hexEncode(data, variant%4, rng), nil
	case filter.RunLength:
		return rlEncode(data, variant%3, rng), nil
	case filter.LZW:
		o := reflzw.Options{EarlyChange: s.earlyChange()}
		if variant%3 == 2 {
			o.ClearEvery = 1 + rng.IntN(40)
		}
		return reflzw.EncodeOpts(data, o), nil
	case filter.Flate:
		return deflate(data, variant), nil
	}
	return nil, fmt.Errorf("no reference encoder for %s", s.Name)
}

// refDecode is the reference decoding of one stage.
func refDecode(s stage, enc []byte) ([]byte, error) {
	var out []byte
	var err error
	switch s.Name {
	case filter.ASCII85:
		out, err = a85Decode(enc)
	case filter.ASCIIHex:
		out, err = hexDecode(enc)
	case filter.RunLength:
		out, err = rlDecode(enc)
	case filter.LZW:
		out, _, err = reflzw.Decode(enc, s.earlyChange())
	case filter.Flate:
		out, err = inflate(enc)
	default:
		return nil, fmt.Errorf("no reference decoder for %s", s.Name)
	}
	if err != nil {
		return nil, err
	}
	if p := s.params(); p.Predictor != 1 {
		return predictor.Decode(p, out)
	}
	return out, nil
}
