// C15 — stream filters round-trip for every accepted filter pipeline.
//
// Layer (i): filter.NewFilter(...).Encode / .Decode alone, for every pipeline of length 1..3 over
// {ASCII85, ASCIIHex, RunLength, LZW EarlyChange 0/1, Flate} and for Flate/LZW with every
// decode-parameter set pdfcpu accepts on decode.
// Layer (ii): types.StreamDict Encode/Decode, the decode-modify-re-encode sequence used in
// production (patchFirstContentStreamForWatermark, appendToContentStream), and that sequence
// driven through api.AddWatermarksFile on hand-crafted documents whose output is decoded
// independently (std zlib, reference LZW/RunLength/ASCII codecs, reference predictors).
package main

import (
	"bytes"
	"encoding/hex"
	"errors"
	"fmt"
	"io"
	"math/rand/v2"
	"os"
	"path/filepath"
	"runtime/debug"
	"strings"
	"sync"

	"github.com/pdfcpu/pdfcpu/pkg/api"
	"github.com/pdfcpu/pdfcpu/pkg/filter"
	"github.com/pdfcpu/pdfcpu/pkg/pdfcpu/model"
	"github.com/pdfcpu/pdfcpu/pkg/pdfcpu/types"
	reflzw "verif/harness/internal/ref/lzw"
	"verif/harness/internal/vk"
)

// ---- pdfcpu wrappers

type panicErr struct{ frame, msg string }

func (p panicErr) Error() string { return "panic: " + p.msg + " @ " + p.frame }

func innermostFrame(stack string) string {
	for _, ln := range strings.Split(stack, "\n") {
		if strings.HasPrefix(ln, "github.com/pdfcpu/pdfcpu/") {
			if i := strings.LastIndex(ln, "("); i > 0 {
				ln = ln[:i]
			}
			return strings.TrimPrefix(ln, "github.com/pdfcpu/pdfcpu/")
		}
	}
	return "?"
}

func guard(f func() ([]byte, error)) (out []byte, err error) {
	defer func() {
		if r := recover(); r != nil {
			err = panicErr{innermostFrame(string(debug.Stack())), fmt.Sprint(r)}
		}
	}()
	return f()
}

func pdfcpuEncode(s stage, data []byte) ([]byte, error) {
	return guard(func() ([]byte, error) {
		f, err := filter.NewFilter(s.Name, s.Parms)
		if err != nil {
			return nil, err
		}
		r, err := f.Encode(bytes.NewReader(data))
		if err != nil {
			return nil, err
		}
		return io.ReadAll(r)
	})
}

func pdfcpuDecode(s stage, enc []byte) ([]byte, error) {
	return guard(func() ([]byte, error) {
		f, err := filter.NewFilter(s.Name, s.Parms)
		if err != nil {
			return nil, err
		}
		r, err := f.Decode(bytes.NewReader(enc))
		if err != nil {
			return nil, err
		}
		return io.ReadAll(r)
	})
}

func toDict(m map[string]int) types.Dict {
	if len(m) == 0 {
		return nil
	}
	d := types.NewDict()
	for k, v := range m {
		d[k] = types.Integer(v)
	}
	return d
}

// newSD builds the stream dictionary a parser would produce for pipeline pl.
func newSD(pl []stage) *types.StreamDict {
	d := types.NewDict()
	var names, parms types.Array
	hasParms := false
	var fpl []types.PDFFilter
	for _, s := range pl {
		names = append(names, types.Name(s.Name))
		dp := toDict(s.Parms)
		if dp != nil {
			parms = append(parms, dp)
			hasParms = true
		} else {
			parms = append(parms, nil)
		}
		fpl = append(fpl, types.PDFFilter{Name: s.Name, DecodeParms: dp})
	}
	switch {
	case len(names) == 1:
		d["Filter"] = names[0]
		if hasParms {
			d["DecodeParms"] = parms[0]
		}
	case len(names) > 1:
		d["Filter"] = names
		if hasParms {
			d["DecodeParms"] = parms
		}
	}
	sd := types.NewStreamDict(d, 0, nil, nil, fpl)
	return &sd
}

// pipelineFromSD reads the pipeline back from the dictionary entries (what a reader of the written file sees).
func pipelineFromSD(sd *types.StreamDict) ([]stage, error) {
	var names, parms []types.Object
	switch f := sd.Dict["Filter"].(type) {
	case nil:
		return nil, nil
	case types.Name:
		names, parms = []types.Object{f}, []types.Object{sd.Dict["DecodeParms"]}
	case types.Array:
		names = f
		if a, ok := sd.Dict["DecodeParms"].(types.Array); ok {
			parms = a
		}
	default:
		return nil, fmt.Errorf("/Filter is %T", f)
	}
	var pl []stage
	for i, n := range names {
		nm, ok := n.(types.Name)
		if !ok {
			return nil, fmt.Errorf("filter entry %T", n)
		}
		s := stage{Name: string(nm)}
		if i < len(parms) {
			if d, ok := parms[i].(types.Dict); ok {
				s.Parms = map[string]int{}
				for k, v := range d {
					if iv, ok := v.(types.Integer); ok {
						s.Parms[k] = iv.Value()
					}
				}
			}
		}
		pl = append(pl, s)
	}
	return pl, nil
}

func refDecodeAll(pl []stage, data []byte) ([]byte, error) {
	var err error
	for _, s := range pl {
		if data, err = refDecode(s, data); err != nil {
			return nil, fmt.Errorf("%s %v: %w", s.Name, s.Parms, err)
		}
	}
	return data, nil
}

// ---- stage naming

func stageTag(s stage) string {
	n := map[string]string{filter.ASCII85: "a85", filter.ASCIIHex: "ahx", filter.RunLength: "rl", filter.LZW: "lzw", filter.Flate: "flate"}[s.Name]
	if s.Name == filter.LZW {
		if v, ok := s.Parms["EarlyChange"]; ok {
			n += fmt.Sprintf("-ec%d", v)
		}
	}
	return n
}

func sig(pl []stage) string {
	var s []string
	for _, st := range pl {
		s = append(s, stageTag(st))
	}
	if len(s) == 0 {
		return "nofilter"
	}
	return strings.Join(s, "+")
}

func predTag(s stage) string {
	name := "flate"
	if s.Name == filter.LZW {
		name = "lzw"
	}
	return fmt.Sprintf("%s/predictor%d", name, s.params().Predictor)
}

// ---- inputs

type namedInput struct {
	Name string
	Data []byte
}

// lzwData returns bytes whose LZW parse emits exactly `codes` codes before the final pending one,
// i.e. an encoder reaches table entry 257+codes (258 is the first entry).
func lzwData(rng *rand.Rand, alphabet, codes int) []byte {
	dict := map[uint32]int{}
	next, cur, emitted := 258, -1, 0
	var out []byte
	for {
		b := byte(rng.IntN(alphabet))
		if cur < 0 {
			cur = int(b)
			out = append(out, b)
			continue
		}
		k := uint32(cur)<<8 | uint32(b)
		if c, ok := dict[k]; ok {
			cur = c
			out = append(out, b)
			continue
		}
		if emitted == codes {
			return out
		}
		emitted++
		dict[k] = next
		next++
		cur = int(b)
		out = append(out, b)
	}
}

func structuredInputs(t *vk.T) []namedInput {
	rng := t.RNG("inputs")
	var in []namedInput
	add := func(n string, b []byte) { in = append(in, namedInput{n, b}) }
	add("empty", []byte{})
	for _, b := range []byte{0x00, 0x80, 0xff, '~', '>', 'z'} {
		add(fmt.Sprintf("1byte-%02x", b), []byte{b})
	}
	for _, n := range []int{2, 3, 4, 5, 8, 127, 128, 129, 130, 255, 256, 257, 258, 384, 385} {
		add(fmt.Sprintf("run%d", n), bytes.Repeat([]byte{'A'}, n))
		add(fmt.Sprintf("zeros%d", n), make([]byte, n))
	}
	add("run128-of-0x80", bytes.Repeat([]byte{0x80}, 128))
	add("run129-of-0xff", bytes.Repeat([]byte{0xff}, 129))
	for _, n := range []int{2, 127, 128, 129, 130, 256, 257} {
		d := make([]byte, n)
		for i := range d {
			d[i] = byte(i*7 + 3)
		}
		add(fmt.Sprintf("distinct%d", n), d)
	}
	alt := func(n int, pat string) []byte {
		d := make([]byte, n)
		for i := range d {
			d[i] = pat[i%len(pat)]
		}
		return d
	}
	add("alt-ab-300", alt(300, "ab"))
	add("alt-aabb-300", alt(300, "aabb"))
	add("alt-aab-257", alt(257, "aab"))
	add("alt-0x80-0x00", alt(256, "\x80\x00"))
	add("run128+x+run128", append(append(bytes.Repeat([]byte{'r'}, 128), 'x'), bytes.Repeat([]byte{'r'}, 128)...))
	add("distinct128+run128", append(alt(128, "0123456789abcdefghijklmnopqrstuvwxyz"), bytes.Repeat([]byte{'q'}, 128)...))
	add("run127+distinct129", append(bytes.Repeat([]byte{'q'}, 127), alt(129, "0123456789abcdefghijklmnopqrstuvwxyz")...))
	all := make([]byte, 256)
	for i := range all {
		all[i] = byte(i)
	}
	add("all-byte-values", all)
	add("a85-terminators", []byte("~>~>>~z~>zzzz<~~>"))
	add("text", []byte(strings.Repeat("BT /F1 12 Tf 72 720 Td (Hello, World) Tj ET\n", 40)))
	// LZW code width / table size boundaries: highest table entry K
	for _, K := range []int{510, 511, 512, 513, 1022, 1023, 1024, 1025, 2046, 2047, 2048, 2049, 4092, 4093, 4094, 4095, 4096, 4097, 4200} {
		add(fmt.Sprintf("lzw-entries-%d-rand256", K), lzwData(rng, 256, K-257))
		add(fmt.Sprintf("lzw-entries-%d-rand3", K), lzwData(rng, 3, K-257))
	}
	big := make([]byte, 64<<10)
	for i := range big {
		big[i] = byte(rng.Uint32())
	}
	add("random-64KiB", big)
	add("zeros-64KiB", make([]byte, 64<<10))
	lowEntropy := make([]byte, 64<<10)
	for i := range lowEntropy {
		lowEntropy[i] = "abc"[rng.IntN(3)]
	}
	add("abc-random-64KiB", lowEntropy)
	return in
}

func genContent(rng *rand.Rand, n int) []byte {
	b := make([]byte, n)
	switch rng.IntN(4) {
	case 0, 1:
		for i := range b {
			b[i] = byte(rng.Uint32())
		}
	case 2:
		for i := 0; i < n; {
			v, l := byte(rng.Uint32()), 1+rng.IntN(140)
			for ; l > 0 && i < n; l, i = l-1, i+1 {
				b[i] = v
			}
		}
	case 3:
		for i := range b {
			b[i] = byte(rng.IntN(5)) // also valid PNG filter bytes: an encoder ignoring the predictor then yields wrong bytes, not an error
		}
	}
	return b
}

// ---- the checks

type caseInfo struct {
	Layer    string  `json:"layer"`
	Pipeline []stage `json:"pipeline"`
	Input    string  `json:"input"`
	InputHex string  `json:"input_hex,omitempty"`
	Detail   string  `json:"detail,omitempty"`
}

func hexShort(b []byte) string {
	if len(b) > 600 {
		return hex.EncodeToString(b[:600]) + "…"
	}
	return hex.EncodeToString(b)
}

type checker struct {
	t  *vk.T
	mu sync.Mutex
	c  map[string]int64
}

func (ck *checker) count(k string, n int64) { ck.mu.Lock(); ck.c[k] += n; ck.mu.Unlock() }

func diffAt(a, b []byte) string {
	n := min(len(a), len(b))
	for i := 0; i < n; i++ {
		if a[i] != b[i] {
			return fmt.Sprintf("lengths %d/%d, first difference at byte %d (%02x vs %02x)", len(a), len(b), i, a[i], b[i])
		}
	}
	return fmt.Sprintf("lengths %d/%d, common prefix equal", len(a), len(b))
}

func errKind(err error) string {
	var pe panicErr
	if errors.As(err, &pe) {
		return "panic/" + pe.frame
	}
	return "error"
}

// filtersRoundTrip: encode with the stages last to first, decode first to last (the order StreamDict uses),
// checking after every decode stage that the input of the matching encode stage is back.
func (ck *checker) filtersRoundTrip(pl []stage, in namedInput) {
	t := ck.t
	inter := make([][]byte, len(pl)+1) // inter[i] = input of encode stage i-1 ... inter[len] = x
	inter[len(pl)] = in.Data
	for i := len(pl) - 1; i >= 0; i-- {
		enc, err := pdfcpuEncode(pl[i], inter[i+1])
		if err != nil {
			t.Violate(fmt.Sprintf("filters/%s/encode-%s", stageTag(pl[i]), errKind(err)),
				fmt.Sprintf("pipeline %s input %s: Encode stage %d failed: %v", sig(pl), in.Name, i, err),
				caseInfo{"filters", pl, in.Name, hexShort(in.Data), err.Error()})
			return
		}
		inter[i] = enc
	}
	cur := inter[0]
	for i := 0; i < len(pl); i++ {
		dec, err := pdfcpuDecode(pl[i], cur)
		if err != nil {
			t.Violate(fmt.Sprintf("filters/%s/decode-%s", stageTag(pl[i]), errKind(err)),
				fmt.Sprintf("pipeline %s input %s (%d bytes): Decode of pdfcpu's own encoding failed at stage %d: %v", sig(pl), in.Name, len(in.Data), i, err),
				caseInfo{"filters", pl, in.Name, hexShort(in.Data), err.Error()})
			return
		}
		if !bytes.Equal(dec, inter[i+1]) {
			t.Violate(fmt.Sprintf("filters/%s/wrong-bytes", stageTag(pl[i])),
				fmt.Sprintf("pipeline %s input %s: Decode(Encode(x)) != x at stage %d: %s", sig(pl), in.Name, i, diffAt(dec, inter[i+1])),
				caseInfo{"filters", pl, in.Name, hexShort(in.Data), diffAt(dec, inter[i+1])})
			return
		}
		cur = dec
	}
	ck.count("filters_roundtrips_ok/len"+fmt.Sprint(len(pl)), 1)
	// observation only: is pdfcpu's encoding readable by the independent decoders?
	if _, err := refDecodeAll(pl, inter[0]); err != nil {
		ck.count("pdfcpu_encoding_not_readable_by_reference_decoder/"+sig(pl), 1)
	}
}

// sdRoundTrip: StreamDict with Content -> Encode() -> a fresh StreamDict with that Raw -> Decode().
func (ck *checker) sdRoundTrip(pl []stage, in namedInput, key string) bool {
	t := ck.t
	sd := newSD(pl)
	sd.Content = in.Data
	if _, err := guard(func() ([]byte, error) { return nil, sd.Encode() }); err != nil {
		t.Violate(key+"/encode-"+errKind(err), fmt.Sprintf("StreamDict %s input %s: Encode failed: %v", sig(pl), in.Name, err), caseInfo{"streamdict", pl, in.Name, hexShort(in.Data), err.Error()})
		return false
	}
	sd2 := newSD(pl)
	sd2.Raw = sd.Raw
	got, err := guard(func() ([]byte, error) {
		if err := sd2.Decode(); err != nil {
			return nil, err
		}
		return sd2.Content, nil
	})
	if err != nil || !bytes.Equal(got, in.Data) {
		detail := ""
		if err != nil {
			detail = "Decode of the encoded stream fails: " + err.Error()
		} else {
			detail = "Decode returns other bytes: " + diffAt(got, in.Data)
		}
		t.Violate(key, fmt.Sprintf("StreamDict %s parms %v, Content %s (%d bytes) -> Encode() -> Decode(): %s", sig(pl), pl[len(pl)-1].Parms, in.Name, len(in.Data), detail),
			caseInfo{"streamdict", pl, in.Name, hexShort(in.Data), detail})
		return false
	}
	return true
}

// sdModify: reference-encoded stream -> Decode(); append; Encode() (what appendToContentStream and
// patchFirstContentStreamForWatermark do) -> the result decoded independently per the dictionary and by pdfcpu.
func (ck *checker) sdModify(pl []stage, content, extra []byte, rng *rand.Rand, key, inName string) (accepted bool) {
	t := ck.t
	raw := content
	var err error
	for i := len(pl) - 1; i >= 0; i-- {
		if raw, err = refEncode(pl[i], raw, rng.IntN(6), rng); err != nil {
			t.Broken("reference encode %v: %v", pl[i], err)
		}
	}
	sd := newSD(pl)
	sd.Raw = raw
	got, err := guard(func() ([]byte, error) {
		if err := sd.Decode(); err != nil {
			return nil, err
		}
		return sd.Content, nil
	})
	if err != nil || !bytes.Equal(got, content) {
		return false // not accepted on decode: outside C15's domain (C17 judges decoding)
	}
	sd.Content = append(append([]byte{}, sd.Content...), extra...)
	want := sd.Content
	if _, err := guard(func() ([]byte, error) { return nil, sd.Encode() }); err != nil {
		t.Violate(key+"/encode-"+errKind(err), fmt.Sprintf("StreamDict %s: re-Encode failed: %v", sig(pl), err), caseInfo{"streamdict-modify", pl, inName, hexShort(content), err.Error()})
		return true
	}
	wpl, err := pipelineFromSD(sd)
	if err != nil {
		t.Broken("pipeline of encoded stream dict: %v", err)
	}
	detail := ""
	if ind, err := refDecodeAll(wpl, sd.Raw); err != nil {
		detail = fmt.Sprintf("independent decoding per the dictionary %v fails: %v", wpl, err)
	} else if !bytes.Equal(ind, want) {
		detail = fmt.Sprintf("independent decoding per the dictionary %v gives other bytes: %s", wpl, diffAt(ind, want))
	} else {
		sd2 := newSD(wpl)
		sd2.Raw = sd.Raw
		got, err := guard(func() ([]byte, error) {
			if err := sd2.Decode(); err != nil {
				return nil, err
			}
			return sd2.Content, nil
		})
		if err != nil {
			detail = "pdfcpu Decode of the re-encoded stream fails: " + err.Error()
		} else if !bytes.Equal(got, want) {
			detail = "pdfcpu Decode of the re-encoded stream gives other bytes: " + diffAt(got, want)
		}
	}
	if detail != "" {
		t.Violate(key, fmt.Sprintf("StreamDict %s parms %v: Decode(); append %d bytes; Encode(): %s", sig(pl), pl[len(pl)-1].Parms, len(extra), detail),
			caseInfo{"streamdict-modify", pl, inName, hexShort(content), detail})
		return true
	}
	ck.count("streamdict_modify_ok", 1)
	return true
}

// ---- production path

const pageText = "BT /F1 12 Tf 20 150 Td (C15 original page content 0123456789) Tj ET"

type apiCase struct {
	Pipeline []stage `json:"pipeline"`
	OnTop    bool    `json:"on_top"`
	Detail   string  `json:"detail"`
	Dicts    string  `json:"written_content_streams,omitempty"`
}

func (ck *checker) apiCase(dir string, idx int, pl []stage, onTop bool, rng *rand.Rand) {
	t := ck.t
	content := []byte(pageText)
	if len(pl) > 0 {
		if p := pl[len(pl)-1].params(); p.Predictor != 1 {
			for len(content)%p.RowBytes() != 0 {
				content = append(content, ' ')
			}
		}
	}
	raw := content
	var err error
	for i := len(pl) - 1; i >= 0; i-- {
		if raw, err = refEncode(pl[i], raw, idx+i, rng); err != nil {
			t.Broken("reference encode %v: %v", pl[i], err)
		}
	}
	inFile := filepath.Join(dir, fmt.Sprintf("in%03d.pdf", idx))
	outFile := filepath.Join(dir, fmt.Sprintf("out%03d.pdf", idx))
	if err := os.WriteFile(inFile, craftPDF(pl, raw), 0o644); err != nil {
		t.Broken("write %s: %v", inFile, err)
	}
	cls := sig(pl)
	key := "api/AddWatermarks/" + cls
	if len(pl) > 0 {
		if p := pl[len(pl)-1].params(); p.Predictor != 1 {
			key = "api/AddWatermarks/" + predTag(pl[len(pl)-1])
			cls += fmt.Sprintf("(predictor%d)", p.Predictor)
		}
	}
	pageContent := func(file string) ([]byte, error) {
		return guard(func() ([]byte, error) {
			ctx, err := api.ReadContextFile(file)
			if err != nil {
				return nil, err
			}
			if err := api.ValidateContext(ctx); err != nil {
				return nil, err
			}
			d, _, _, err := ctx.PageDict(1, false)
			if err != nil {
				return nil, err
			}
			return ctx.PageContent(d, 1)
		})
	}
	// domain: pdfcpu must accept the input document and decode its content stream
	if got, err := pageContent(inFile); err != nil || !bytes.Contains(got, content) {
		ck.count("api_inputs_not_accepted_by_pdfcpu/"+cls, 1)
		return
	}
	mode := "watermark"
	if onTop {
		mode = "stamp"
	}
	_, err = guard(func() ([]byte, error) {
		wm, err := api.TextWatermark("C15", "scale:0.5 abs, points:24", onTop, false, types.POINTS)
		if err != nil {
			return nil, err
		}
		conf := model.NewDefaultConfiguration()
		conf.Offline = true
		conf.WriteObjectStream = false
		conf.WriteXRefStream = false
		return nil, api.AddWatermarksFile(inFile, outFile, nil, wm, conf)
	})
	ck.t.Eval("api/" + cls + "/" + mode)
	if err != nil {
		t.Violate(key+"/operation-"+errKind(err), fmt.Sprintf("AddWatermarksFile (%s) on a page whose content stream uses %v: %v", mode, pl, err), apiCase{pl, onTop, err.Error(), ""})
		return
	}
	out, err := os.ReadFile(outFile)
	if err != nil {
		t.Broken("read %s: %v", outFile, err)
	}
	detail := ""
	ind, dicts, ierr := pageContentIndependent(out)
	switch {
	case ierr != nil:
		detail = "independent decoding of the written page content fails: " + ierr.Error()
	case !bytes.Contains(ind, []byte(pageText)):
		detail = fmt.Sprintf("independently decoded page content (%d bytes) does not contain the original content", len(ind))
	default:
		if got, err := pageContent(outFile); err != nil {
			detail = "pdfcpu cannot read the page content of its own output: " + err.Error()
		} else if !bytes.Contains(got, []byte(pageText)) {
			detail = "pdfcpu reads other page content from its own output"
		}
	}
	if detail != "" {
		t.Violate(key+"/content-lost", fmt.Sprintf("AddWatermarksFile (%s), input content stream %v: %s; written content streams: %s", mode, pl, detail, strings.Join(dicts, "; ")),
			apiCase{pl, onTop, detail, strings.Join(dicts, "; ")})
		return
	}
	ck.count("api_roundtrips_ok/"+mode, 1)
	if idx%5 == 0 {
		t.Sample(map[string]any{"layer": "api", "mode": mode, "input_pipeline": pl, "written_content_streams": dicts})
	}
}

func main() {
	vk.Run("C15", "exploration", func(t *vk.T) {
		api.DisableConfigDir()
		t.Rule("(i) filters alone: every pipeline of length 1..3 over {ASCII85, ASCIIHex, RunLength, LZW EarlyChange 0, LZW EarlyChange 1, Flate} (+ LZW without EarlyChange) × structured inputs " +
			"(empty, single bytes, runs/zeros of 2..385 incl. 127/128/129, distinct runs, alternations, all byte values, ASCII85 terminator bytes, data reaching LZW table entry 510..513/1022..1025/2046..2049/4092..4097, 64 KiB random/zero/low-entropy) and seeded random inputs; " +
			"encode last-to-first, decode first-to-last as StreamDict does, each stage's output compared with the matching encode input (quick tier: 3-stage pipelines get every third input, rotating). " +
			"Decode parameters: Predictor {1,2,10..15} × Colors 1..4 × BitsPerComponent {1,2,4,8,16} × Columns 1..8 for Flate, LZW, LZW EarlyChange 0; a set is in the domain when pdfcpu decodes a reference-encoded two-row stream; inputs are whole rows. " +
			"(ii) StreamDict Encode→Decode for the same pipelines and parameter sets; Decode→append→Encode starting from reference-encoded streams, judged by independent decoding per the resulting dictionary; " +
			"api.AddWatermarksFile (stamp and watermark) on hand-crafted one-page documents whose content stream uses each filter / predictor, output decoded by a byte-level reader with reference codecs. " +
			"non-trivial = non-empty input; evaluation keys are layer × pipeline/parameter set × input")
		t.Assume("with Predictor ≥ 2 only inputs that are a whole number of rows are used (other lengths cannot be represented)")
		t.Assume("decode parameter sets pdfcpu does not accept on decode (LZW with Predictor > 1 on the unchanged tree) are outside C15's quantifier and only counted; C17 reports them")
		t.Assume("production path: content streams are found in pdfcpu's output by a minimal reader for classic xref-table files (conf.WriteObjectStream=false, WriteXRefStream=false)")
		ck := &checker{t: t, c: map[string]int64{}}

		// ---------- (i)a + (ii)a: plain pipelines
		base := []stage{{Name: filter.ASCII85}, {Name: filter.ASCIIHex}, {Name: filter.RunLength},
			{Name: filter.LZW, Parms: map[string]int{"EarlyChange": 0}}, {Name: filter.LZW, Parms: map[string]int{"EarlyChange": 1}}, {Name: filter.Flate}}
		var pipes [][]stage
		for _, a := range base {
			pipes = append(pipes, []stage{a})
		}
		pipes = append(pipes, []stage{{Name: filter.LZW}})
		for _, a := range base {
			for _, b := range base {
				pipes = append(pipes, []stage{a, b})
			}
		}
		for _, a := range base {
			for _, b := range base {
				for _, c := range base {
					pipes = append(pipes, []stage{a, b, c})
				}
			}
		}
		inputs := structuredInputs(t)
		rng := t.RNG("random-inputs")
		for i := 0; i < t.Pick(12, 400); i++ {
			inputs = append(inputs, namedInput{fmt.Sprintf("seeded-%d", i), genContent(rng, rng.IntN(1500))})
		}
		type job struct {
			pl []stage
			in namedInput
		}
		var jobs []job
		for pi, pl := range pipes {
			for ii, in := range inputs {
				// quick tier: a 3-stage pipeline gets every third input (rotating, so every input meets 72 of the
				// 216 three-stage pipelines); 1- and 2-stage pipelines and the thorough tier get all inputs
				if t.Quick() && len(pl) == 3 && (pi+ii)%3 != 0 {
					continue
				}
				jobs = append(jobs, job{pl, in})
			}
		}
		vk.Parallel(len(jobs), func(i int) {
			j := jobs[i]
			k := ""
			if len(j.in.Data) > 0 {
				k = sig(j.pl) + "|" + j.in.Name
			}
			ck.filtersRoundTrip(j.pl, j.in)
			t.Eval(k)
			if len(j.in.Data) <= 2048 || len(j.pl) == 1 {
				if ck.sdRoundTrip(j.pl, j.in, "streamdict/plain-pipeline-len"+fmt.Sprint(len(j.pl))+"/roundtrip-fails") {
					ck.count("streamdict_roundtrips_ok/len"+fmt.Sprint(len(j.pl)), 1)
				}
				if k != "" {
					k = "sd|" + k
				}
				t.Eval(k)
			}
		})
		t.Count("pipelines", int64(len(pipes)))
		t.Count("inputs_per_pipeline", int64(len(inputs)))
		t.Sample(map[string]any{"layer": "filters", "pipeline": pipes[100], "input": inputs[30].Name, "input_hex": hexShort(inputs[30].Data)})
		t.Sample(map[string]any{"layer": "filters", "pipeline": pipes[7], "input": inputs[len(inputs)-1].Name, "input_len": len(inputs[len(inputs)-1].Data)})

		// ---------- (i)b + (ii)b: decode parameter sets
		type pjob struct{ s stage }
		var pjobs []pjob
		for _, fam := range []stage{{Name: filter.Flate}, {Name: filter.LZW}, {Name: filter.LZW, Parms: map[string]int{"EarlyChange": 0}}} {
			for _, pr := range []int{1, 2, 10, 11, 12, 13, 14, 15} {
				for colors := 1; colors <= 4; colors++ {
					for _, bpc := range []int{1, 2, 4, 8, 16} {
						for cols := 1; cols <= 8; cols++ {
							m := map[string]int{"Predictor": pr, "Colors": colors, "BitsPerComponent": bpc, "Columns": cols}
							for k, v := range fam.Parms {
								m[k] = v
							}
							pjobs = append(pjobs, pjob{stage{Name: fam.Name, Parms: m}})
						}
					}
				}
			}
		}
		vk.Parallel(len(pjobs), func(i int) {
			s := pjobs[i].s
			p := s.params()
			r := t.RNGi("parms", i)
			rb := p.RowBytes()
			// acceptance: a reference-encoded two-row stream decodes without error
			probe := genContent(r, 2*rb)
			enc, err := refEncode(s, probe, i, r)
			if err != nil {
				t.Broken("reference encode %v: %v", s, err)
			}
			if _, err := pdfcpuDecode(s, enc); err != nil {
				ck.count("parameter_sets_not_accepted_on_decode/"+predTag(s), 1)
				return
			}
			ck.count("parameter_sets_accepted/"+predTag(s), 1)
			pl := []stage{s}
			for _, rows := range []int{0, 1, 3, 9} {
				x := namedInput{fmt.Sprintf("%d-rows-of-%d", rows, rb), genContent(r, rows*rb)}
				if p.Predictor == 1 && rows == 9 {
					x = namedInput{"any-length", genContent(r, r.IntN(200))}
				}
				ek := ""
				if len(x.Data) > 0 {
					ek = fmt.Sprintf("parms|%s|%v|%s", stageTag(s), s.Parms, x.Name)
				}
				// filters alone
				t.Eval(ek)
				encx, err := pdfcpuEncode(s, x.Data)
				var got []byte
				if err == nil {
					got, err = pdfcpuDecode(s, encx)
				}
				if err != nil || !bytes.Equal(got, x.Data) {
					detail := ""
					if err != nil {
						detail = "Decode(Encode(x)) fails: " + err.Error()
					} else {
						detail = "Decode(Encode(x)) != x: " + diffAt(got, x.Data)
					}
					t.Violate("filters/"+predTag(s)+"/roundtrip-fails", fmt.Sprintf("%s %v x=%x: %s", s.Name, s.Parms, x.Data, detail), caseInfo{"filters", pl, x.Name, hexShort(x.Data), detail})
				} else {
					ck.count("filters_parms_roundtrips_ok", 1)
				}
				// stream object
				if ek != "" {
					ek = "sd|" + ek
				}
				t.Eval(ek)
				if ck.sdRoundTrip(pl, x, "streamdict/"+predTag(s)+"/roundtrip-fails") {
					ck.count("streamdict_parms_roundtrips_ok", 1)
				}
				// decode - modify - re-encode
				if rows > 0 {
					t.Eval("mod|" + ek)
					ck.sdModify(pl, x.Data, genContent(r, (1+r.IntN(3))*rb), r, "streamdict-modify/"+predTag(s)+"/roundtrip-fails", x.Name)
				}
			}
			// the same parameters behind an ASCII stage (array-valued /Filter and /DecodeParms)
			if i%16 == 0 {
				front := []stage{{Name: filter.ASCII85}, {Name: filter.ASCIIHex}, {Name: filter.RunLength}}[r.IntN(3)]
				pl2 := []stage{front, s}
				x := genContent(r, 4*rb)
				t.Eval(fmt.Sprintf("mod2|%s|%v", sig(pl2), s.Parms))
				ck.sdModify(pl2, x, genContent(r, rb), r, "streamdict-modify/"+predTag(s)+"/roundtrip-fails", "4-rows")
			}
		})
		t.Sample(map[string]any{"layer": "parms", "filter": pjobs[700].s})

		// ---------- production path
		dir := t.Scratch()
		var apl [][]stage
		apl = append(apl, nil) // no filter
		for _, s := range base {
			apl = append(apl, []stage{s})
		}
		apl = append(apl, []stage{{Name: filter.ASCII85}, {Name: filter.Flate}}, []stage{{Name: filter.ASCIIHex}, {Name: filter.LZW}}, []stage{{Name: filter.ASCII85}, {Name: filter.RunLength}})
		pm := func(p, colors, bpc, cols int) map[string]int {
			return map[string]int{"Predictor": p, "Colors": colors, "BitsPerComponent": bpc, "Columns": cols}
		}
		for _, m := range []map[string]int{{"Predictor": 1}, {"Predictor": 12, "Columns": 4}, pm(2, 1, 8, 4), pm(2, 3, 8, 2), pm(10, 1, 8, 1), pm(11, 1, 8, 7),
			pm(12, 1, 8, 16), pm(13, 3, 8, 5), pm(14, 1, 8, 9), pm(15, 4, 8, 2), pm(15, 1, 16, 3)} {
			apl = append(apl, []stage{{Name: filter.Flate, Parms: m}})
		}
		apl = append(apl, []stage{{Name: filter.ASCII85}, {Name: filter.Flate, Parms: pm(12, 1, 8, 5)}})
		apl = append(apl, []stage{{Name: filter.LZW, Parms: pm(12, 1, 8, 4)}}, []stage{{Name: filter.LZW, Parms: pm(2, 1, 8, 4)}})
		// sequential: pdfcpu's API uses package-level state (logging, configuration), documents are tiny
		arng := t.RNG("api")
		for i, pl := range apl {
			ck.apiCase(dir, 2*i, pl, true, arng)
			ck.apiCase(dir, 2*i+1, pl, false, arng)
		}
		t.Count("api_input_documents", int64(2*len(apl)))

		for k, v := range ck.c {
			t.Count(k, v)
		}
		// sanity of the reference LZW codec against pdfcpu's decoder on large inputs (observation only)
		for _, in := range inputs {
			if len(in.Data) > 4000 {
				for _, ec := range []int{0, 1} {
					got, err := pdfcpuDecode(stage{Name: filter.LZW, Parms: map[string]int{"EarlyChange": ec}}, reflzw.Encode(in.Data, ec))
					if err != nil || !bytes.Equal(got, in.Data) {
						t.Count("reference_lzw_encoding_not_decoded_by_pdfcpu", 1)
					} else {
						t.Count("reference_lzw_encoding_decoded_by_pdfcpu", 1)
					}
				}
			}
		}
		t.Exhaustive(false)
	})
}
