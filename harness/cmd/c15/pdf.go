package main

// Byte-level helpers for the production-path check: a hand-crafted one-page PDF whose content
// stream uses a chosen filter pipeline, and a minimal independent reader for the classic
// (xref table, no object streams) files pdfcpu is told to write here. Nothing below uses pdfcpu.

import (
	"bytes"
	"errors"
	"fmt"
	"sort"
	"strconv"
	"strings"
)

func parmsPDF(m map[string]int) string {
	keys := make([]string, 0, len(m))
	for k := range m {
		keys = append(keys, k)
	}
	sort.Strings(keys)
	var b strings.Builder
	b.WriteString("<<")
	for _, k := range keys {
		fmt.Fprintf(&b, "/%s %d", k, m[k])
	}
	b.WriteString(">>")
	return b.String()
}

// craftPDF builds a one-page PDF 1.7 file; the page's content stream carries raw as stream data
// and declares pipeline pl (decode order).
func craftPDF(pl []stage, raw []byte) []byte {
	var filt, parms string
	hasParms := false
	switch len(pl) {
	case 0:
	case 1:
		filt = "/Filter /" + pl[0].Name
		if len(pl[0].Parms) > 0 {
			parms = "/DecodeParms " + parmsPDF(pl[0].Parms)
		}
	default:
		var f, p []string
		for _, s := range pl {
			f = append(f, "/"+s.Name)
			if len(s.Parms) > 0 {
				p = append(p, parmsPDF(s.Parms))
				hasParms = true
			} else {
				p = append(p, "null")
			}
		}
		filt = "/Filter [" + strings.Join(f, " ") + "]"
		if hasParms {
			parms = "/DecodeParms [" + strings.Join(p, " ") + "]"
		}
	}
	var b bytes.Buffer
	var offs []int
	obj := func(s string) {
		offs = append(offs, b.Len())
		fmt.Fprintf(&b, "%d 0 obj\n%s\nendobj\n", len(offs), s)
	}
	b.WriteString("%PDF-1.7\n%\xe2\xe3\xcf\xd3\n")
	obj("<</Type /Catalog /Pages 2 0 R>>")
	obj("<</Type /Pages /Kids [3 0 R] /Count 1>>")
	obj("<</Type /Page /Parent 2 0 R /MediaBox [0 0 300 300] /Contents 4 0 R /Resources <</Font <</F1 5 0 R>>>>>>")
	offs = append(offs, b.Len())
	fmt.Fprintf(&b, "4 0 obj\n<</Length %d %s %s>>\nstream\n", len(raw), filt, parms)
	b.Write(raw)
	b.WriteString("\nendstream\nendobj\n")
	obj("<</Type /Font /Subtype /Type1 /BaseFont /Helvetica /Encoding /WinAnsiEncoding>>")
	xref := b.Len()
	fmt.Fprintf(&b, "xref\n0 %d\n0000000000 65535 f \n", len(offs)+1)
	for _, o := range offs {
		fmt.Fprintf(&b, "%010d 00000 n \n", o)
	}
	fmt.Fprintf(&b, "trailer\n<</Size %d /Root 1 0 R>>\nstartxref\n%d\n%%%%EOF\n", len(offs)+1, xref)
	return b.Bytes()
}

// ---- minimal object parser

type pdfName string
type pdfRef struct{ Nr, Gen int }
type pdfDict map[string]any
type pdfArray []any
type pdfString []byte
type pdfNull struct{}

type parser struct {
	b []byte
	i int
}

func isWS(c byte) bool { return c == 0 || c == 9 || c == 10 || c == 12 || c == 13 || c == 32 }
func isDelim(c byte) bool {
	return strings.IndexByte("()<>[]{}/%", c) >= 0
}

func (p *parser) skipWS() {
	for p.i < len(p.b) {
		c := p.b[p.i]
		if isWS(c) {
			p.i++
		} else if c == '%' {
			for p.i < len(p.b) && p.b[p.i] != '\n' && p.b[p.i] != '\r' {
				p.i++
			}
		} else {
			return
		}
	}
}

func (p *parser) token() string {
	s := p.i
	for p.i < len(p.b) && !isWS(p.b[p.i]) && !isDelim(p.b[p.i]) {
		p.i++
	}
	return string(p.b[s:p.i])
}

func (p *parser) object() (any, error) {
	p.skipWS()
	if p.i >= len(p.b) {
		return nil, errors.New("unexpected end")
	}
	c := p.b[p.i]
	switch {
	case c == '/':
		p.i++
		return pdfName(p.token()), nil
	case c == '<' && p.i+1 < len(p.b) && p.b[p.i+1] == '<':
		p.i += 2
		d := pdfDict{}
		for {
			p.skipWS()
			if p.i+1 < len(p.b) && p.b[p.i] == '>' && p.b[p.i+1] == '>' {
				p.i += 2
				return d, nil
			}
			k, err := p.object()
			if err != nil {
				return nil, err
			}
			n, ok := k.(pdfName)
			if !ok {
				return nil, fmt.Errorf("dict key is %T", k)
			}
			v, err := p.object()
			if err != nil {
				return nil, err
			}
			d[string(n)] = v
		}
	case c == '<':
		e := bytes.IndexByte(p.b[p.i:], '>')
		if e < 0 {
			return nil, errors.New("unterminated hex string")
		}
		s := pdfString(p.b[p.i+1 : p.i+e])
		p.i += e + 1
		return s, nil
	case c == '(':
		depth, s := 0, p.i
		for ; p.i < len(p.b); p.i++ {
			switch p.b[p.i] {
			case '\\':
				p.i++
			case '(':
				depth++
			case ')':
				depth--
				if depth == 0 {
					p.i++
					return pdfString(p.b[s+1 : p.i-1]), nil
				}
			}
		}
		return nil, errors.New("unterminated string")
	case c == '[':
		p.i++
		var a pdfArray
		for {
			p.skipWS()
			if p.i < len(p.b) && p.b[p.i] == ']' {
				p.i++
				return a, nil
			}
			v, err := p.object()
			if err != nil {
				return nil, err
			}
			a = append(a, v)
		}
	}
	t := p.token()
	switch t {
	case "true":
		return true, nil
	case "false":
		return false, nil
	case "null":
		return pdfNull{}, nil
	case "":
		return nil, fmt.Errorf("unexpected %q at %d", c, p.i)
	}
	if n, err := strconv.Atoi(t); err == nil {
		// indirect reference "n g R"?
		save := p.i
		p.skipWS()
		g := p.token()
		if gn, err := strconv.Atoi(g); err == nil && g != "" {
			p.skipWS()
			if p.i < len(p.b) && p.b[p.i] == 'R' && (p.i+1 == len(p.b) || isWS(p.b[p.i+1]) || isDelim(p.b[p.i+1])) {
				p.i++
				return pdfRef{n, gn}, nil
			}
		}
		p.i = save
		return n, nil
	}
	if f, err := strconv.ParseFloat(t, 64); err == nil {
		return f, nil
	}
	return nil, fmt.Errorf("unexpected token %q", t)
}

type pdfObject struct {
	Val    any
	Stream []byte // nil when the object is not a stream
}

// readClassicPDF reads a file with a single classic cross-reference table (what pdfcpu writes with
// WriteXRefStream=false, WriteObjectStream=false).
func readClassicPDF(b []byte) (map[int]pdfObject, pdfDict, error) {
	sx := bytes.LastIndex(b, []byte("startxref"))
	if sx < 0 {
		return nil, nil, errors.New("no startxref")
	}
	p := &parser{b: b, i: sx + len("startxref")}
	p.skipWS()
	off, err := strconv.Atoi(p.token())
	if err != nil || off >= len(b) {
		return nil, nil, errors.New("bad startxref")
	}
	p.i = off
	if p.token() != "xref" {
		return nil, nil, errors.New("no classic xref table at startxref")
	}
	offsets := map[int]int{}
	for {
		p.skipWS()
		save := p.i
		t := p.token()
		if t == "trailer" {
			break
		}
		first, err := strconv.Atoi(t)
		if err != nil {
			p.i = save
			return nil, nil, fmt.Errorf("xref subsection: %q", t)
		}
		p.skipWS()
		cnt, err := strconv.Atoi(p.token())
		if err != nil {
			return nil, nil, errors.New("xref subsection count")
		}
		for k := 0; k < cnt; k++ {
			p.skipWS()
			o, _ := strconv.Atoi(p.token())
			p.skipWS()
			p.token()
			p.skipWS()
			if p.token() == "n" {
				offsets[first+k] = o
			}
		}
	}
	tr, err := p.object()
	if err != nil {
		return nil, nil, fmt.Errorf("trailer: %w", err)
	}
	trailer, _ := tr.(pdfDict)
	objs := map[int]pdfObject{}
	for nr, o := range offsets {
		q := &parser{b: b, i: o}
		q.skipWS()
		if n, _ := strconv.Atoi(q.token()); n != nr {
			return nil, nil, fmt.Errorf("object %d: wrong number at offset %d", nr, o)
		}
		q.skipWS()
		q.token()
		q.skipWS()
		if q.token() != "obj" {
			return nil, nil, fmt.Errorf("object %d: no obj keyword", nr)
		}
		v, err := q.object()
		if err != nil {
			return nil, nil, fmt.Errorf("object %d: %w", nr, err)
		}
		po := pdfObject{Val: v}
		q.skipWS()
		if bytes.HasPrefix(b[q.i:], []byte("stream")) {
			q.i += len("stream")
			if q.i < len(b) && b[q.i] == '\r' {
				q.i++
			}
			if q.i < len(b) && b[q.i] == '\n' {
				q.i++
			}
			d, _ := v.(pdfDict)
			l, ok := d["Length"].(int)
			if !ok || q.i+l > len(b) {
				return nil, nil, fmt.Errorf("object %d: stream without direct /Length", nr)
			}
			po.Stream = b[q.i : q.i+l : q.i+l]
			rest := bytes.TrimLeft(b[q.i+l:], "\r\n")
			if !bytes.HasPrefix(rest, []byte("endstream")) {
				return nil, nil, fmt.Errorf("object %d: /Length %d does not end at endstream", nr, l)
			}
		}
		objs[nr] = po
	}
	return objs, trailer, nil
}

func parmsOf(v any) map[string]int {
	m := map[string]int{}
	d, _ := v.(pdfDict)
	for k, x := range d {
		if n, ok := x.(int); ok {
			m[k] = n
		}
	}
	return m
}

// pipelineOf reads /Filter and /DecodeParms of a stream dictionary.
func pipelineOf(d pdfDict) ([]stage, error) {
	var names, parms []any
	switch f := d["Filter"].(type) {
	case nil:
		return nil, nil
	case pdfName:
		names = []any{f}
		parms = []any{d["DecodeParms"]}
	case pdfArray:
		names = f
		if a, ok := d["DecodeParms"].(pdfArray); ok {
			parms = a
		} else if d["DecodeParms"] != nil && len(f) == 1 {
			parms = []any{d["DecodeParms"]}
		}
	default:
		return nil, fmt.Errorf("/Filter is %T", f)
	}
	var pl []stage
	for i, n := range names {
		nm, ok := n.(pdfName)
		if !ok {
			return nil, fmt.Errorf("filter entry is %T", n)
		}
		s := stage{Name: string(nm)}
		if i < len(parms) {
			if m := parmsOf(parms[i]); len(m) > 0 {
				s.Parms = m
			}
		}
		pl = append(pl, s)
	}
	return pl, nil
}

// pageContentIndependent returns the concatenated decoded content streams of the first page,
// decoded with the reference decoders according to the dictionaries found in the file.
func pageContentIndependent(file []byte) ([]byte, []string, error) {
	objs, _, err := readClassicPDF(file)
	if err != nil {
		return nil, nil, err
	}
	var page pdfDict
	nrs := make([]int, 0, len(objs))
	for nr := range objs {
		nrs = append(nrs, nr)
	}
	sort.Ints(nrs)
	for _, nr := range nrs {
		if d, ok := objs[nr].Val.(pdfDict); ok && d["Type"] == pdfName("Page") {
			page = d
			break
		}
	}
	if page == nil {
		return nil, nil, errors.New("no page object")
	}
	var refs []pdfRef
	switch c := page["Contents"].(type) {
	case pdfRef:
		if a, ok := objs[c.Nr].Val.(pdfArray); ok {
			for _, x := range a {
				if r, ok := x.(pdfRef); ok {
					refs = append(refs, r)
				}
			}
		} else {
			refs = []pdfRef{c}
		}
	case pdfArray:
		for _, x := range c {
			if r, ok := x.(pdfRef); ok {
				refs = append(refs, r)
			}
		}
	default:
		return nil, nil, fmt.Errorf("page /Contents is %T", c)
	}
	var out []byte
	var dicts []string
	for _, r := range refs {
		o, ok := objs[r.Nr]
		if !ok || o.Stream == nil {
			return nil, dicts, fmt.Errorf("content object %d is not a stream", r.Nr)
		}
		d := o.Val.(pdfDict)
		pl, err := pipelineOf(d)
		if err != nil {
			return nil, dicts, fmt.Errorf("content object %d: %w", r.Nr, err)
		}
		dicts = append(dicts, fmt.Sprintf("obj %d: %v (%d bytes)", r.Nr, pl, len(o.Stream)))
		data := o.Stream
		for _, s := range pl {
			if data, err = refDecode(s, data); err != nil {
				return nil, dicts, fmt.Errorf("content object %d, filter %s %v: %w", r.Nr, s.Name, s.Parms, err)
			}
		}
		out = append(out, data...)
		out = append(out, '\n')
	}
	return out, dicts, nil
}
