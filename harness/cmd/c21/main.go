// C21 — every output produced from a valid input validates.
//
// For (operation, input, parameters) triples over the whole operation catalogue — inputs: opcat fixtures,
// corpus PDFs <= 1 MB and pdfgen documents (inherited attributes, object streams, hybrid xref, incremental
// updates, encrypted with an empty user password), every one accepted by api.ValidateFile in relaxed
// mode; parameters: opcat's seeded valid parameter generators — the operation is run through the public
// API; if it succeeds, every PDF it wrote must pass api.ValidateFile in relaxed mode. Strict-mode results
// of the same outputs are only counted.
package main

import (
	"crypto/sha256"
	"encoding/json"
	"errors"
	"fmt"
	"os"
	"path/filepath"
	"regexp"
	"sort"
	"strconv"
	"strings"
	"sync"

	"github.com/pdfcpu/pdfcpu/pkg/api"
	"github.com/pdfcpu/pdfcpu/pkg/pdfcpu"
	"verif/harness/internal/opcat"
	"verif/harness/internal/opwl"
	"verif/harness/internal/pdfstrict"
	"verif/harness/internal/strictsec"
	"verif/harness/internal/vk"
)

// password pairs (user, owner) any output of the catalogue / the pool can carry
var pwPairs = [][2]string{
	{"", ""}, {opcat.UserPW, opcat.OwnerPW}, {"u1", "o1"}, {"u2", "o2"},
	{"upwNew", opcat.OwnerPW}, {opcat.UserPW, "opwNew"}, {"", opwl.GenOwnerPW},
}

func isPasswordErr(err error) bool {
	if err == nil {
		return false
	}
	if errors.Is(err, pdfcpu.ErrWrongPassword) {
		return true
	}
	s := err.Error()
	return strings.Contains(s, "correct password") || strings.Contains(s, "password")
}

// validateAny validates path in the given mode, trying the password pairs until one opens the file.
func validateAny(path string, strict bool) error {
	var err error
	for _, p := range pwPairs {
		err = opwl.Validate(path, strict, p[0], p[1])
		if !isPasswordErr(err) {
			return err
		}
	}
	return err
}

var (
	reValidate    = regexp.MustCompile(`^validate \S+: `)
	reWrapper     = regexp.MustCompile(`(optimize context|optimize resources|resource dict|document catalog|catalog Pages|page tree|kid obj#[0-9]+|page [0-9]+( content decode)?|validation error \(obj#:[0-9]+\)( \(try --mode=relaxed\))?): `)
	reSubdict     = regexp.MustCompile(`missing required resource subdict: \w+:?`) // which subdict is named first depends on map order
	reFailingPage = regexp.MustCompile(`page ([0-9]+): missing required resource subdict`)
	rePath        = regexp.MustCompile(`\S*/\S+`)
	reDigits      = regexp.MustCompile(`[0-9]+`)
	reHex         = regexp.MustCompile(`\b[0-9a-fA-F]{8,}\b`)
	reKeep        = regexp.MustCompile(`[^A-Za-z0-9_.=:#<>()\[\]-]+`)
)

// normErr turns a validation error into the stable tail of a key: the wrappers that only say where the
// validator was ("validate <file>:", "optimize context:", "page 3:", "obj#12") are removed, paths, numbers and
// long hex runs are masked, the first eight words are kept.
func normErr(err error) string {
	s := err.Error()
	s = strings.TrimPrefix(s, "panic: ")
	s = reValidate.ReplaceAllString(s, "")
	if i := strings.Index(s, "PageResourceNames:"); i >= 0 { // the list that follows is printed in map order
		s = s[:i]
	}
	s = reSubdict.ReplaceAllString(s, "missing required resource subdict")
	s = reWrapper.ReplaceAllString(s, "")
	s = rePath.ReplaceAllString(s, "PATH")
	s = reHex.ReplaceAllString(s, "H")
	s = reDigits.ReplaceAllString(s, "N")
	w := strings.Fields(s)
	if len(w) > 8 {
		w = w[:8]
	}
	s = reKeep.ReplaceAllString(strings.Join(w, "-"), "-")
	return strings.Trim(s, "-")
}

func hasPredictor(d *pdfstrict.Doc, dict pdfstrict.Dict) bool {
	one := func(o pdfstrict.Object) bool {
		if pd, ok := d.ResolveDict(o); ok {
			if n, ok := pdfstrict.Number(d.Resolve(pd["Predictor"])); ok && n > 1 {
				return true
			}
		}
		return false
	}
	switch v := d.Resolve(dict["DecodeParms"]).(type) {
	case pdfstrict.Array:
		for _, x := range v {
			if one(x) {
				return true
			}
		}
	case pdfstrict.Dict:
		return one(v)
	}
	return false
}

// predictorStreamRewritten reports whether the PDF at outPath has a page content stream that declares a
// predictor and whose data is not one of the streams of the inputs, i.e. pdfcpu re-encoded a stream while
// keeping its /DecodeParms. pdfcpu's Flate encoder ignores the predictor (recorded under C15), so such a
// stream no longer decodes to what was written; C21 reports all its consequences under one key.
func predictorStreamRewritten(inputs [][]byte, outPath string) bool {
	known := map[[32]byte]bool{}
	for _, b := range inputs {
		d, _, _ := strictsec.Open(b, opwl.Passwords, pdfstrict.Options{})
		if d == nil {
			continue
		}
		for _, n := range d.Objects() {
			e, _ := d.Entry(n)
			if o, err := d.Get(pdfstrict.Ref{Num: n, Gen: e.Gen}); err == nil {
				if st, ok := o.(*pdfstrict.Stream); ok && st.Plain != nil {
					known[sha256.Sum256(st.Plain)] = true
				}
			}
		}
	}
	data, err := os.ReadFile(outPath)
	if err != nil {
		return false
	}
	d, _, _ := strictsec.Open(data, opwl.Passwords, pdfstrict.Options{})
	if d == nil {
		return false
	}
	pages, _ := d.Pages()
	for _, p := range pages {
		var cs []pdfstrict.Object
		switch c := d.Resolve(p.Dict["Contents"]).(type) {
		case pdfstrict.Array:
			cs = c
		case *pdfstrict.Stream:
			cs = []pdfstrict.Object{c}
		}
		for _, c := range cs {
			if st, ok := d.Resolve(c).(*pdfstrict.Stream); ok && st.Plain != nil && hasPredictor(d, st.Dict) && !known[sha256.Sum256(st.Plain)] {
				return true
			}
		}
	}
	return false
}

// sharedStreamRewritten reports whether the page the validator complains about (failingPage, 1-based) uses a
// content stream object that two or more pages share and whose data is not one of the streams of the inputs: pdfcpu patched a shared content
// stream in place (stamps, CreateFile on existing pages), which also changes pages that were not selected.
func sharedStreamRewritten(inputs [][]byte, outPath string, failingPage int) bool {
	known := map[[32]byte]bool{}
	for _, b := range inputs {
		d, _, _ := strictsec.Open(b, opwl.Passwords, pdfstrict.Options{})
		if d == nil {
			continue
		}
		for _, n := range d.Objects() {
			e, _ := d.Entry(n)
			if o, err := d.Get(pdfstrict.Ref{Num: n, Gen: e.Gen}); err == nil {
				if st, ok := o.(*pdfstrict.Stream); ok && st.Plain != nil {
					known[sha256.Sum256(st.Plain)] = true
				}
			}
		}
	}
	data, err := os.ReadFile(outPath)
	if err != nil {
		return false
	}
	d, _, _ := strictsec.Open(data, opwl.Passwords, pdfstrict.Options{})
	if d == nil {
		return false
	}
	pages, _ := d.Pages()
	users := map[int]int{}
	onFailing := map[int]bool{} // content stream objects of the page the validator complains about
	for pi, p := range pages {
		var refs []pdfstrict.Object
		switch c := p.Dict["Contents"].(type) {
		case pdfstrict.Ref:
			if a, ok := d.Resolve(c).(pdfstrict.Array); ok {
				refs = a
			} else {
				refs = []pdfstrict.Object{c}
			}
		case pdfstrict.Array:
			refs = c
		}
		seen := map[int]bool{}
		for _, r := range refs {
			if ref, ok := r.(pdfstrict.Ref); ok && !seen[ref.Num] {
				seen[ref.Num] = true
				users[ref.Num]++
				if pi+1 == failingPage {
					onFailing[ref.Num] = true
				}
			}
		}
	}
	for num, n := range users {
		if n < 2 || !onFailing[num] {
			continue
		}
		if st, ok := d.Resolve(pdfstrict.Ref{Num: num}).(*pdfstrict.Stream); ok && st.Plain != nil && !known[sha256.Sum256(st.Plain)] {
			return true
		}
	}
	return false
}

type outVerdict struct {
	file    string
	relaxed error
	strict  error
	c15     bool // the output holds a rewritten page content stream that declares a predictor (root cause recorded under C15)
	shared  bool // "missing required resource subdict" and the output holds a rewritten content stream shared by several pages
}

type caseOut struct {
	void      string
	inputBad  string // an input of the case does not validate (derived fixture): the case does not count
	failed    string
	panicked  string
	outs      []outVerdict
	others    int
	unchecked int
	inStrict  bool   // every PDF input of the case passes strict validation
	derived   string // "enc" | "wm" | "boxes": the invalid input was derived from a valid pool document by pdfcpu itself
	derivedE  error
}

const maxOutputsPerCase = 24

type replayCase struct {
	Index   int    `json:"index"`
	Op      string `json:"op"`
	Input   string `json:"input"`
	InPlace bool   `json:"in_place"`
	Random  bool   `json:"random_params"`
	File    string `json:"file"`
	Error   string `json:"error"`
}

func main() {
	vk.Run("C21", "exploration", func(t *vk.T) {
		api.DisableConfigDir()
		t.Rule("case = (opcat operation writing PDFs, input = fixture | corpus PDF <= 1 MB | pdfgen document | feature document (the structure the operation family rewrites exists already: catalog XMP stored unfiltered / Flate / ASCIIHex+Flate / LZW with and without pdf:Keywords, dc:subject and Info Keywords for keyword, property, optimize, write and encrypt operations; outlines for bookmark and page operations; name trees with kids for attachment operations; direct and indirect /OCProperties with own groups for stamp operations; viewer preferences; flat and tree page labels; AcroForm) — all accepted by api.ValidateFile relaxed —, seeded valid parameters, new output | in place); for a call that succeeds every PDF output must pass api.ValidateFile in relaxed mode; non-trivial = distinct (operation, input) pairs with at least one validated output")
		t.Assume("strict-mode validation of the outputs is only counted, never a verdict (the property names relaxed mode): strict_invalid = outputs failing strict mode, strict_regression/<op> = those whose inputs all pass strict mode")
		t.Assume("outputs that fail because pdfcpu re-encoded a page content stream that declares a /Predictor (Flate encoder ignores predictors: known finding of C15) are reported under the single key class=output-invalid/cause=predictor-content-stream-rewritten; the cause is established on the output bytes with pdfstrict, not from the error text")
		t.Assume("outputs failing with \"page N: missing required resource subdict\" where page N uses a content stream object shared with other pages whose data pdfcpu rewrote (stamp / CreateFile on a proper subset of the pages sharing it) are reported under the single key class=output-invalid/cause=shared-content-stream-rewritten")
		t.Assume("operations that copy bytes (PatchFile, pdfcpu.Write*, pdfcpu.CopyFile) or have no PDF output are out of scope; at most 24 outputs per call are validated (first 12 and last 12 by name)")
		t.Assume("derived inputs (fixture shapes enc/wm/boxes made from a pool document with pdfcpu) are validated before use; a derived input that does not validate is charged to the deriving operation (EncryptFile, AddWatermarksFile/text, AddBoxesFile) as an invalid output, except for the predictor signature, which is only counted (derived_input_invalid_predictor_signature); the case itself is void")

		ops := opwl.PDFOps()
		pool := opwl.BuildPool(t, opwl.PoolOptions{Corpus: t.Pick(160, 2000), Gen: t.Pick(60, 500), Strict: true, Features: true})
		n := t.Pick(600, 15000)
		plans := pool.Plans(t, ops, n)
		// feature cases: every operation of a family on inputs in which the structure it rewrites already exists
		// in a representation pdfcpu does not write itself (internal/opwl/features.go)
		family := map[int]string{}
		for _, fp := range pool.FeaturePlans(t, ops, t.Pick(1, 4), n) {
			family[fp.Index] = fp.Family + "/" + fp.Tag
			plans = append(plans, fp.Plan)
			t.Count("feature_cases/"+fp.Family+"/"+fp.Tag, 1)
		}
		n = len(plans)
		for k, c := range pool.FeatureCounts() {
			// general/<tag>: inputs of the randomly substituted pool carrying the feature; feature/<tag>: feature documents
			t.Count("pool_feature/"+k, int64(c))
		}
		t.Count("pool_feature_documents_rejected_by_validate", int64(pool.FeatureRejected))
		t.Extra("operations", len(ops))
		t.Extra("pool", pool.TagCounts())
		t.Count("pool_inputs", int64(len(pool.Inputs)))
		t.Count("pool_corpus_candidates", int64(pool.CorpusCandidates))
		t.Count("pool_corpus_rejected_by_validate", int64(pool.CorpusRejected))
		t.Count("pool_pdfgen_rejected_by_validate", int64(pool.GenRejected))

		// the fixtures themselves must be valid inputs
		fxValid := map[string]error{}
		fxStrict := map[string]bool{}
		for _, fx := range opcat.FixtureNames() {
			if strings.HasSuffix(fx, ".pdf") {
				fxValid[fx] = validateAny(filepath.Join(pool.Fx, fx), false)
				fxStrict[fx] = validateAny(filepath.Join(pool.Fx, fx), true) == nil
			}
		}
		var fxMu sync.Mutex

		only := -1
		if t.Replay != nil {
			var rc replayCase
			if json.Unmarshal(t.Replay.Case, &rc) == nil && rc.Index >= 0 && rc.Index < n {
				only = rc.Index
			}
		}
		outs := make([]caseOut, n)
		vk.Parallel(n, func(i int) {
			if only >= 0 && i != only {
				outs[i].void = "not the replayed case"
				return
			}
			pl := plans[i]
			dir := filepath.Join(t.Scratch(), "cases", fmt.Sprint(i))
			if os.Getenv("VERIF_KEEP") == "" {
				defer os.RemoveAll(dir)
			}
			var co caseOut
			res := pool.Run(dir, pl, t.RNGi("c21-params", i), opwl.RunOptions{Prep: func(fx, path string) error {
				_, substituted := pl.Subs[fx]
				switch {
				case pl.Derive[fx] != "":
					if err := validateAny(path, false); err != nil {
						co.inputBad = fmt.Sprintf("%s derived from %s: %v", pl.Derive[fx], pool.Inputs[pl.Subs[fx]].Name, err)
						co.derived, co.derivedE = pl.Derive[fx], err
						return errors.New("derived input invalid")
					}
				case substituted: // validated when the pool was built
				default:
					fxMu.Lock()
					err, known := fxValid[fx]
					fxMu.Unlock()
					if known && err != nil {
						co.inputBad = fmt.Sprintf("fixture %s: %v", fx, err)
						return errors.New("fixture invalid")
					}
				}
				return nil
			}})
			switch {
			case co.inputBad != "":
			case res.SetupErr != nil:
				co.void = res.SetupErr.Error()
			case res.Panic != nil:
				co.panicked = opwl.PanicFrame(res.PanicStack)
			case res.Err != nil:
				co.failed = res.Err.Error()
			default:
				co.others = res.Others
				co.inStrict = true
				inputBytes := [][]byte{res.InBytes}
				for _, fx := range append([]string{pl.Op.Input}, pl.Op.Extra...) {
					if !strings.HasSuffix(fx, ".pdf") {
						continue
					}
					if si, ok := pl.Subs[fx]; ok {
						co.inStrict = co.inStrict && pl.Derive[fx] == "" && pool.Inputs[si].StrictOK
					} else {
						co.inStrict = co.inStrict && fxStrict[fx]
					}
					if fx != pl.Op.Input {
						if b, err := os.ReadFile(filepath.Join(dir, fx)); err == nil {
							inputBytes = append(inputBytes, b)
						}
					}
				}
				files := res.Outputs
				if len(files) > maxOutputsPerCase {
					co.unchecked = len(files) - maxOutputsPerCase
					files = append(append([]string{}, files[:maxOutputsPerCase/2]...), files[len(files)-maxOutputsPerCase/2:]...)
				}
				for _, f := range files {
					v := outVerdict{file: filepath.Base(f)}
					v.relaxed = validateAny(f, false)
					v.strict = validateAny(f, true)
					if v.relaxed != nil {
						v.c15 = predictorStreamRewritten(inputBytes, f)
						if m := reFailingPage.FindStringSubmatch(v.relaxed.Error()); !v.c15 && m != nil {
							n, _ := strconv.Atoi(m[1])
							v.shared = sharedStreamRewritten(inputBytes, f, n)
						}
					}
					co.outs = append(co.outs, v)
				}
			}
			outs[i] = co
		})

		// ---- sequential accounting in case order
		succeeded := map[string]int{}
		firstErr := map[string]string{}
		errKinds := map[string]map[string]int{}
		type hit struct {
			i     int
			v     outVerdict
			count int
			ins   map[string]bool
			ops   map[string]bool
		}
		hits := map[string]*hit{}
		var order []string
		samples := 0
		for i, co := range outs {
			if only >= 0 && i != only {
				continue
			}
			pl := plans[i]
			name := pl.Op.Name
			switch {
			case co.inputBad != "":
				t.Count("input_invalid_derived_or_fixture", 1)
				if os.Getenv("VERIF_C21_DEBUG") != "" {
					fmt.Fprintf(os.Stderr, "input invalid: case %d %s: %s\n", i, name, co.inputBad)
				}
				if co.derived != "" {
					// the derivation is itself an operation on a valid input whose output must validate
					dop := map[string]string{"enc": "EncryptFile", "wm": "AddWatermarksFile/text", "boxes": "AddBoxesFile"}[co.derived]
					if strings.Contains(co.derivedE.Error(), "content decode: stream filter") {
						// signature of a re-encoded predictor stream; the directly driven operations report it with proof
						t.Count("derived_input_invalid_predictor_signature", 1)
					} else {
						key := "op=" + dop + "/class=output-invalid/" + normErr(co.derivedE)
						t.Violate(key, fmt.Sprintf("%s (run to derive the input of case %d, %s) succeeded on a valid pool document but its output does not validate (relaxed): %s", dop, i, name, co.inputBad),
							replayCase{Index: i, Op: name, Input: pl.InputName(pool), InPlace: pl.InPlace, Random: pl.Random, File: "(derived input)", Error: co.inputBad})
					}
				}
				if firstErr[name] == "" {
					firstErr[name] = "input: " + co.inputBad
				}
				continue
			case co.void != "":
				t.Count("cases_void_setup", 1)
				continue
			case co.panicked != "":
				t.Count("pdfcpu_panics", 1)
				t.Count("pdfcpu_panic/"+name+"/"+co.panicked, 1)
				continue
			case co.failed != "":
				t.Count("op_returned_error", 1)
				t.Eval("")
				if firstErr[name] == "" {
					firstErr[name] = co.failed
				}
				if errKinds[name] == nil {
					errKinds[name] = map[string]int{}
				}
				errKinds[name][normErr(errors.New(co.failed))]++
				continue
			}
			succeeded[name]++
			t.Count("cases_succeeded", 1)
			if f := family[i]; f != "" {
				t.Count("feature_cases_succeeded/"+f, 1)
			}
			t.Count("cases_succeeded/input="+pl.InputKind(pool), 1)
			t.Count("outputs_unvalidated_over_cap", int64(co.unchecked))
			if len(co.outs) == 0 {
				t.Eval("")
				t.Count("cases_without_pdf_output", 1)
				continue
			}
			t.Eval(name + "|" + pl.InputName(pool))
			for _, v := range co.outs {
				t.Count("outputs_validated", 1)
				if v.strict != nil {
					t.Count("strict_invalid", 1)
					if co.inStrict {
						// the inputs pass strict validation, the output does not (a count, not a verdict)
						t.Count("strict_regression", 1)
						t.Count("strict_regression/"+name, 1)
					}
				}
				if v.relaxed == nil {
					continue
				}
				t.Count("relaxed_invalid", 1)
				key := "op=" + name + "/class=output-invalid/" + normErr(v.relaxed)
				if v.c15 {
					key = "class=output-invalid/cause=predictor-content-stream-rewritten"
					t.Count("relaxed_invalid_c15_rooted", 1)
				} else if v.shared {
					key = "class=output-invalid/cause=shared-content-stream-rewritten"
					t.Count("relaxed_invalid_shared_content_stream", 1)
				}
				h := hits[key]
				if h == nil {
					h = &hit{i: i, v: v, ins: map[string]bool{}, ops: map[string]bool{}}
					hits[key] = h
					order = append(order, key)
				}
				h.count++
				h.ins[pl.InputName(pool)] = true
				h.ops[name] = true
			}
			if samples < 6 && i%97 == 0 {
				samples++
				t.Sample(map[string]any{"op": name, "input": pl.InputName(pool), "in_place": pl.InPlace, "random_params": pl.Random, "outputs": len(co.outs), "first_output": co.outs[0].file})
			}
		}
		for _, key := range order {
			h := hits[key]
			pl := plans[h.i]
			var ins []string
			for k := range h.ins {
				ins = append(ins, k)
			}
			sort.Strings(ins)
			if len(ins) > 5 {
				ins = append(ins[:5], fmt.Sprintf("… (%d inputs)", len(h.ins)))
			}
			var opl []string
			for k := range h.ops {
				opl = append(opl, k)
			}
			sort.Strings(opl)
			what := fmt.Sprintf("%s succeeded but its output %s does not validate (relaxed): %v [%d output(s); operations %s; inputs %s; first: case %d, in place=%v, random parameters=%v]",
				pl.Op.Name, h.v.file, h.v.relaxed, h.count, strings.Join(opl, ","), strings.Join(ins, ", "), h.i, pl.InPlace, pl.Random)
			t.Violate(key, what, replayCase{Index: h.i, Op: pl.Op.Name, Input: pl.InputName(pool), InPlace: pl.InPlace, Random: pl.Random, File: h.v.file, Error: h.v.relaxed.Error()})
		}
		if only >= 0 {
			return
		}
		var never []string
		for _, op := range ops {
			t.Count("op_succeeded/"+op.Name, int64(succeeded[op.Name]))
			if succeeded[op.Name] == 0 {
				never = append(never, op.Name)
				t.Inconclusive("op-never-succeeded/" + op.Name + ": " + firstErr[op.Name])
			}
		}
		t.Extra("operations_never_succeeded", never)
		top := map[string]string{}
		for name, m := range errKinds {
			best, bn := "", 0
			for k, c := range m {
				if c > bn || (c == bn && k < best) {
					best, bn = k, c
				}
			}
			top[name] = fmt.Sprintf("%d× %s", bn, best)
		}
		t.Extra("most_frequent_refusal_per_operation", top)
		if t.Counter("outputs_validated") == 0 {
			t.Broken("no output was validated")
		}
	})
}
