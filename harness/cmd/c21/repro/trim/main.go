// trim: TrimFile / CollectFile with a page selection that selects no existing page.
//
//	trim <in.pdf> <trim|collect> <selection>...
package main

import (
	"fmt"
	"os"
	"path/filepath"

	"github.com/pdfcpu/pdfcpu/pkg/api"
	"github.com/pdfcpu/pdfcpu/pkg/pdfcpu/model"
	"verif/harness/internal/opwl"
)

func main() {
	api.DisableConfigDir()
	in, op, sel := os.Args[1], os.Args[2], os.Args[3:]
	dir, _ := os.MkdirTemp(os.Getenv("VERIF_CACHE")+"/run", "c21trim-")
	defer os.RemoveAll(dir)
	out := filepath.Join(dir, "out.pdf")
	conf := model.NewDefaultConfiguration()
	conf.Offline = true
	n, _ := api.PageCountFile(in)
	var err error
	if op == "trim" {
		err = api.TrimFile(in, out, sel, conf)
	} else {
		err = api.CollectFile(in, out, sel, conf)
	}
	fi, serr := os.Stat(out)
	size := int64(-1)
	if serr == nil {
		size = fi.Size()
	}
	fmt.Printf("%s pages=%d op=%s selection=%v: err=%v, output size=%d\n", filepath.Base(in), n, op, sel, err, size)
	if serr == nil {
		fmt.Println("  validate relaxed:", opwl.Validate(out, false))
	}
}
