// repro: validate the given PDFs with api.ValidateFile in relaxed and strict mode (hermetic configuration);
// with -dump also print, per page, the page dictionary, its content stream dictionaries and the start of the
// decoded content as seen by the independent reader pdfstrict.
//
//	repro [-dump] file.pdf...
package main

import (
	"fmt"
	"os"

	"github.com/pdfcpu/pdfcpu/pkg/api"
	"verif/harness/internal/opwl"
	"verif/harness/internal/pdfstrict"
	"verif/harness/internal/strictsec"
)

func show(d *pdfstrict.Doc, o pdfstrict.Object) string {
	return d.Canonical(o, pdfstrict.CanonOpts{})
}

func main() {
	api.DisableConfigDir()
	dump := false
	for _, f := range os.Args[1:] {
		if f == "-dump" {
			dump = true
			continue
		}
		fmt.Printf("%s\n  relaxed: %v\n  strict:  %v\n", f, opwl.Validate(f, false), opwl.Validate(f, true))
		if !dump {
			continue
		}
		data, _ := os.ReadFile(f)
		d, _, err := strictsec.Open(data, opwl.Passwords, pdfstrict.Options{})
		if err != nil {
			fmt.Println("  pdfstrict:", err)
			continue
		}
		pages, perr := d.Pages()
		fmt.Println("  pages:", len(pages), perr)
		for i, p := range pages {
			fmt.Printf("  page %d %v rotate=%d media=%v own keys=%v\n", i+1, p.Ref, p.Rotate, p.MediaBox, p.Dict.Keys())
			if rd, ok := d.ResolveDict(p.Resources); ok {
				for _, k := range rd.Keys() {
					if sd, ok := d.ResolveDict(rd[k]); ok {
						fmt.Printf("    resources %s: %v\n", k, sd.Keys())
					}
				}
			} else {
				fmt.Println("    NO RESOURCES")
			}
			var cs []pdfstrict.Object
			switch c := d.Resolve(p.Dict["Contents"]).(type) {
			case pdfstrict.Array:
				cs = c
			case *pdfstrict.Stream:
				cs = []pdfstrict.Object{p.Dict["Contents"]}
			}
			for _, c := range cs {
				if st, ok := d.Resolve(c).(*pdfstrict.Stream); ok {
					b, derr := d.DecodeStream(st)
					if len(b) > 160 {
						b = b[:160]
					}
					fmt.Printf("    content %v Filter=%v DecodeParms=%v len=%d err=%v\n      %q\n", c, st.Dict["Filter"], st.Dict["DecodeParms"], len(st.Raw), derr, b)
				}
			}
			if p.ContentErr != nil {
				fmt.Println("    content error:", p.ContentErr)
			}
		}
	}
}
