// zip: MergeCreateZipFile(a, b) and validation of the result.
//
//	zip <a.pdf> <b.pdf> [keep]
package main

import (
	"fmt"
	"os"
	"path/filepath"

	"github.com/pdfcpu/pdfcpu/pkg/api"
	"github.com/pdfcpu/pdfcpu/pkg/pdfcpu/model"
	"verif/harness/internal/opwl"
)

func main() {
	api.DisableConfigDir()
	dir, _ := os.MkdirTemp(os.Getenv("VERIF_CACHE")+"/run", "c21zip-")
	if len(os.Args) < 4 {
		defer os.RemoveAll(dir)
	}
	out := filepath.Join(dir, "out.pdf")
	conf := model.NewDefaultConfiguration()
	conf.Offline = true
	na, _ := api.PageCountFile(os.Args[1])
	nb, _ := api.PageCountFile(os.Args[2])
	err := api.MergeCreateZipFile(os.Args[1], os.Args[2], out, conf)
	fmt.Printf("zip %s (%d pages) + %s (%d pages): err=%v\n", filepath.Base(os.Args[1]), na, filepath.Base(os.Args[2]), nb, err)
	if err == nil {
		fmt.Println("  output:", out)
		fmt.Println("  validate relaxed:", opwl.Validate(out, false))
	}
}
