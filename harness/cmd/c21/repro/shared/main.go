// shared: stamping a proper subset of pages that share one content stream object.
// pkg/samples/cut/cutCustom_page_1.pdf (written by pdfcpu's cut): pages 2-5 all use content stream 6 0 R.
// AddTextWatermarksFile on pages 2-4 succeeds; the shared stream now paints /Fm0 with /GS0 on page 5 too,
// whose /Resources were not extended: the output no longer validates (and page 5 shows a stamp nobody asked for).
package main

import (
	"fmt"
	"os"
	"path/filepath"

	"github.com/pdfcpu/pdfcpu/pkg/api"
	"github.com/pdfcpu/pdfcpu/pkg/pdfcpu/model"
	"verif/harness/internal/opwl"
	"verif/harness/internal/vk"
)

func main() {
	api.DisableConfigDir()
	in := filepath.Join(vk.RepoDir(), "pkg/samples/cut/cutCustom_page_1.pdf")
	if len(os.Args) > 1 {
		in = os.Args[1]
	}
	dir, _ := os.MkdirTemp(os.Getenv("VERIF_CACHE")+"/run", "c21shared-")
	defer os.RemoveAll(dir)
	out := filepath.Join(dir, "out.pdf")
	conf := model.NewDefaultConfiguration()
	conf.Offline = true
	fmt.Println("input validates (relaxed):", opwl.Validate(in, false))
	err := api.AddTextWatermarksFile(in, out, []string{"2-4"}, true, "Stamp", "scale:.5, rot:-30", conf)
	fmt.Println("AddTextWatermarksFile pages 2-4:", err)
	if err == nil {
		fmt.Println("output validates (relaxed):", opwl.Validate(out, false))
	}
}
