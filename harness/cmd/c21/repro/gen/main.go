// gen: write pool document gen/<i> of a seed to a file (same bytes as the workers' pool).
//
//	gen <seed> <i> <out.pdf>
//	gen <seed> feature:<j> <out.pdf>   feature document j (internal/opwl/features.go)
package main

import (
	"fmt"
	"hash/fnv"
	"math/rand/v2"
	"os"
	"strconv"
	"strings"

	"verif/harness/internal/opwl"
)

func main() {
	seed, _ := strconv.ParseUint(os.Args[1], 10, 64)
	if strings.HasPrefix(os.Args[2], "feature:") {
		j, _ := strconv.Atoi(strings.TrimPrefix(os.Args[2], "feature:"))
		h := fnv.New64a()
		h.Write([]byte("opwl-feature#" + strconv.Itoa(j))) // vk: t.RNGi("opwl-feature", j)
		in, data := opwl.GenFeature(rand.New(rand.NewPCG(seed, h.Sum64())), j)
		if in == nil {
			fmt.Println("no such feature document")
			os.Exit(1)
		}
		os.WriteFile(os.Args[3], data, 0o644)
		fmt.Printf("%s pages=%d tags=%v\n", in.Name, in.Pages, in.Tags)
		return
	}
	i, _ := strconv.Atoi(os.Args[2])
	h := fnv.New64a()
	h.Write([]byte("opwl-gen#" + strconv.Itoa(i))) // vk: t.RNGi("opwl-gen", i)
	in, data := opwl.GenDoc(rand.New(rand.NewPCG(seed, h.Sum64())), i)
	if in == nil {
		fmt.Println("not buildable")
		os.Exit(1)
	}
	os.WriteFile(os.Args[3], data, 0o644)
	fmt.Printf("%s pages=%d enc=%q tags=%v\n", in.Name, in.Pages, in.Enc, in.Tags)
}
