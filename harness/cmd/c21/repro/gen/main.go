// gen: write pool document gen/<i> of a seed to a file (same bytes as the workers' pool).
//
//	gen <seed> <i> <out.pdf>
package main

import (
	"fmt"
	"hash/fnv"
	"math/rand/v2"
	"os"
	"strconv"

	"verif/harness/internal/opwl"
)

func main() {
	seed, _ := strconv.ParseUint(os.Args[1], 10, 64)
	i, _ := strconv.Atoi(os.Args[2])
	h := fnv.New64a()
	h.Write([]byte("opwl-gen#" + strconv.Itoa(i))) // vk: t.RNGi("opwl-gen", i)
	in, data := opwl.GenDoc(rand.New(rand.NewPCG(seed, h.Sum64())), i)
	if in == nil {
		fmt.Println("not buildable")
		os.Exit(1)
	}
	os.WriteFile(os.Args[3], data, 0o644)
	fmt.Printf("%s pages=%d enc=%q tags=%v\n", in.Name, in.Pages, in.Enc, in.Tags)
}
