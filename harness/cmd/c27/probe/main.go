// probe: development aid (not a check) — timing of validations, sequential vs parallel.
package main

import (
	"fmt"
	"os"
	"runtime"
	"runtime/pprof"
	"time"

	"verif/harness/internal/sigenv"
	"verif/harness/internal/sigkit"
	"verif/harness/internal/vk"
)

func main() {
	scratch := "/verif/.cache/run/probe-c27"
	os.MkdirAll(scratch, 0o755)
	defer os.RemoveAll(scratch)
	env, err := sigenv.Start(scratch)
	if err != nil {
		panic(err)
	}
	now := time.Now()
	pki, _ := sigkit.NewPKI(sigkit.PKIOptions{Alg: "rsa", CRLURL: env.Base + "/rsa.crl"}, now)
	env.Serve("/rsa.crl", pki.CRL)
	env.Trust("ca", pki.CAPEM())
	s, err := sigkit.BuildSigned(pki, sigkit.DocOptions{SubFilters: []string{sigkit.SFDetached}}, now)
	if err != nil {
		panic(err)
	}
	fmt.Println("GOMAXPROCS", runtime.GOMAXPROCS(0))
	N := 400
	for _, online := range []bool{true, false} {
		for _, tamper := range []bool{false, true} {
			b := append([]byte(nil), s.Bytes...)
			if tamper {
				b[100] ^= 1
			}
			t0 := time.Now()
			for i := 0; i < N; i++ {
				env.Validate(b, online)
			}
			seq := time.Since(t0)
			t0 = time.Now()
			vk.Parallel(N*8, func(i int) { env.Validate(b, online) })
			par := time.Since(t0)
			fmt.Printf("online=%v tamper=%v seq %.2f ms/op, parallel %.2f ms/op\n", online, tamper, seq.Seconds()*1000/float64(N), par.Seconds()*1000/float64(N*8))
		}
	}
	f, _ := os.Create("/verif/.cache/run/c27.prof")
	pprof.StartCPUProfile(f)
	b := append([]byte(nil), s.Bytes...)
	b[100] ^= 1
	vk.Parallel(N*8, func(i int) { env.Validate(b, true) })
	pprof.StopCPUProfile()
	f.Close()
}
