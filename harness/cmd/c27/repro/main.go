// repro: a by-product of C27's tampering (not a C27 violation: an escaping panic is C08's subject).
// One flipped byte in the cross-reference STREAM of a harness-signed file (an entry's type
// byte 0x00 -> 0x20) makes pdfcpu panic with a nil dereference in
// model.(*XRefTable).EnsureValidFreeList; the panic escapes api.ValidateSignaturesRaw and
// api.Validate (fault.Catch re-panics).
//
//	. /verif/env.sh; cd /verif/harness; $GO125 run -tags verif ./cmd/c27/repro
package main

import (
	"bytes"
	"fmt"
	"os"
	"path/filepath"
	"runtime/debug"
	"strings"

	"github.com/pdfcpu/pdfcpu/pkg/api"
	"github.com/pdfcpu/pdfcpu/pkg/pdfcpu/model"
)

func try(name string, f func() error) {
	defer func() {
		if r := recover(); r != nil {
			fr := ""
			for _, ln := range strings.Split(string(debug.Stack()), "\n") {
				if strings.HasPrefix(ln, "github.com/pdfcpu/pdfcpu/") && !strings.Contains(ln, "fault.") {
					fr = ln
					break
				}
			}
			fmt.Printf("%s: PANIC escaped: %v at %s\n", name, r, fr)
		}
	}()
	fmt.Printf("%s: err=%v\n", name, f())
}

func main() {
	api.DisableConfigDir()
	dir := "cmd/c27/repro"
	if len(os.Args) > 1 {
		dir = os.Args[1]
	}
	b, err := os.ReadFile(filepath.Join(dir, "freelist-panic.pdf"))
	if err != nil {
		panic(err)
	}
	model.TrustedCertDir, _ = os.MkdirTemp("/verif/.cache/run", "c27repro-")
	defer os.RemoveAll(model.TrustedCertDir)
	conf := func() *model.Configuration { c := model.NewDefaultConfiguration(); c.Offline = true; return c }
	try("ValidateSignaturesRaw", func() error { _, err := api.ValidateSignaturesRaw(bytes.NewReader(b), true, conf()); return err })
	try("Validate", func() error { return api.Validate(bytes.NewReader(b), conf()) })
}
