// C27 — tampering with signed bytes is never reported as a valid signature.
//
// Workload. PRIMARY: documents signed by the harness itself (internal/sigkit: own PKI with fixed
// throw-away keys, own DER/CMS encoder, own PDF signing; nothing from pdfcpu) for every supported
// SubFilter — adbe.pkcs7.detached, ETSI.CAdES.detached, adbe.pkcs7.sha1, adbe.x509.rsa_sha1 and
// the ETSI.RFC3161 document time-stamp — with RSA and ECDSA hierarchies, classic and stream
// cross-references, one and two signed revisions. They are validated in internal/sigenv's
// environment (harness CA trusted, CRL served from a loopback listener, DNS disabled), in which the
// UNTAMPERED document is reported Status Valid. SECONDARY: the signed samples shipped with pdfcpu
// (offline; their certificates have expired, so they only count where a positive baseline exists).
//
// Pre-condition per (file, signature): the untampered file reports a positive result (Status
// Valid, DocModified False or Reason DocNotModified); otherwise the signature is listed as
// inconclusive and its tamperings are recorded as observations only.
//
// Modifications and oracle. Bit flips at EVERY covered offset for files <= 8 KiB (one seeded bit per
// offset in the quick tier, all eight in the thorough tier), 4096 seeded offsets plus every offset
// within 64 bytes of a range boundary otherwise; an edit of every byte of the signature value,
// classified by what the byte belongs to (signature, signed attributes, message digest,
// encapsulated content / time-stamp imprint, signer certificate: public key / rest of the
// tbsCertificate / the CA's signature, signer identifier); raw flips of /Contents hex digits;
// zeroed and truncated values; /ByteRange text edits (single values, compensating pairs, swaps);
// the signature value of another document (same signer, other signer) put in place.
// For every modification that changes at least one byte inside the byte ranges of a signature, or
// changes the signature value (the DER object inside /Contents; hex-case changes and edits of the
// 00 padding behind it do not change the value and are not judged),
// api.ValidateSignaturesRaw(all) must not report that signature with Status Valid, DocModified
// False or Reason DocNotModified. An error or a missing result counts as "not reported valid".
//
// Deliberately weaker than the property's text in two places (both counted in the evidence):
// bytes of the CMS container that no signature binds (version numbers, AlgorithmIdentifier
// parameters, content-type OIDs, tag/length octets) may legitimately be accepted changed by a
// verifier and are observed only; appending bytes is C28's subject and observed only.
package main

import (
	"bytes"
	"encoding/hex"
	"fmt"
	"os"
	"path/filepath"
	"sort"
	"strings"
	"sync"
	"time"

	"github.com/pdfcpu/pdfcpu/pkg/pdfcpu/model"
	"verif/harness/internal/sigenv"
	"verif/harness/internal/sigkit"
	"verif/harness/internal/vk"
)

const smallFile = 8 << 10

type target struct {
	Name    string
	File    []byte
	Sigs    []sigkit.SigInfo
	Labels  [][]string // per signature: class of every byte of the signature value
	Online  bool
	Harness bool
	Usable  []bool            // per signature: positive baseline
	Swap    map[string][]byte // single-signature harness files: /Contents digits of other documents (same room)
	Base    []string
}

type mod struct {
	Off int64
	New byte
}

type tcase struct {
	T     int
	Kind  string // covered-byte | contents-<class> | contents-rawdigit | byterange | swap-contents | append
	Sig   int    // signature the tampering aims at (-1: position based)
	Mods  []mod
	Tail  []byte
	Note  string
	Judge bool // false: observation only
}

func main() { vk.Run("C27", "exploration", run) }

func run(t *vk.T) {
	t.Rule("one case = one modified copy of a signed file (bit flip in a covered byte, edit of a byte of the signature value by class, raw hex digit flip, /ByteRange text edit, swapped /Contents) judged for every signature whose ranges or value it changes; non-trivial = distinct (sub filter, key algorithm, tamper kind, file shape)")
	env, err := sigenv.Start(t.Scratch())
	if err != nil {
		t.Broken("sigenv: %v", err)
	}
	defer env.Close()
	now := time.Now() // only for certificate validity and signing-time; never part of a verdict

	pkis := map[string]*sigkit.PKI{}
	for _, alg := range []string{"rsa", "ecdsa"} {
		p, err := sigkit.NewPKI(sigkit.PKIOptions{Alg: alg, CRLURL: env.Base + "/" + alg + ".crl", Name: alg}, now)
		if err != nil {
			t.Broken("pki: %v", err)
		}
		env.Serve("/"+alg+".crl", p.CRL)
		if err := env.Trust("ca-"+alg, p.CAPEM()); err != nil {
			t.Broken("trust: %v", err)
		}
		pkis[alg] = p
	}

	var targets []*target
	addHarness := func(name string, pki *sigkit.PKI, o sigkit.DocOptions) {
		s, err := sigkit.BuildSigned(pki, o, now)
		if err != nil {
			t.Broken("build %s: %v", name, err)
		}
		tg := &target{Name: name, File: s.Bytes, Sigs: s.Sigs, Online: true, Harness: true}
		for i := range s.Sigs {
			val := sigkit.GetContents(s.Bytes, &s.Sigs[i])[:s.Sigs[i].DERLen]
			if s.Sigs[i].SubFilter == sigkit.SFX509 {
				tg.Labels = append(tg.Labels, sigkit.LabelOctetString(val))
			} else {
				tg.Labels = append(tg.Labels, sigkit.LabelCMS(val, s.Sigs[i].Parts))
			}
		}
		if len(s.Sigs) == 1 {
			// another document (other content) signed the same way, by the same and by another signer
			tg.Swap = map[string][]byte{}
			for kind, p2 := range map[string]*sigkit.PKI{"swap-contents": pki, "swap-contents-other-signer": pkis[map[string]string{"rsa": "ecdsa", "ecdsa": "rsa"}[pki.Alg]]} {
				if o.SubFilters[0] == sigkit.SFX509 && p2.Alg != "rsa" {
					continue
				}
				o2 := o
				o2.Marker = o.Marker + " other document"
				if s2, err := sigkit.BuildSigned(p2, o2, now); err == nil && s2.Sigs[0].CEnd-s2.Sigs[0].CStart == s.Sigs[0].CEnd-s.Sigs[0].CStart {
					tg.Swap[kind] = append([]byte(nil), s2.Bytes[s2.Sigs[0].CStart:s2.Sigs[0].CEnd]...)
				}
			}
		}
		targets = append(targets, tg)
	}
	docsPer := t.Pick(1, 3)
	sfs := append(append([]string(nil), sigkit.AllSubFilters...), sigkit.SFDTS)
	for _, alg := range []string{"rsa", "ecdsa"} {
		for _, sf := range sfs {
			if sf == sigkit.SFX509 && alg != "rsa" {
				continue
			}
			for k := 0; k < docsPer; k++ {
				rng := t.RNG(fmt.Sprintf("doc/%s/%s/%d", alg, sf, k))
				o := sigkit.RandomDocOptions(rng, sf)
				if sf == sigkit.SFSHA1 && k%2 == 1 {
					o.NoSignedAttrs = true
				}
				addHarness(fmt.Sprintf("harness/%s/%s/%d", alg, sf, k), pkis[alg], o)
			}
		}
	}
	// two signed revisions (> 8 KiB: sampled offsets), certification signature
	addHarness("harness/rsa/detached+cades", pkis["rsa"], sigkit.DocOptions{SubFilters: []string{sigkit.SFDetached, sigkit.SFCAdES}, Pages: 2, ExtraFields: true})
	addHarness("harness/ecdsa/cades+dts", pkis["ecdsa"], sigkit.DocOptions{SubFilters: []string{sigkit.SFCAdES, sigkit.SFDTS}, XRefStream: true})
	addHarness("harness/rsa/certified-p1", pkis["rsa"], sigkit.DocOptions{SubFilters: []string{sigkit.SFDetached}, DocMDP: 1})

	// samples
	files, _ := filepath.Glob(filepath.Join(vk.RepoDir(), "pkg/samples/signatures/*/*.pdf"))
	sort.Strings(files)
	for _, f := range files {
		b, err := os.ReadFile(f)
		if err != nil {
			continue
		}
		locs, _, err := sigkit.LocateSignatures(b)
		if err != nil || len(locs) == 0 {
			t.Inconclusive("sample-not-located/" + filepath.Base(f))
			continue
		}
		tg := &target{Name: "sample/" + filepath.Base(filepath.Dir(f)) + "/" + filepath.Base(f), File: b}
		for _, l := range locs {
			if !l.HasBR || l.BR[0]+l.BR[1] > int64(len(b)) || l.BR[2]+l.BR[3] > int64(len(b)) {
				continue
			}
			si := sigkit.SigInfo{SubFilter: l.SubFilter, FieldObj: l.FieldObj, SigObj: l.SigObj, BR: l.BR,
				BRStart: l.BRStart, BREnd: l.BREnd, CStart: l.CStart, CEnd: l.CEnd, DERLen: berLen(l.Sig)}
			tg.Sigs = append(tg.Sigs, si)
			if si.DERLen <= len(l.Sig) {
				tg.Labels = append(tg.Labels, sigkit.LabelForeignCMS(l.Sig[:si.DERLen]))
			} else {
				tg.Labels = append(tg.Labels, make([]string, si.DERLen))
			}
		}
		if len(tg.Sigs) > 0 {
			targets = append(targets, tg)
		}
	}
	t.Count("targets_harness", int64(len(targets)-countSamples(targets)))
	t.Count("targets_samples", int64(countSamples(targets)))

	// baselines
	usableSigs, harnessUnusable := 0, 0
	for _, tg := range targets {
		o := env.Validate(tg.File, tg.Online)
		for i := range tg.Sigs {
			r := o.Find(tg.Sigs[i].FieldObj)
			ok := o.Err == nil && sigenv.Positive(r)
			tg.Usable = append(tg.Usable, ok)
			tg.Base = append(tg.Base, sigenv.Describe(r))
			if ok {
				usableSigs++
				if r.Status == model.SignatureStatusValid {
					t.Count("baseline_status_valid", 1)
				}
				if r.DocModified == model.False {
					t.Count("baseline_docmodified_false", 1)
				}
			} else {
				t.Inconclusive(fmt.Sprintf("baseline-not-positive/%s/sig=%d", tg.Name, i))
				if tg.Harness {
					harnessUnusable++
				}
			}
		}
	}
	if harnessUnusable > 0 {
		t.Count("harness_signatures_without_positive_baseline", int64(harnessUnusable))
	}
	if harnessUnusable*2 > harnessSigs(targets) {
		t.Broken("%d of %d harness signatures have no positive baseline: the primary workload is unusable", harnessUnusable, harnessSigs(targets))
	}
	if usableSigs == 0 {
		t.Broken("no signature with a positive baseline: nothing to judge")
	}
	t.Count("signatures_with_positive_baseline", int64(usableSigs))
	t.Assume("pdfcpu concludes revocation status 'good' (needed for Status Valid) only from a CRL/OCSP answer fetched at validation time, never from /DSS or archived evidence; the harness therefore validates its own documents with conf.Offline=false against a CRL served on 127.0.0.1 (allow-listed literal host, DNS disabled for the process); samples are validated with conf.Offline=true")
	t.Assume("certificate validity is judged by pdfcpu against the wall clock; the harness hierarchy is created valid from now-1h to now+24h, the clock is not part of any verdict")
	t.Assume("the signature value is the DER object inside /Contents: hex-case changes and edits of the 00 padding behind it are not modifications of the value (observed, not judged)")

	// cases
	var cases []tcase
	for ti, tg := range targets {
		cases = append(cases, coveredByteCases(t, ti, tg)...)
		cases = append(cases, contentsCases(t, ti, tg)...)
		cases = append(cases, byteRangeCases(t, ti, tg)...)
		cases = append(cases, appendCases(ti, tg)...)
	}
	cases = append(cases, swapCases(targets)...)
	t.Count("cases", int64(len(cases)))

	var mu sync.Mutex
	samples := 0
	panicNoted := false
	vk.Parallel(len(cases), func(i int) {
		c := cases[i]
		tg := targets[c.T]
		b := append([]byte(nil), tg.File...)
		changed := false
		for _, m := range c.Mods {
			if b[m.Off] != m.New {
				changed = true
			}
			b[m.Off] = m.New
		}
		if len(c.Tail) > 0 {
			b = append(b, c.Tail...)
			changed = true
		}
		if !changed {
			return
		}
		o := env.Validate(b, tg.Online)
		if o.Panic != "" {
			t.Count("pdfcpu_panics", 1)
			fr := o.Panic
			if i := strings.LastIndex(fr, " @ "); i >= 0 {
				fr = fr[i+3:]
			}
			t.Count("pdfcpu_panic_at/"+fr, 1)
			mu.Lock()
			if !panicNoted {
				panicNoted = true
				t.Extra("first_pdfcpu_panic", map[string]any{"target": tg.Name, "mods": describeMods(tg.File, c), "panic": o.Panic, "file_hex": hexIfSmall(b)})
			}
			mu.Unlock()
		}
		for si := range tg.Sigs {
			s := &tg.Sigs[si]
			affected, valueChanged := false, false
			for _, m := range c.Mods {
				if s.Covered(m.Off) {
					affected = true
				}
			}
			if s.DERLen > 0 {
				old := sigkit.GetContents(tg.File, s)
				nw := sigkit.GetContents(b, s)
				if !bytes.Equal(old[:s.DERLen], nw[:min(s.DERLen, len(nw))]) || rawValueRegionBroken(b, s) {
					valueChanged = true
				}
			}
			kind := c.Kind
			if c.Kind == "append" {
				r := o.Find(s.FieldObj)
				if o.Err == nil && r != nil && r.Status == model.SignatureStatusValid {
					t.Count("append_still_status_valid", 1)
				}
				if o.Err == nil && r != nil && (r.DocModified == model.False || r.Reason == model.SignatureReasonDocNotModified) {
					t.Count("append_still_reported_unmodified", 1)
				}
				continue
			}
			if !affected && !valueChanged {
				if c.Sig == si {
					t.Count("not_a_value_change/"+kind, 1)
				}
				continue
			}
			judge := c.Judge
			if affected {
				if c.Sig != si && c.Sig >= 0 || strings.HasPrefix(kind, "contents-") {
					kind = "covered-byte" // another signature's /Contents or /ByteRange lies in this one's ranges
				}
			} else {
				// only this signature's value changed: classify by what the first changed byte belongs to
				class := "hdr"
				if idx := int(c.Mods[0].Off-s.CStart-1) / 2; idx >= 0 && idx < len(tg.Labels[si]) {
					class = tg.Labels[si][idx]
				}
				if kind == "covered-byte" || kind == "contents-rawdigit" {
					if kind == "contents-rawdigit" {
						t.Count("raw_hex_digit_flips_changing_the_value", 1)
					}
					kind = "contents-" + class
				}
				if !boundClass[class] && len(c.Mods) <= 2 {
					// bytes that neither the CMS signature nor the certificate chain binds (version
					// numbers, algorithm parameters, container headers, content-type OIDs): a verifier
					// may accept them changed; observed, not judged (weaker than the property's text)
					judge = false
					r := o.Find(s.FieldObj)
					if tg.Usable[si] && o.Err == nil && sigenv.Positive(r) {
						t.Count("unbound_cms_byte_still_positive/"+class, 1)
					} else if tg.Usable[si] {
						t.Count("unbound_cms_byte_rejected/"+class, 1)
					}
				}
			}
			r := o.Find(s.FieldObj)
			outcome := classify(o, r)
			sf := s.SubFilter
			if !tg.Usable[si] || !judge {
				t.Count("observed_only/"+outcome, 1)
				continue
			}
			t.Eval(fmt.Sprintf("%s/%s/%s/sig=%d", tg.Name, kind, sf, si))
			t.Count("tamper/"+kind, 1)
			t.Count("outcome/"+kind+"/"+outcome, 1)
			if o.Err == nil && sigenv.Positive(r) {
				class := "reported-unmodified"
				if r.Status == model.SignatureStatusValid {
					class = "reported-valid"
				}
				t.Violate(fmt.Sprintf("subfilter=%s/tamper=%s/class=%s", sf, kind, class),
					fmt.Sprintf("%s sig#%d (%s): %s; baseline %s; result after tampering: %s", tg.Name, si, c.Note, describeMods(tg.File, c), tg.Base[si], sigenv.Describe(r)),
					map[string]any{"target": tg.Name, "kind": c.Kind, "sig": si, "mods": c.Mods, "note": c.Note, "file_hex": hexIfSmall(b)})
			}
			mu.Lock()
			if samples < 6 && i%997 == 0 {
				samples++
				t.Sample(map[string]any{"target": tg.Name, "kind": kind, "mods": describeMods(tg.File, c), "result": sigenv.Describe(r), "err": errStr(o.Err)})
			}
			mu.Unlock()
		}
	})
	for _, alg := range []string{"rsa", "ecdsa"} {
		t.Count("crl_fetches_"+alg, env.Hits("/"+alg+".crl"))
	}
	allSmall := true
	for _, tg := range targets {
		if tg.Harness && len(tg.File) > smallFile && len(tg.Sigs) == 1 {
			allSmall = false
		}
	}
	t.Extra("single_signature_harness_files_le_8KiB", allSmall)
}

// boundClass: parts of the signature value whose every bit is bound by the signer's signature
// (signed attributes, message digest, encapsulated content, signature), by the signer
// identification (sid) or by the CA's signature over the certificate.
var boundClass = map[string]bool{"sig": true, "attrs": true, "msgdigest": true, "econtent": true, "imprint": true,
	"cert-key": true, "cert-tbs": true, "cert-sig": true, "sid": true}

func harnessSigs(ts []*target) int {
	n := 0
	for _, t := range ts {
		if t.Harness {
			n += len(t.Sigs)
		}
	}
	return n
}

func countSamples(ts []*target) int {
	n := 0
	for _, t := range ts {
		if !t.Harness {
			n++
		}
	}
	return n
}

func classify(o sigenv.Outcome, r *model.SignatureValidationResult) string {
	switch {
	case o.Err != nil:
		return "error"
	case r == nil:
		return "no-result"
	case r.Status == model.SignatureStatusValid:
		return "STATUS-VALID"
	case r.DocModified == model.False || r.Reason == model.SignatureReasonDocNotModified:
		return "REPORTED-UNMODIFIED"
	case r.Status == model.SignatureStatusInvalid && r.DocModified == model.True:
		return "invalid+docmodified-true"
	case r.Status == model.SignatureStatusInvalid:
		return "invalid"
	case r.DocModified == model.True:
		return "docmodified-true"
	}
	return "unknown/" + strings.ReplaceAll(reasonName(r.Reason), " ", "-")
}

func reasonName(r model.SignatureReason) string {
	switch r {
	case model.SignatureReasonMalformed:
		return "malformed"
	case model.SignatureReasonUnsupported:
		return "unsupported"
	case model.SignatureReasonCertInvalid:
		return "cert-invalid"
	case model.SignatureReasonCertNotTrusted:
		return "cert-not-trusted"
	case model.SignatureReasonCertExpired:
		return "cert-expired"
	case model.SignatureReasonCertRevocationUnknown:
		return "revocation-unknown"
	case model.SignatureReasonTimestampTokenInvalid:
		return "timestamp-invalid"
	case model.SignatureReasonSigningTimeInvalid:
		return "signing-time-invalid"
	case model.SignatureReasonUnknown:
		return "no-reason"
	}
	return "other"
}

// berLen is the length of the first BER/DER object in b (0 if unreadable).
func berLen(b []byte) int {
	if len(b) < 2 {
		return 0
	}
	if b[1] < 0x80 {
		return min(2+int(b[1]), len(b))
	}
	n := int(b[1] & 0x7f)
	if n == 0 || n > 4 || 2+n > len(b) {
		return 0
	}
	l := 0
	for i := 0; i < n; i++ {
		l = l<<8 | int(b[2+i])
	}
	return min(2+n+l, len(b))
}

// rawValueRegionBroken: a non-hex, non-white character inside the digits that encode the value.
func rawValueRegionBroken(b []byte, s *sigkit.SigInfo) bool {
	end := s.CStart + 1 + int64(2*s.DERLen)
	for i := s.CStart + 1; i < end && i < int64(len(b)); i++ {
		c := b[i]
		if !(c >= '0' && c <= '9' || c >= 'a' && c <= 'f' || c >= 'A' && c <= 'F') {
			return true
		}
	}
	return false
}

func coveredByteCases(t *vk.T, ti int, tg *target) []tcase {
	n := int64(len(tg.File))
	covered := func(off int64) bool {
		for i := range tg.Sigs {
			if tg.Sigs[i].Covered(off) {
				return true
			}
		}
		return false
	}
	anyUsable := false
	for _, u := range tg.Usable {
		anyUsable = anyUsable || u
	}
	var offs []int64
	if n <= smallFile {
		for off := int64(0); off < n; off++ {
			if covered(off) {
				offs = append(offs, off)
			}
		}
	} else {
		set := map[int64]bool{}
		for i := range tg.Sigs {
			s := &tg.Sigs[i]
			for _, edge := range []int64{s.BR[0], s.BR[0] + s.BR[1], s.BR[2], s.BR[2] + s.BR[3]} {
				for d := int64(-64); d < 64; d++ {
					if o := edge + d; o >= 0 && o < n && covered(o) {
						set[o] = true
					}
				}
			}
		}
		k := 4096
		if !anyUsable {
			k = t.Pick(128, 512) // observation only
		} else if !tg.Harness {
			k = t.Pick(1024, 4096)
		}
		rng := t.RNG("offsets/" + tg.Name)
		for tries := 0; len(set) < k+512 && tries < 20*k; tries++ {
			if o := rng.Int64N(n); covered(o) {
				set[o] = true
			}
		}
		for o := range set {
			offs = append(offs, o)
		}
		sort.Slice(offs, func(i, j int) bool { return offs[i] < offs[j] })
	}
	rng := t.RNG("bits/" + tg.Name)
	var out []tcase
	for _, off := range offs {
		bits := []uint{uint(rng.IntN(8))}
		if !t.Quick() && n <= smallFile {
			bits = []uint{0, 1, 2, 3, 4, 5, 6, 7}
		}
		for _, bit := range bits {
			out = append(out, tcase{T: ti, Kind: "covered-byte", Sig: -1, Judge: true,
				Mods: []mod{{Off: off, New: tg.File[off] ^ (1 << bit)}}, Note: fmt.Sprintf("bit %d of covered offset %d", bit, off)})
		}
	}
	return out
}

func hexPair(v byte) (byte, byte) {
	const d = "0123456789abcdef"
	return d[v>>4], d[v&15]
}

func contentsCases(t *vk.T, ti int, tg *target) []tcase {
	var out []tcase
	for si := range tg.Sigs {
		s := &tg.Sigs[si]
		if s.DERLen == 0 {
			continue
		}
		val := sigkit.GetContents(tg.File, s)
		rng := t.RNG(fmt.Sprintf("contents/%s/%d", tg.Name, si))
		step := 1
		if !tg.Harness {
			step = max(1, s.DERLen/t.Pick(400, 1600))
		}
		for i := 0; i < s.DERLen; i += step {
			bits := []uint{uint(rng.IntN(8))}
			if !t.Quick() && tg.Harness {
				bits = []uint{0, 1, 2, 3, 4, 5, 6, 7}
			}
			for _, bit := range bits {
				nv := val[i] ^ (1 << bit)
				h, l := hexPair(nv)
				p := s.CStart + 1 + int64(2*i)
				out = append(out, tcase{T: ti, Kind: "contents-" + tg.Labels[si][i], Sig: si, Judge: true,
					Mods: []mod{{p, h}, {p + 1, l}}, Note: fmt.Sprintf("signature value byte %d (%s) %02x->%02x", i, tg.Labels[si][i], val[i], nv)})
			}
		}
		// raw hex digit flips (may give non-hex characters, white space, or only another letter case)
		nraw := t.Pick(200, 1000)
		for k := 0; k < nraw; k++ {
			p := s.CStart + 1 + rng.Int64N(int64(2*s.DERLen))
			out = append(out, tcase{T: ti, Kind: "contents-rawdigit", Sig: si, Judge: true,
				Mods: []mod{{p, tg.File[p] ^ (1 << uint(rng.IntN(8)))}}, Note: fmt.Sprintf("raw /Contents character at %d", p)})
		}
		// padding edits: observed, not judged
		pad := (s.CEnd - 1) - (s.CStart + 1 + int64(2*s.DERLen))
		for k := 0; k < 8 && pad > 0; k++ {
			p := s.CStart + 1 + int64(2*s.DERLen) + rng.Int64N(pad)
			out = append(out, tcase{T: ti, Kind: "contents-padding", Sig: si, Judge: false,
				Mods: []mod{{p, "123456789abcdef"[rng.IntN(15)]}}, Note: "padding digit"})
		}
		// whole-value replacements
		zero := make([]mod, 0, 2*s.DERLen)
		for p := s.CStart + 1; p < s.CStart+1+int64(2*s.DERLen); p++ {
			zero = append(zero, mod{p, '0'})
		}
		out = append(out, tcase{T: ti, Kind: "contents-zeroed", Sig: si, Judge: true, Mods: zero, Note: "signature value zeroed"})
		if tl := s.DERLen / 2; tl > 0 {
			out = append(out, tcase{T: ti, Kind: "contents-truncated", Sig: si, Judge: true, Mods: zero[2*tl:], Note: "second half of the value zeroed"})
		}
	}
	return out
}

func byteRangeCases(t *vk.T, ti int, tg *target) []tcase {
	var out []tcase
	for si := range tg.Sigs {
		s := &tg.Sigs[si]
		if s.BREnd <= s.BRStart {
			continue
		}
		width := int(s.BREnd - s.BRStart)
		add := func(br [4]int64, note string) {
			txt, err := sigkit.FormatByteRange(br, width)
			if err != nil {
				return
			}
			var ms []mod
			for i := range txt {
				if tg.File[s.BRStart+int64(i)] != txt[i] {
					ms = append(ms, mod{s.BRStart + int64(i), txt[i]})
				}
			}
			if len(ms) > 0 {
				out = append(out, tcase{T: ti, Kind: "byterange", Sig: si, Judge: true, Mods: ms, Note: note})
			}
		}
		// Only usable when the text keeps its width: samples write the array without padding, so
		// only same-length edits fit; the harness pads.
		for idx := 0; idx < 4; idx++ {
			for _, d := range []int64{-16, -2, -1, 1, 2, 7, 16, 1000} {
				br := s.BR
				br[idx] += d
				if br[idx] < 0 {
					continue
				}
				add(br, fmt.Sprintf("ByteRange[%d]%+d", idx, d))
			}
			br := s.BR
			br[idx] = 0
			add(br, fmt.Sprintf("ByteRange[%d]=0", idx))
		}
		for _, d := range []int64{-8, -1, 1, 8} {
			br := s.BR
			br[1] += d
			br[2] += d
			br[3] -= d
			add(br, fmt.Sprintf("gap moved by %+d, lengths add up", d))
			br = s.BR
			br[2] += d
			br[3] -= d
			add(br, fmt.Sprintf("ByteRange[2]%+d with [3] compensating", d))
		}
		br := s.BR
		br[1], br[2] = br[2], br[1]
		add(br, "ByteRange[1] and [2] swapped")
		add([4]int64{0, int64(len(tg.File)), int64(len(tg.File)), 0}, "ranges claim the whole file, no gap")
	}
	return out
}

func appendCases(ti int, tg *target) []tcase {
	var out []tcase
	for _, tail := range []string{"\n", "% appended\n", "\n1 0 obj\n<<>>\nendobj\n"} {
		out = append(out, tcase{T: ti, Kind: "append", Sig: -1, Tail: []byte(tail), Note: fmt.Sprintf("appended %q", tail)})
	}
	return out
}

// swapCases puts another document's signature value into a document (same room).
func swapCases(targets []*target) []tcase {
	var out []tcase
	for ai, a := range targets {
		kinds := make([]string, 0, len(a.Swap))
		for k := range a.Swap {
			kinds = append(kinds, k)
		}
		sort.Strings(kinds)
		for _, kind := range kinds {
			sa, other := &a.Sigs[0], a.Swap[kind]
			var ms []mod
			for i := int64(1); i < sa.CEnd-sa.CStart-1; i++ {
				if a.File[sa.CStart+i] != other[i] {
					ms = append(ms, mod{sa.CStart + i, other[i]})
				}
			}
			if len(ms) > 0 {
				out = append(out, tcase{T: ai, Kind: kind, Sig: 0, Judge: true, Mods: ms, Note: "signature value of another document"})
			}
		}
	}
	return out
}

func describeMods(orig []byte, c tcase) string {
	if len(c.Tail) > 0 {
		return fmt.Sprintf("appended %d bytes", len(c.Tail))
	}
	if len(c.Mods) > 6 {
		return fmt.Sprintf("%d bytes changed in [%d,%d]", len(c.Mods), c.Mods[0].Off, c.Mods[len(c.Mods)-1].Off)
	}
	var ss []string
	for _, m := range c.Mods {
		ss = append(ss, fmt.Sprintf("@%d %q->%q", m.Off, orig[m.Off], m.New))
	}
	return strings.Join(ss, " ")
}

func hexIfSmall(b []byte) string {
	if len(b) > 16<<10 {
		return ""
	}
	return hex.EncodeToString(b)
}

func errStr(err error) string {
	if err == nil {
		return ""
	}
	s := err.Error()
	if len(s) > 160 {
		s = s[:160]
	}
	return s
}
