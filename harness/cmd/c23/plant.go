package main

import (
	"fmt"
	"math/rand/v2"

	"verif/harness/internal/pdfgen"
)

// Location kinds planted by this worker on top of pdfgen's Truth.Secrets kinds.
const (
	kindPageMarker   = "page-marker" // pdfgen's per-page "(VERIF-PAGE-..) Tj"
	kindAnnotT       = "annot-T"
	kindFieldTU      = "field-TU"
	kindFieldTM      = "field-TM"
	kindFileUF       = "embedded-file-UF"
	kindFileDesc     = "filespec-Desc"
	kindDestsKey     = "dests-nametree-key"
	kindFontStream   = "font-file-stream"
	kindImageStream  = "image-stream"
	kindPrivStream   = "private-stream-data"
	kindStreamDictS  = "stream-dict-string"
	kindInfoUTF16    = "info-string-utf16"
	kindInfoHex      = "info-hexstring"
	kindActionURI    = "action-URI"
	kindSigDictStr   = "sigdict-Reason"
	kindSigFieldCont = "sigfield-widget-Contents"
	kindSigContents  = "sig-Contents(exempt)"
	kindUpdSupersede = "update-superseded"
	kindUpdNew       = "update-new-object"
	kindUpdStream    = "update-new-stream"
	kindStringObj    = "indirect-string-object"
	kindArrayObj     = "indirect-array-object"
)

// expectedDropped: kinds a full rewrite legitimately drops (the marker lives only in a superseded
// revision). They are still searched for in the encrypted output; their control is the source file.
var expectedDropped = map[string]bool{kindUpdSupersede: true}

// exemptKinds: the property text exempts signature values.
var exemptKinds = map[string]bool{kindSigContents: true}

type planter struct {
	doc   *pdfgen.Doc
	truth *pdfgen.Truth
	rng   *rand.Rand
}

func (p *planter) marker(kind string, obj int) string {
	m := pdfgen.SecretPrefix + fmt.Sprintf("%016X%016X", p.rng.Uint64(), p.rng.Uint64())
	p.truth.Secrets = append(p.truth.Secrets, pdfgen.Secret{Marker: m, Kind: kind, ObjNum: obj})
	return m
}

func (p *planter) secretObj(kind string) int {
	for _, s := range p.truth.Secrets {
		if s.Kind == kind {
			return s.ObjNum
		}
	}
	return 0
}

func pickFilters(rng *rand.Rand, pol pdfgen.FilterPolicy) []pdfgen.FilterSpec {
	if pol == pdfgen.FiltersNone {
		return nil
	}
	switch rng.IntN(4) {
	case 0:
		return nil
	case 1:
		if pol >= pdfgen.FiltersCompat {
			return []pdfgen.FilterSpec{{Kind: pdfgen.ASCII85}, {Kind: pdfgen.Flate}}
		}
	}
	return []pdfgen.FilterSpec{{Kind: pdfgen.Flate}}
}

// plantExtras adds markers in location kinds pdfgen's builder does not cover. It only uses
// pdfgen's layer-1 API on the finished object graph.
func plantExtras(doc *pdfgen.Doc, truth *pdfgen.Truth, rng *rand.Rand, pol pdfgen.FilterPolicy) {
	p := &planter{doc: doc, truth: truth, rng: rng}
	S := func(s string) pdfgen.String { return pdfgen.String(s) }

	// annotation /T of the annotation that carries the /Contents secret
	if n := p.secretObj(pdfgen.SecretAnnot); n != 0 {
		doc.SetKey(n, "T", S(p.marker(kindAnnotT, n)))
	}
	// field /TU and /TM of the field carrying the /V secret
	if n := p.secretObj(pdfgen.SecretFieldV); n != 0 {
		doc.SetKey(n, "TU", S(p.marker(kindFieldTU, n)))
		doc.SetKey(n, "TM", S(p.marker(kindFieldTM, n)))
	}
	// /UF and /Desc of the secret file specification
	if n := p.secretObj(pdfgen.SecretFileName); n != 0 {
		if d, ok := doc.GetDict(n); ok {
			uf := S(p.marker(kindFileUF, n) + ".txt")
			d = d.With("UF", uf).With("Desc", S(p.marker(kindFileDesc, n)))
			if efo, ok := d.Get("EF"); ok {
				if ef, ok := efo.(pdfgen.Dict); ok {
					if f, ok := ef.Get("F"); ok {
						d = d.With("EF", ef.With("UF", f))
					}
				}
			}
			doc.Replace(n, d)
		}
	}
	// a second string in the dictionary of the embedded file stream, and in a /Params sub-dictionary
	if n := p.secretObj(pdfgen.SecretFileData); n != 0 {
		if st, ok := doc.Get(n).(*pdfgen.Stream); ok {
			s := *st
			params := pdfgen.Dict{}
			if po, ok := s.Dict.Get("Params"); ok {
				if pd, ok := po.(pdfgen.Dict); ok {
					params = pd
				}
			}
			params = params.With("CheckSum", S(p.marker(kindStreamDictS, n)))
			s.Dict = s.Dict.With("Params", params).With("VerifNote", S(p.marker(kindStreamDictS, n)))
			doc.Replace(n, &s)
		}
	}
	cat := truth.Objs.Catalog
	catDict, _ := doc.GetDict(cat)
	// named destinations: an own /Dests name tree when the builder made none
	if truth.Objs.DestTreeRoot == 0 && len(truth.Objs.PageObjs) > 0 {
		var entries []pdfgen.NameTreeEntry
		for i := 0; i < 1+rng.IntN(6); i++ {
			pg := truth.Objs.PageObjs[rng.IntN(len(truth.Objs.PageObjs))]
			var val pdfgen.Object = pdfgen.Array{pdfgen.Ref{Num: pg}, pdfgen.Name("Fit")}
			if rng.IntN(2) == 0 {
				val = pdfgen.D("D", val)
			}
			entries = append(entries, pdfgen.NameTreeEntry{Key: []byte(p.marker(kindDestsKey, 0)), Val: val})
		}
		first := len(truth.Secrets) - len(entries)
		root, nodes := pdfgen.BuildNameTree(doc, entries, 1+rng.IntN(4), func() bool { return rng.IntN(4) == 0 })
		for i := first; i < len(truth.Secrets); i++ {
			truth.Secrets[i].ObjNum = root.Num
		}
		truth.Objs.DestTreeRoot, truth.Objs.DestTreeNodes = root.Num, nodes
		switch names, _ := catDict.Get("Names"); nv := names.(type) {
		case pdfgen.Ref:
			doc.SetKey(nv.Num, "Dests", root)
		case pdfgen.Dict:
			doc.SetKey(cat, "Names", nv.With("Dests", root))
		default:
			doc.SetKey(cat, "Names", pdfgen.D("Dests", root))
		}
	}
	// font program stream on the first font's descriptor
	if len(truth.Objs.Fonts) > 0 {
		if fd, ok := doc.GetDict(truth.Objs.Fonts[0]); ok {
			if dr, ok := fd.Get("FontDescriptor"); ok {
				if r, ok := dr.(pdfgen.Ref); ok {
					ref := doc.Alloc()
					data := []byte("%!FontType1C-fake\n" + p.marker(kindFontStream, ref.Num) + "\n")
					doc.Put(ref, &pdfgen.Stream{Dict: pdfgen.D("Subtype", pdfgen.Name("Type1C")), Data: data, Filters: pickFilters(rng, pol)})
					doc.SetKey(r.Num, "FontFile3", ref)
				}
			}
		}
	}
	// thumbnail image of the first page: the samples are the marker bytes
	if len(truth.Objs.PageObjs) > 0 {
		ref := doc.Alloc()
		m := p.marker(kindImageStream, ref.Num)
		doc.Put(ref, &pdfgen.Stream{Dict: pdfgen.D("Type", pdfgen.Name("XObject"), "Subtype", pdfgen.Name("Image"), "Width", len(m), "Height", 1,
			"ColorSpace", pdfgen.Name("DeviceGray"), "BitsPerComponent", 8), Data: []byte(m), Filters: pickFilters(rng, pol)})
		doc.SetKey(truth.Objs.PageObjs[0], "Thumb", ref)
	}
	// application-private data: nested arrays/dictionaries, a stream, an indirect string object, an indirect
	// array object, a plain dictionary object (object-stream member). pdfcpu's optimizer deletes the catalog's
	// /PieceInfo, so the same holder also hangs off a private key of the secret annotation (annotation
	// dictionaries are written with all their entries).
	{
		sref, strRef, arrRef, memRef, holder := doc.Alloc(), doc.Alloc(), doc.Alloc(), doc.Alloc(), doc.Alloc()
		doc.Put(sref, &pdfgen.Stream{Dict: pdfgen.D("VerifNote", S(p.marker(kindStreamDictS, sref.Num))),
			Data: []byte("private bytes " + p.marker(kindPrivStream, sref.Num) + " end"), Filters: pickFilters(rng, pol)})
		doc.Put(strRef, S(p.marker(kindStringObj, strRef.Num)))
		doc.Put(arrRef, pdfgen.Array{S(p.marker(kindArrayObj, arrRef.Num)), pdfgen.Int(7), pdfgen.Array{pdfgen.HexString(p.marker(kindArrayObj, arrRef.Num))}})
		doc.Put(memRef, pdfgen.D("Kind", pdfgen.Name("Member"), "Text", S(p.marker(pdfgen.SecretObjStmMember, memRef.Num))))
		deep := pdfgen.Array{
			pdfgen.Array{S(p.marker(pdfgen.SecretNested, holder.Num)), pdfgen.Array{pdfgen.Array{pdfgen.HexString(p.marker(pdfgen.SecretNested, holder.Num))}}},
			pdfgen.D("K", S(p.marker(pdfgen.SecretNested, holder.Num)), "A", pdfgen.Array{pdfgen.Int(1), pdfgen.D("Z", S(p.marker(pdfgen.SecretNested, holder.Num)))}),
		}
		doc.Put(holder, pdfgen.D("LastModified", S("D:20240102030405+00'00'"), "Private", pdfgen.D("Stm", sref, "Str", strRef, "Arr", arrRef, "Mem", memRef, "Deep", deep)))
		pi := pdfgen.Dict{}
		if o, ok := catDict.Get("PieceInfo"); ok {
			if d, ok := o.(pdfgen.Dict); ok {
				pi = d
			}
		}
		doc.SetKey(cat, "PieceInfo", pi.With("VERIF3", holder))
		if n := p.secretObj(pdfgen.SecretAnnot); n != 0 {
			doc.SetKey(n, "VerifPrivate", holder)
		}
	}
	// info dictionary: UTF-16BE text string and a hex string
	if n := truth.Objs.Info; n != 0 {
		doc.SetKey(n, "VerifU16", pdfgen.EncodeUTF16(p.marker(kindInfoUTF16, n)))
		doc.SetKey(n, "VerifHex", pdfgen.HexString(p.marker(kindInfoHex, n)))
	}
	// URI action of a link annotation
	for _, pg := range truth.Pages {
		done := false
		for _, a := range pg.Annots {
			if a.Subtype != "Link" {
				continue
			}
			if d, ok := doc.GetDict(a.ObjNum); ok && d.Has("A") {
				doc.SetKey(a.ObjNum, "A", pdfgen.D("Type", pdfgen.Name("Action"), "S", pdfgen.Name("URI"),
					"URI", S("https://example.invalid/"+p.marker(kindActionURI, a.ObjNum))))
				done = true
				break
			}
		}
		if done {
			break
		}
	}
	// signatures: a string of the signature dictionary (must be encrypted), the widget /Contents of the
	// signature FIELD (an annotation text, not a signature value), the signature value itself (exempt)
	for i, sg := range truth.Signatures {
		if i > 0 || sg.SigObj == 0 || sg.FieldObj == 0 {
			continue
		}
		doc.SetKey(sg.SigObj, "Reason", S(p.marker(kindSigDictStr, sg.SigObj)))
		doc.SetKey(sg.FieldObj, "Contents", S(p.marker(kindSigFieldCont, sg.FieldObj)))
		val := make([]byte, 1024)
		copy(val[100:], p.marker(kindSigContents, sg.SigObj))
		doc.SetKey(sg.SigObj, "Contents", pdfgen.HexString(val))
	}
}

// plantUpdate appends an incremental update: one object of the previous revision is superseded (its old
// marker exists only in the dead revision), one dictionary and one stream are new.
func plantUpdate(doc *pdfgen.Doc, truth *pdfgen.Truth, rng *rand.Rand, pol pdfgen.FilterPolicy) {
	p := &planter{doc: doc, truth: truth, rng: rng}
	S := func(s string) pdfgen.String { return pdfgen.String(s) }
	cat := truth.Objs.Catalog
	// base revision part: the object that will be superseded
	victim := doc.Alloc()
	doc.Put(victim, pdfgen.D("LastModified", S("D:20240102030405+00'00'"), "Private", S(p.marker(kindUpdSupersede, victim.Num))))
	catDict, _ := doc.GetDict(cat)
	pi := pdfgen.Dict{}
	if o, ok := catDict.Get("PieceInfo"); ok {
		if d, ok := o.(pdfgen.Dict); ok {
			pi = d
		}
	}
	doc.SetKey(cat, "PieceInfo", pi.With("VERIF4", victim))
	if n := p.secretObj(pdfgen.SecretAnnot); n != 0 {
		doc.SetKey(n, "VerifUpd", victim)
	}
	// the update
	doc.AppendUpdate(nil)
	nref, sref := doc.Alloc(), doc.Alloc()
	doc.Put(nref, pdfgen.D("Note", S(p.marker(kindUpdNew, nref.Num)), "List", pdfgen.Array{S(p.marker(kindUpdNew, nref.Num))}))
	doc.Put(sref, &pdfgen.Stream{Dict: pdfgen.Dict{}, Data: []byte("update stream " + p.marker(kindUpdStream, sref.Num)), Filters: pickFilters(rng, pol)})
	doc.Put(victim, pdfgen.D("LastModified", S("D:20240203040506+00'00'"), "Private", pdfgen.D("New", nref, "Stm", sref, "Text", S(p.marker(kindUpdNew, victim.Num)))))
	if n := truth.Objs.Info; n != 0 && rng.IntN(2) == 0 {
		if d, ok := doc.GetDict(n); ok {
			doc.Put(pdfgen.Ref{Num: n}, d.Clone().With("VerifUpd", S(p.marker(kindUpdNew, n))))
		}
	}
}
