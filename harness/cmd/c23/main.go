// C23 — encrypted output reveals no document plaintext.
//
// pdfgen documents carry a unique 128-bit marker in every location kind (pdfgen's Truth.Secrets kinds,
// the per-page markers, and the kinds plant.go adds: annotation /T, field /TU /TM, /UF /Desc, /Dests keys,
// font / image / private streams, strings in stream dictionaries, UTF-16 and hex spellings, indirect
// string / array objects, action URIs, signature dictionary strings, an incremental update).
// Pipeline per (document, algorithm, write structure):
//
//	src --api.EncryptFile--> enc --(one follow-up operation with the passwords)--> enc2
//	src --api.OptimizeFile (same structure, no encryption)--> plain          (control)
//
// and pdfgen-ENCRYPTED inputs (reference security handler, R2..R6, EncryptMetadata both ways) rewritten
// by pdfcpu with the password. Every encrypted output is searched (search.go) in the raw bytes, in every
// key-less decoding of every stream body, and in all string spellings. The same search on src and on
// plain must find the marker, else the case says nothing about that marker.
package main

import (
	"bytes"
	"errors"
	"fmt"
	"math/rand/v2"
	"os"
	"path/filepath"
	"regexp"
	"sort"
	"strings"
	"sync"

	"github.com/pdfcpu/pdfcpu/pkg/api"
	"github.com/pdfcpu/pdfcpu/pkg/pdfcpu"
	"github.com/pdfcpu/pdfcpu/pkg/pdfcpu/model"
	"github.com/pdfcpu/pdfcpu/pkg/pdfcpu/types"
	"verif/harness/internal/pdfgen"
	"verif/harness/internal/vk"
)

type algo struct {
	Name   string
	AES    bool
	KeyLen int
}

var algos = []algo{{"RC4-40", false, 40}, {"RC4-128", false, 128}, {"AES-128", true, 128}, {"AES-256", true, 256}}

type structure struct {
	ObjStm, XRefStm bool
	Opt             bool // conf.Optimize: run pdfcpu's optimizer before writing (it deletes e.g. the catalog's /PieceInfo)
}

func (s structure) String() string {
	return fmt.Sprintf("objstm=%s/xrefstm=%s/optimize=%s", onoff(s.ObjStm), onoff(s.XRefStm), onoff(s.Opt))
}

// effective object stream use: pdfcpu only writes object streams together with an xref stream
func (s structure) objstm() string { return onoff(s.ObjStm && s.XRefStm) }

func onoff(b bool) string {
	if b {
		return "on"
	}
	return "off"
}

func (s structure) apply(c *model.Configuration) *model.Configuration {
	c.WriteObjectStream = s.ObjStm
	c.WriteXRefStream = s.XRefStm
	c.Optimize = s.Opt
	c.Offline = true
	return c
}

func (a algo) conf(upw, opw string) *model.Configuration {
	var c *model.Configuration
	if a.AES {
		c = model.NewAESConfiguration(upw, opw, a.KeyLen)
	} else {
		c = model.NewRC4Configuration(upw, opw, a.KeyLen)
	}
	c.Offline = true
	return c
}

func pwConf(upw, opw string) *model.Configuration {
	c := model.NewDefaultConfiguration()
	c.UserPW, c.OwnerPW = upw, opw
	c.Offline = true
	return c
}

func safely(f func() error) (err error) {
	defer func() {
		if r := recover(); r != nil {
			err = fmt.Errorf("panic: %v", r)
		}
	}()
	return f()
}

var numRE = regexp.MustCompile(`[0-9]+`)

func errClass(err error) string {
	if err == nil {
		return "nil"
	}
	switch {
	case errors.Is(err, pdfcpu.ErrWrongPassword):
		return "ErrWrongPassword"
	case errors.Is(err, pdfcpu.ErrPermissionDenied):
		return "ErrPermissionDenied"
	case errors.Is(err, pdfcpu.ErrUnsupportedEncryptionFeature):
		return "ErrUnsupportedEncryptionFeature"
	case errors.Is(err, pdfcpu.ErrMalformedEncryption):
		return "ErrMalformedEncryption"
	}
	s := err.Error()
	if strings.Contains(s, "panic") {
		return "panic"
	}
	s = numRE.ReplaceAllString(s, "N")
	if i := strings.LastIndex(s, ": "); i >= 0 {
		s = s[i+2:]
	}
	if len(s) > 48 {
		s = s[:48]
	}
	return strings.ReplaceAll(s, " ", "-")
}

// plainRewrite is the control: pdfcpu reads, validates, (optionally) optimizes and writes the document with the
// given structure and without encryption.
func plainRewrite(in, out string, st structure) error {
	if st.Opt {
		return api.OptimizeFile(in, out, st.apply(model.NewDefaultConfiguration()))
	}
	f, err := os.Open(in)
	if err != nil {
		return err
	}
	defer f.Close()
	ctx, err := api.ReadAndValidate(f, st.apply(model.NewDefaultConfiguration()))
	if err != nil {
		return err
	}
	return api.WriteContextFile(ctx, out)
}

// genDoc is one generated source document with its planted markers.
type genDoc struct {
	Idx     int
	Spec    pdfgen.DocSpec
	Doc     *pdfgen.Doc
	Truth   *pdfgen.Truth
	Opts    pdfgen.Options
	Src     []byte
	Layout  *pdfgen.Layout
	Path    string
	Markers map[string]string // marker -> location kind
	SrcHits hits
	InXMP   map[string]bool // markers whose text is part of the XMP metadata stream (the XMP secret, the Info title echoed in dc:title)
	Desc    string
}

// where says how the source file stores the object that carries marker m.
func (g *genDoc) where(m string) string {
	for _, s := range g.Truth.Secrets {
		if s.Marker == m && s.ObjNum != 0 {
			if lo, ok := g.Layout.Find(s.ObjNum); ok {
				if lo.InObjStm != 0 {
					return fmt.Sprintf("#%d, member of object stream #%d", s.ObjNum, lo.InObjStm)
				}
				return fmt.Sprintf("#%d, top-level", s.ObjNum)
			}
			return fmt.Sprintf("#%d", s.ObjNum)
		}
	}
	return "n/a"
}

func newMarker(rng *rand.Rand) string {
	return pdfgen.SecretPrefix + fmt.Sprintf("%016X%016X", rng.Uint64(), rng.Uint64())
}

func buildDoc(t *vk.T, i int, dir string) (*genDoc, error) {
	rng := t.RNGi("doc", i)
	spec := pdfgen.RandomSpec(rng, 4)
	spec.Secrets, spec.Form, spec.Annotations, spec.Info, spec.XMP, spec.XObjects = true, true, true, true, true, true
	spec.MultiContent = true
	if spec.Outlines == 0 {
		spec.Outlines = 1 + rng.IntN(5)
	}
	spec.Filters = []pdfgen.FilterPolicy{pdfgen.FiltersNone, pdfgen.FiltersFlate, pdfgen.FiltersCompat}[i%3]
	spec.Signatures = 0
	if i%3 == 1 {
		spec.Signatures = 1 + rng.IntN(2)
	}
	if i%2 == 0 {
		spec.Dests = 0 // plantExtras builds a /Dests tree whose keys are markers
	}
	if spec.RandomFiles == 0 && rng.IntN(2) == 0 {
		spec.RandomFiles = 1 + rng.IntN(3)
	}
	// source file structure: all three xref kinds, object streams on and off
	switch i % 4 {
	case 0:
		spec.Write.XRef, spec.Write.ObjStm = pdfgen.XRefTable, false
	case 1:
		spec.Write.XRef, spec.Write.ObjStm = pdfgen.XRefStream, true
	case 2:
		spec.Write.XRef, spec.Write.ObjStm = pdfgen.XRefStream, false
	case 3:
		spec.Write.XRef, spec.Write.ObjStm = pdfgen.XRefHybrid, true
	}
	if spec.Write.XRef == pdfgen.XRefTable {
		spec.Write.ObjStm = false
	}
	doc, truth := pdfgen.BuildDoc(spec)
	prng := t.RNGi("plant", i)
	plantExtras(doc, truth, prng, spec.Filters)
	if (i/2)%2 == 1 { // sources 2 (xref stream, no object streams) and 3 (hybrid with object streams) of every four
		plantUpdate(doc, truth, prng, spec.Filters)
	}
	opts := spec.Write
	mv := truth.MinVersion
	if mv < "1.7" {
		mv = "1.7"
	}
	opts.Version = pdfgen.FitVersion(opts, mv)
	g := &genDoc{Idx: i, Spec: spec, Doc: doc, Truth: truth, Opts: opts, Markers: map[string]string{}}
	out, err := pdfgen.Write(doc, opts)
	if err != nil {
		return nil, fmt.Errorf("pdfgen.Write doc %d: %v", i, err)
	}
	g.Src, g.Layout = out.Bytes, out.Layout
	for _, s := range truth.Secrets {
		g.Markers[s.Marker] = s.Kind
	}
	for _, p := range truth.Pages {
		g.Markers[p.Marker] = kindPageMarker
	}
	g.InXMP = map[string]bool{}
	for m := range g.Markers {
		if bytes.Contains(truth.XMP, []byte(m)) {
			g.InXMP[m] = true
		}
	}
	g.Path = filepath.Join(dir, fmt.Sprintf("src-%d.pdf", i))
	if err := os.WriteFile(g.Path, g.Src, 0o644); err != nil {
		return nil, err
	}
	g.Desc = fmt.Sprintf("doc#%d(pages=%d filters=%d xref=%v objstm=%v sigs=%d updates=%d+%d)", i, len(truth.Pages), spec.Filters, spec.Write.XRef, spec.Write.ObjStm, spec.Signatures, spec.Updates, (i/2)%2)
	return g, nil
}

// follow-up operations on the encrypted file. new: markers the operation itself adds (kind -> marker).
type followOp struct {
	Name string
	Run  func(in, out, dir string, a algo, upw, opw string, st structure, news map[string]string) error
	News []string // kinds of new markers
}

var followOps = []followOp{
	{"ChangeUserPassword", func(in, out, dir string, a algo, upw, opw string, st structure, _ map[string]string) error {
		return api.ChangeUserPasswordFile(in, out, upw, upw+"N", st.apply(a.conf(upw, opw)))
	}, nil},
	{"ChangeOwnerPassword", func(in, out, dir string, a algo, upw, opw string, st structure, _ map[string]string) error {
		return api.ChangeOwnerPasswordFile(in, out, opw, opw+"N", st.apply(a.conf(upw, opw)))
	}, nil},
	{"SetPermissions", func(in, out, dir string, a algo, upw, opw string, st structure, _ map[string]string) error {
		c := st.apply(a.conf(upw, opw))
		c.Permissions = model.PermissionsPrint
		return api.SetPermissionsFile(in, out, c)
	}, nil},
	{"Optimize", func(in, out, dir string, a algo, upw, opw string, st structure, _ map[string]string) error {
		return api.OptimizeFile(in, out, st.apply(pwConf(upw, opw)))
	}, nil},
	{"AddWatermarks", func(in, out, dir string, a algo, upw, opw string, st structure, news map[string]string) error {
		wm, err := api.TextWatermark(news["new-watermark-text"], "font:Helvetica, points:12, rot:0, scale:1 abs", true, false, types.POINTS)
		if err != nil {
			return err
		}
		return api.AddWatermarksFile(in, out, nil, wm, st.apply(pwConf(upw, opw)))
	}, []string{"new-watermark-text"}},
	{"AddAttachments", func(in, out, dir string, a algo, upw, opw string, st structure, news map[string]string) error {
		f := filepath.Join(dir, news["new-attachment-name"]+".txt")
		if err := os.WriteFile(f, []byte(strings.Repeat("attached later: "+news["new-attachment-data"]+"\n", 3)), 0o644); err != nil {
			return err
		}
		defer os.Remove(f)
		return api.AddAttachmentsFile(in, out, []string{f + "," + news["new-attachment-desc"]}, false, st.apply(pwConf(upw, opw)))
	}, []string{"new-attachment-name", "new-attachment-data", "new-attachment-desc"}},
	{"AddKeywords", func(in, out, dir string, a algo, upw, opw string, st structure, news map[string]string) error {
		return api.AddKeywordsFile(in, out, []string{news["new-keyword"]}, st.apply(pwConf(upw, opw)))
	}, []string{"new-keyword"}},
	{"AddProperties", func(in, out, dir string, a algo, upw, opw string, st structure, news map[string]string) error {
		return api.AddPropertiesFile(in, out, map[string]string{"VerifProp": news["new-property-value"]}, st.apply(pwConf(upw, opw)))
	}, []string{"new-property-value"}},
	{"AddBookmarks", func(in, out, dir string, a algo, upw, opw string, st structure, news map[string]string) error {
		return api.AddBookmarksFile(in, out, []pdfcpu.Bookmark{{Title: news["new-bookmark-title"], PageFrom: 1}}, true, st.apply(pwConf(upw, opw)))
	}, []string{"new-bookmark-title"}},
}

type caseDesc struct {
	Doc     string   `json:"doc"`
	DocSeed uint64   `json:"doc_spec_seed"`
	DocIdx  int      `json:"doc_index"`
	Alg     string   `json:"alg"`
	Struct  string   `json:"structure"`
	Op      string   `json:"op"`
	Marker  string   `json:"marker,omitempty"`
	Kind    string   `json:"kind,omitempty"`
	View    string   `json:"found_in,omitempty"`
	All     []string `json:"all_leaked_kinds,omitempty"`
}

type kindStats struct {
	mu sync.Mutex
	m  map[string]map[string]int64
}

func (k *kindStats) add(stat, kind string, n int64) {
	k.mu.Lock()
	if k.m == nil {
		k.m = map[string]map[string]int64{}
	}
	if k.m[stat] == nil {
		k.m[stat] = map[string]int64{}
	}
	k.m[stat][kind] += n
	k.mu.Unlock()
}

func (k *kindStats) get(stat, kind string) int64 {
	k.mu.Lock()
	defer k.mu.Unlock()
	return k.m[stat][kind]
}

func sortedKeys[V any](m map[string]V) []string {
	out := make([]string, 0, len(m))
	for k := range m {
		out = append(out, k)
	}
	sort.Strings(out)
	return out
}

func main() {
	vk.Run("C23", "exploration", func(t *vk.T) {
		api.DisableConfigDir()
		dir := t.Scratch()
		t.Rule("pdfgen documents (1-4 pages, all features, 3 filter policies, table/xref-stream/hybrid sources with and without object streams, half of them with an incremental update appended by the worker) with a unique 128-bit marker in every location kind x {RC4-40, RC4-128, AES-128, AES-256} x {WriteObjectStream, WriteXRefStream} combinations: api.EncryptFile, then one follow-up operation with the passwords (password/permission change, optimize, watermark, attachment, keyword, property, bookmark: rotating); plus pdfgen-encrypted inputs (reference handler R2/R3/R4/R6, EncryptMetadata true/false) rewritten by pdfcpu. Non-trivial = distinct (document, algorithm, structure, operation) whose output is encrypted and for which the control found at least one marker")
		t.Assume("the search sees: raw bytes; every stream body (found through pdfstrict's xref view and by scanning stream..endstream) decoded without a key by its declared filter pipeline and by blind zlib/deflate/ASCII85/ASCIIHex up to 3 layers; each blob as is, with NULs removed (UTF-16), literal-string escapes undone, #xx undone, hex runs decoded. Other re-encodings of a leaked string (e.g. a private cipher, base64) would be missed")
		t.Assume("a marker counts as checked only if the same search finds it in the unencrypted rewrite by pdfcpu with the same write structure (kinds that a rewrite legitimately drops, i.e. text of a superseded revision: in the source file); markers the control does not find are counted under control_blind / dropped_by_plain_rewrite and a location kind never checked is reported INCONCLUSIVE")
		t.Assume("exempt per property text: signature /Contents values; the XMP metadata stream when the input's encryption dictionary says /EncryptMetadata false (pdfcpu offers no option to switch metadata encryption off in EncryptFile). /ID, the encryption dictionary and xref streams hold no document strings and get no marker. Names are not strings and get no marker")

		nDocs := t.Pick(16, 160)
		docs := make([]*genDoc, nDocs)
		berrs := make([]error, nDocs)
		vk.Parallel(nDocs, func(i int) { docs[i], berrs[i] = buildDoc(t, i, dir) })
		for _, e := range berrs {
			if e != nil {
				t.Broken("generator: %v", e)
			}
		}

		var ks kindStats
		// control (a): the source file
		var usable []*genDoc
		okDoc := make([]bool, nDocs)
		vk.Parallel(nDocs, func(i int) {
			g := docs[i]
			g.SrcHits, _ = searchPDF(g.Src)
			c := model.NewDefaultConfiguration()
			c.Offline = true
			if err := safely(func() error { return api.ValidateFile(g.Path, c) }); err != nil {
				t.Count("docs_rejected_by_pdfcpu/"+errClass(err), 1)
				fmt.Fprintf(os.Stderr, "note: %s rejected by pdfcpu: %v\n", g.Desc, err)
				return
			}
			okDoc[i] = true
		})
		for i, g := range docs {
			if okDoc[i] {
				usable = append(usable, g)
			}
			for m, k := range g.Markers {
				ks.add("planted", k, 1)
				if _, ok := g.SrcHits[m]; ok {
					ks.add("control_source_found", k, 1)
				} else {
					ks.add("control_source_blind", k, 1)
				}
			}
		}
		t.Count("docs_generated", int64(nDocs))
		t.Count("docs_usable", int64(len(usable)))
		if len(usable) < nDocs*3/4 {
			t.Broken("pdfcpu accepts only %d of %d generated documents", len(usable), nDocs)
		}

		var structs []structure
		for _, opt := range []bool{true, false} {
			for _, s := range []structure{{true, true, false}, {false, true, false}, {false, false, false}, {true, false, false}} {
				s.Opt = opt
				structs = append(structs, s)
			}
		}

		// control (b): plain rewrite per (doc, structure)
		type pkey struct {
			doc int
			st  structure
		}
		plainHits := map[pkey]hits{}
		var pmu sync.Mutex
		vk.Parallel(len(usable)*len(structs), func(j int) {
			g, st := usable[j/len(structs)], structs[j%len(structs)]
			out := filepath.Join(dir, fmt.Sprintf("plain-%d-%d.pdf", g.Idx, j%len(structs)))
			defer os.Remove(out)
			err := safely(func() error { return plainRewrite(g.Path, out, st) })
			if err != nil {
				t.Count("plain_rewrite_errors/"+errClass(err), 1)
				return
			}
			b, _ := os.ReadFile(out)
			h, _ := searchPDF(b)
			pmu.Lock()
			plainHits[pkey{g.Idx, st}] = h
			pmu.Unlock()
		})

		type job struct {
			g   *genDoc
			a   algo
			st  structure
			op  int
			pre *preAlg // non-nil: pdfgen-encrypted input, op applies to it directly
		}
		var jobs []job
		n := 0
		for _, g := range usable {
			for _, a := range algos {
				for si, st := range structs {
					if t.Quick() && si%4 == 3 && (g.Idx+len(a.Name))%2 == 0 {
						continue // objstm on + xref table = no object streams; half of them in the quick tier
					}
					jobs = append(jobs, job{g: g, a: a, st: st, op: n % len(followOps)})
					n++
				}
			}
		}
		for gi, g := range usable {
			for pi := range preAlgs {
				if t.Quick() && (gi+pi)%4 != 0 {
					continue
				}
				jobs = append(jobs, job{g: g, st: structs[(n+gi)%len(structs)], op: n % len(followOps), pre: &preAlgs[pi]})
				n++
			}
		}

		var smu sync.Mutex
		sampled := 0
		var harnessErrs []string
		broken := func(format string, a ...any) { // t.Broken must not be called from a worker goroutine
			smu.Lock()
			harnessErrs = append(harnessErrs, fmt.Sprintf(format, a...))
			smu.Unlock()
		}
		opOK := map[string]int64{}
		opErr := map[string]int64{}

		remove := func(p string) { // VERIF_KEEP=1 keeps every intermediate file for inspection
			if os.Getenv("VERIF_KEEP") == "" {
				os.Remove(p)
			}
		}
		vk.Parallel(len(jobs), func(ji int) {
			j := jobs[ji]
			g := j.g
			rng := t.RNGi("case", ji)
			upw, opw := fmt.Sprintf("u%04d", rng.IntN(10000)), fmt.Sprintf("o%04d", rng.IntN(10000))
			if rng.IntN(3) == 0 {
				upw = ""
			}
			fop := followOps[j.op]
			algName := j.a.Name
			if j.pre != nil {
				algName = j.pre.Name
			}
			cd := caseDesc{Doc: g.Desc, DocSeed: g.Spec.Seed, DocIdx: g.Idx, Alg: algName, Struct: j.st.String()}
			plain := plainHits[pkey{g.Idx, j.st}]
			tmp := func(tag string) string { return filepath.Join(dir, fmt.Sprintf("c%d-%s.pdf", ji, tag)) }

			// checkOutput searches one encrypted output; already = markers reported for an earlier step of this case
			checkOutput := func(path, opName string, markers map[string]string, control hits, already map[string]bool, emdFalse bool) (ok bool) {
				b, err := os.ReadFile(path)
				if err != nil {
					t.Inconclusive("output-unreadable/op=" + opName)
					return false
				}
				h, st := searchPDF(b)
				t.Count("streams_searched", int64(st.Streams))
				t.Count("streams_inflating_without_key", int64(st.InflatedBlind))
				t.Count("streams_decoding_by_declared_filters_without_key", int64(st.DecodedDeclared))
				c := cd
				c.Op = opName
				if !st.Encrypted || !bytes.Contains(b, []byte("/Encrypt")) {
					t.Violate(fmt.Sprintf("not-encrypted/op=%s/alg=%s", opName, algName),
						fmt.Sprintf("%s: output of %s on an encrypted document (passwords supplied) has no /Encrypt: everything is in the clear", g.Desc, opName), c)
					return false
				}
				if st.StrictOpenFailed {
					t.Count("outputs_pdfstrict_could_not_open", 1)
				}
				checked := 0
				var leaked []string
				for m, kind := range markers {
					ks.add("searched", kind, 1)
					_, inCtl := control[m]
					if expectedDropped[kind] {
						_, inCtl = g.SrcHits[m]
					}
					if !inCtl {
						if _, inSrc := g.SrcHits[m]; inSrc || control == nil {
							ks.add("dropped_by_plain_rewrite", kind, 1)
						}
					} else {
						ks.add("checked", kind, 1)
						checked++
					}
					view, found := h[m]
					if !found {
						continue
					}
					if exemptKinds[kind] || (emdFalse && g.InXMP[m]) {
						ks.add("found_exempt", kind, 1)
						continue
					}
					ks.add("found_leaked", kind, 1)
					if already[m] {
						continue
					}
					already[m] = true
					leaked = append(leaked, kind)
					c2 := c
					c2.Marker, c2.Kind, c2.View = m, kind, view
					key := fmt.Sprintf("loc=%s/alg=%s/objstm=%s", kind, algName, j.st.objstm())
					switch {
					case j.pre != nil:
						key += "/op=rewrite-preencrypted"
					case opName != "EncryptFile":
						key += "/op=rewrite" // readable only after the follow-up operation re-read and re-wrote the encrypted file; which operation is in the text
					}
					t.Violate(key, fmt.Sprintf("%s %s %s after %s: marker %s planted in %s (source object %s) is readable without the key (%s)", g.Desc, algName, j.st, opName, m, kind, g.where(m), view), c2)
				}
				if checked > 0 {
					t.Eval(fmt.Sprintf("%d|%s|%s|%s", g.Idx, algName, j.st, opName))
				} else {
					t.Eval("")
				}
				t.Count("outputs_searched/"+algName, 1)
				return true
			}

			already := map[string]bool{}
			var enc string
			emdFalse := false
			if j.pre == nil {
				enc = tmp("enc")
				defer remove(enc)
				conf := j.st.apply(j.a.conf(upw, opw))
				if err := safely(func() error { return api.EncryptFile(g.Path, enc, conf) }); err != nil {
					t.Count("encrypt_errors/"+errClass(err), 1)
					t.Inconclusive("encrypt-error/alg=" + algName + "/" + errClass(err))
					return
				}
				if !checkOutput(enc, "EncryptFile", g.Markers, plain, already, false) {
					return
				}
			} else {
				// pdfgen-encrypted input
				ge, err := newGenEncrypter(*j.pre, g.Doc.ID[0], upw, opw, t.RNGi("genenc", ji))
				if err != nil {
					broken("reference handler: %v", err)
					return
				}
				o := g.Opts
				o.Encrypter = ge
				out, err := pdfgen.Write(g.Doc, o)
				if err != nil {
					broken("pdfgen.Write encrypted: %v", err)
					return
				}
				emdFalse = !j.pre.Emd
				// harness self-check: the generator's own encrypted file leaks nothing but exempt things
				hs, _ := searchPDF(out.Bytes)
				for m := range hs {
					k := g.Markers[m]
					if k == "" || exemptKinds[k] || (emdFalse && g.InXMP[m]) {
						continue
					}
					broken("harness: pdfgen-encrypted input %s leaks %s (%s)", j.pre.Name, m, k)
					return
				}
				enc = tmp("pre")
				defer remove(enc)
				if err := os.WriteFile(enc, out.Bytes, 0o644); err != nil {
					broken("write: %v", err)
					return
				}
				t.Count("preencrypted_inputs/"+j.pre.Name, 1)
			}

			// follow-up operation
			news := map[string]string{}
			newMarkers := map[string]string{}
			for _, k := range fop.News {
				m := newMarker(rng)
				news[k] = m
				newMarkers[m] = k
			}
			opName := fop.Name
			if j.pre != nil {
				opName += "(preencrypted)"
			}
			out2 := tmp("op")
			defer remove(out2)
			a := j.a
			if j.pre != nil {
				a = algo{j.pre.Name, j.pre.AES, j.pre.KeyBits}
			}
			err := safely(func() error { return fop.Run(enc, out2, dir, a, upw, opw, j.st, news) })
			smu.Lock()
			if err != nil {
				opErr[opName+"/"+errClass(err)]++
			} else {
				opOK[opName]++
			}
			smu.Unlock()
			if err != nil {
				t.Count("followup_errors/"+opName+"/"+errClass(err), 1)
				if os.Getenv("C23_DEBUG") != "" {
					fmt.Fprintf(os.Stderr, "debug: %s %s %s %s: %v\n", g.Desc, algName, j.st, opName, err)
				}
				return
			}
			// control for the new markers: the same operation on the unencrypted source
			control := hits{}
			for m, v := range plain {
				control[m] = v
			}
			if len(newMarkers) > 0 {
				cp := tmp("opplain")
				perr := safely(func() error { return fop.Run(g.Path, cp, dir, a, "", "", j.st, news) })
				if perr == nil {
					if b, e := os.ReadFile(cp); e == nil {
						hp, _ := searchPDF(b)
						for m := range newMarkers {
							ks.add("planted", newMarkers[m], 1)
							if v, ok := hp[m]; ok {
								control[m] = v
							} else {
								ks.add("control_source_blind", newMarkers[m], 1)
							}
						}
					}
				} else {
					t.Count("followup_control_errors/"+fop.Name+"/"+errClass(perr), 1)
				}
				os.Remove(cp)
			}
			all := map[string]string{}
			for m, k := range g.Markers {
				all[m] = k
			}
			for m, k := range newMarkers {
				all[m] = k
			}
			checkOutput(out2, opName, all, control, already, emdFalse)

			smu.Lock()
			if sampled < 8 && ji%37 == 0 {
				sampled++
				c := cd
				c.Op = "EncryptFile+" + opName
				t.Sample(c)
			}
			smu.Unlock()
		})

		if len(harnessErrs) > 0 {
			sort.Strings(harnessErrs)
			t.Broken("%d harness errors, first: %s", len(harnessErrs), harnessErrs[0])
		}
		// evidence per location kind; blind or never-checked kinds are inconclusive, never a silent pass
		per := map[string]map[string]int64{}
		ks.mu.Lock()
		for stat, m := range ks.m {
			for kind, n := range m {
				if per[kind] == nil {
					per[kind] = map[string]int64{}
				}
				per[kind][stat] = n
				t.Count(stat+"/"+kind, n)
			}
		}
		ks.mu.Unlock()
		t.Extra("per_location_kind", per)
		for _, kind := range sortedKeys(per) {
			p := per[kind]
			if p["control_source_blind"] > 0 {
				t.Inconclusive(fmt.Sprintf("search-blind/kind=%s (%d of %d planted markers not found in the unencrypted source)", kind, p["control_source_blind"], p["planted"]))
			}
			if p["checked"] == 0 && !exemptKinds[kind] {
				t.Inconclusive("never-checked/kind=" + kind + " (pdfcpu's unencrypted rewrite never retained it)")
			}
		}
		for _, k := range sortedKeys(opErr) {
			name := k[:strings.Index(k, "/")]
			if opOK[name] == 0 {
				t.Inconclusive("followup-never-succeeded/" + k)
			}
		}
		t.Extra("followup_ok", opOK)
		t.Extra("followup_errors", opErr)
	})
}
