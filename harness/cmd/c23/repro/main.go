// repro: stand-alone reproductions of the two C23 findings (run from /verif/harness:
// `. /verif/env.sh; $GO125 run -tags verif ./cmd/c23/repro`). Scratch files go to $VERIF_ROOT/.cache/run.
//
//  1. sigfield: a signature FIELD merged with its widget (/FT /Sig /Subtype /Widget) that has an annotation
//     /Contents text: encryptDict/decryptDict treat /FT /Sig like a signature DICTIONARY and skip /Contents.
//  2. lazy: a dictionary that lives in an object stream of the input and is only reachable through a key
//     pdfcpu's validator does not follow (here /VerifPrivate of an annotation; the same holds for the
//     catalog's /PieceInfo in relaxed mode with conf.Optimize=false): it is still a LazyObjectStreamObject at
//     write time and writeLazyObjectStreamObject copies its source text verbatim: strings in the clear, and
//     the objects it references are never written.
//
// With a file argument: `repro <in.pdf>` encrypts that file (AES-128, no object streams) and lists the markers
// readable in the output together with the object they sit in.
package main

import (
	"bytes"
	"fmt"
	"os"
	"path/filepath"
	"regexp"

	"github.com/pdfcpu/pdfcpu/pkg/api"
	"github.com/pdfcpu/pdfcpu/pkg/pdfcpu/model"
	g "verif/harness/internal/pdfgen"
)

var re = regexp.MustCompile(`VSEC-[0-9A-Za-z]+`)

func encryptAndGrep(in, out string) {
	conf := model.NewAESConfiguration("u", "o", 128)
	conf.Offline = true
	conf.WriteObjectStream, conf.WriteXRefStream = false, false
	conf.Optimize = os.Getenv("NOOPT") == ""
	if err := api.EncryptFile(in, out, conf); err != nil {
		fmt.Println("EncryptFile:", err)
		os.Exit(1)
	}
	b, _ := os.ReadFile(out)
	n := 0
	for _, loc := range re.FindAllIndex(b, -1) {
		s := bytes.LastIndex(b[:loc[0]], []byte(" obj"))
		ls := bytes.LastIndexAny(b[:s], "\r\n") + 1
		e := min(loc[1]+40, len(b))
		ctx := b[ls:e]
		if len(ctx) > 300 {
			ctx = append(append([]byte{}, ctx[:80]...), append([]byte(" ... "), b[loc[0]-60:e]...)...)
		}
		fmt.Printf("  LEAK %s in: %q\n", b[loc[0]:loc[1]], ctx)
		n++
	}
	fmt.Printf("  %d marker(s) readable in %s\n", n, out)
}

func minimal() (*g.Doc, g.Ref, g.Ref) {
	doc := g.NewDoc()
	pages, page, cat := doc.Alloc(), doc.Alloc(), doc.Alloc()
	doc.Put(pages, g.D("Type", g.Name("Pages"), "Kids", g.Array{page}, "Count", 1))
	doc.Put(page, g.D("Type", g.Name("Page"), "Parent", pages, "MediaBox", g.Rect(0, 0, 200, 200)))
	doc.Put(cat, g.D("Type", g.Name("Catalog"), "Pages", pages))
	doc.SetRoot(cat)
	doc.ID[0], doc.ID[1] = []byte("0123456789abcdef"), []byte("0123456789abcdef")
	return doc, page, cat
}

func main() {
	api.DisableConfigDir()
	root := os.Getenv("VERIF_ROOT")
	if root == "" {
		root = "/verif"
	}
	dir, err := os.MkdirTemp(filepath.Join(root, ".cache", "run"), "C23-repro-")
	if err != nil {
		panic(err)
	}
	defer os.RemoveAll(dir)
	if len(os.Args) > 1 {
		encryptAndGrep(os.Args[1], filepath.Join(dir, "out.pdf"))
		return
	}

	fmt.Println("1. signature field widget with annotation /Contents (expected: 0 markers readable)")
	doc, page, cat := minimal()
	sig := doc.Add(g.D("FT", g.Name("Sig"), "T", "Signature1", "Type", g.Name("Annot"), "Subtype", g.Name("Widget"), "Rect", g.Rect(0, 0, 0, 0),
		"F", 132, "P", page, "Contents", "VSEC-WidgetContentsOfSigField"))
	doc.SetKey(page.Num, "Annots", g.Array{sig})
	doc.SetKey(cat.Num, "AcroForm", g.D("Fields", g.Array{sig}, "SigFlags", 1))
	in := filepath.Join(dir, "sigfield.pdf")
	os.WriteFile(in, g.MustWrite(doc, g.Options{Version: "1.7"}).Bytes, 0o644)
	encryptAndGrep(in, filepath.Join(dir, "sigfield-enc.pdf"))

	fmt.Println("2. object-stream member reachable only through a key the validator does not follow (expected: 0 markers readable, child object written)")
	doc, page, _ = minimal()
	child := doc.Alloc()
	holder := doc.Add(g.D("Note", "VSEC-InLazyObject", "Child", child))
	doc.Put(child, g.D("Note", "VSEC-InChildOfLazyObject"))
	annot := doc.Add(g.D("Type", g.Name("Annot"), "Subtype", g.Name("Text"), "Rect", g.Rect(10, 10, 30, 30), "Contents", "note", "VerifPrivate", holder))
	doc.SetKey(page.Num, "Annots", g.Array{annot})
	in = filepath.Join(dir, "lazy.pdf")
	os.WriteFile(in, g.MustWrite(doc, g.Options{Version: "1.7", XRef: g.XRefStream, ObjStm: true}).Bytes, 0o644)
	out := filepath.Join(dir, "lazy-enc.pdf")
	encryptAndGrep(in, out)
	b, _ := os.ReadFile(out)
	fmt.Printf("  child object %d written: %v\n", child.Num, bytes.Contains(b, []byte(fmt.Sprintf("\n%d 0 obj", child.Num))))
}
