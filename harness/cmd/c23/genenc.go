package main

import (
	"math/rand/v2"

	"verif/harness/internal/pdfgen"
	ref "verif/harness/internal/ref/iso32000sec"
)

// preAlg is one way pdfgen (with the reference security handler) encrypts an INPUT document.
type preAlg struct {
	Name    string
	R, V    int
	KeyBits int
	AES     bool
	Emd     bool // /EncryptMetadata
}

var preAlgs = []preAlg{
	{"in:R2-RC4-40", 2, 1, 40, false, true},
	{"in:R3-RC4-128", 3, 2, 128, false, true},
	{"in:R4-RC4-128", 4, 4, 128, false, true},
	{"in:R4-AESV2", 4, 4, 128, true, true},
	{"in:R4-AESV2-emd=false", 4, 4, 128, true, false},
	{"in:R4-RC4-128-emd=false", 4, 4, 128, false, false},
	{"in:R6-AESV3", 6, 5, 256, true, true},
	{"in:R6-AESV3-emd=false", 6, 5, 256, true, false},
}

type rndReader struct{ r *rand.Rand }

func (r rndReader) Read(p []byte) (int, error) {
	for i := range p {
		p[i] = byte(r.r.UintN(256))
	}
	return len(p), nil
}

// genEncrypter adapts ref.Handler to pdfgen.Encrypter.
type genEncrypter struct {
	a preAlg
	p ref.Params
	e ref.Entries
	h *ref.Handler
}

func newGenEncrypter(a preAlg, id0 []byte, upw, opw string, rng *rand.Rand) (*genEncrypter, error) {
	p := ref.Params{R: a.R, V: a.V, KeyBits: a.KeyBits, P: -1084, ID0: id0, EncryptMetadata: a.Emd, AES: a.AES}
	rd := rndReader{rng}
	e, key, err := ref.Compute(p, []byte(upw), []byte(opw), rd)
	if err != nil {
		return nil, err
	}
	h := ref.NewHandler(p, key, rd)
	return &genEncrypter{a: a, p: p, e: e, h: h}, nil
}

func (g *genEncrypter) EncryptString(objNr, gen int, b []byte) []byte {
	return g.h.EncryptString(objNr, gen, b)
}

func (g *genEncrypter) EncryptStream(objNr, gen int, d pdfgen.Dict, b []byte) []byte {
	if !g.a.Emd {
		if t, ok := d.Get("Type"); ok && t == pdfgen.Object(pdfgen.Name("Metadata")) {
			return b
		}
	}
	return g.h.EncryptStreamBytes(objNr, gen, b)
}

func (g *genEncrypter) EncryptDict() pdfgen.Dict {
	d := pdfgen.D("Filter", pdfgen.Name("Standard"), "V", g.a.V, "R", g.a.R, "P", int(g.p.P),
		"O", pdfgen.HexString(g.e.O), "U", pdfgen.HexString(g.e.U))
	switch g.a.R {
	case 3:
		d.Set("Length", pdfgen.Int(g.a.KeyBits))
	case 4:
		cfm := "V2"
		if g.a.AES {
			cfm = "AESV2"
		}
		d.Set("Length", pdfgen.Int(g.a.KeyBits))
		d.Set("CF", pdfgen.D("StdCF", pdfgen.D("CFM", pdfgen.Name(cfm), "AuthEvent", pdfgen.Name("DocOpen"), "Length", g.a.KeyBits))) // pdfcpu demands CF /Length and reads it as bits below PDF 2.0
		d.Set("StmF", pdfgen.Name("StdCF"))
		d.Set("StrF", pdfgen.Name("StdCF"))
	case 5, 6:
		d.Set("Length", pdfgen.Int(256))
		d.Set("CF", pdfgen.D("StdCF", pdfgen.D("CFM", pdfgen.Name("AESV3"), "AuthEvent", pdfgen.Name("DocOpen"), "Length", 32)))
		d.Set("StmF", pdfgen.Name("StdCF"))
		d.Set("StrF", pdfgen.Name("StdCF"))
		d.Set("OE", pdfgen.HexString(g.e.OE))
		d.Set("UE", pdfgen.HexString(g.e.UE))
		d.Set("Perms", pdfgen.HexString(g.e.Perms))
	}
	if !g.a.Emd {
		d.Set("EncryptMetadata", pdfgen.Bool(false))
	}
	return d
}
