package main

import (
	"bytes"
	"compress/zlib"
	"crypto/sha256"
	"io"
	"regexp"
	"strconv"

	"verif/harness/internal/pdfstrict"
)

// markerRE matches every planted marker: pdfgen's page markers and secret markers (and this worker's).
var markerRE = regexp.MustCompile(`(?:VSEC-|VERIF-PAGE-)[0-9A-Fa-f]{32}`)

const maxBlob = 8 << 20

// hits maps marker -> description of the first view it was seen in.
type hits map[string]string

func (h hits) add(b []byte, view string) {
	for _, m := range markerRE.FindAll(b, -1) {
		k := string(m)
		if _, ok := h[k]; !ok {
			h[k] = view
		}
	}
}

// textViews searches one blob in every spelling a PDF writer could use for a string:
// raw; UTF-16 (NUL bytes removed); literal-string escapes undone; #xx name escapes undone; hex strings
// and any hex digit run decoded (both nibble alignments); the UTF-16 view of the decoded hex.
func (h hits) textViews(b []byte, where string) {
	h.add(b, where+":raw")
	if bytes.IndexByte(b, 0) >= 0 {
		h.add(stripNUL(b), where+":utf16")
	}
	if bytes.IndexByte(b, '\\') >= 0 {
		u := unescapeLiteral(b)
		h.add(u, where+":literal-escapes")
		if bytes.IndexByte(u, 0) >= 0 {
			h.add(stripNUL(u), where+":literal-escapes+utf16")
		}
	}
	if bytes.IndexByte(b, '#') >= 0 {
		h.add(unescapeName(b), where+":#xx")
	}
	for al := 0; al < 2; al++ {
		if d := hexRuns(b, al); len(d) > 0 {
			h.add(d, where+":hex")
			if bytes.IndexByte(d, 0) >= 0 {
				h.add(stripNUL(d), where+":hex+utf16")
			}
		}
	}
}

func stripNUL(b []byte) []byte {
	out := make([]byte, 0, len(b))
	for _, c := range b {
		if c != 0 {
			out = append(out, c)
		}
	}
	return out
}

func isOct(c byte) bool { return c >= '0' && c <= '7' }

// unescapeLiteral undoes the escapes of PDF literal strings over the whole blob (ISO 32000-1 7.3.4.2).
func unescapeLiteral(b []byte) []byte {
	out := make([]byte, 0, len(b))
	for i := 0; i < len(b); i++ {
		c := b[i]
		if c != '\\' || i+1 >= len(b) {
			out = append(out, c)
			continue
		}
		i++
		switch e := b[i]; {
		case e == 'n':
			out = append(out, '\n')
		case e == 'r':
			out = append(out, '\r')
		case e == 't':
			out = append(out, '\t')
		case e == 'b':
			out = append(out, '\b')
		case e == 'f':
			out = append(out, '\f')
		case e == '\r':
			if i+1 < len(b) && b[i+1] == '\n' {
				i++
			}
		case e == '\n':
		case isOct(e):
			v := int(e - '0')
			for k := 0; k < 2 && i+1 < len(b) && isOct(b[i+1]); k++ {
				i++
				v = v*8 + int(b[i]-'0')
			}
			out = append(out, byte(v))
		default:
			out = append(out, e)
		}
	}
	return out
}

func hexVal(c byte) int {
	switch {
	case c >= '0' && c <= '9':
		return int(c - '0')
	case c >= 'a' && c <= 'f':
		return int(c-'a') + 10
	case c >= 'A' && c <= 'F':
		return int(c-'A') + 10
	}
	return -1
}

func unescapeName(b []byte) []byte {
	out := make([]byte, 0, len(b))
	for i := 0; i < len(b); i++ {
		if b[i] == '#' && i+2 < len(b) && hexVal(b[i+1]) >= 0 && hexVal(b[i+2]) >= 0 {
			out = append(out, byte(hexVal(b[i+1])<<4|hexVal(b[i+2])))
			i += 2
			continue
		}
		out = append(out, b[i])
	}
	return out
}

func isWS(c byte) bool { return c == ' ' || c == '\n' || c == '\r' || c == '\t' || c == '\f' || c == 0 }

// hexRuns decodes every run of >= 16 hex digits (white space inside a run is skipped, as in hex strings
// and ASCIIHex data), starting at the given nibble alignment; runs are separated by 0xFF in the result.
func hexRuns(b []byte, align int) []byte {
	var out []byte
	i := 0
	for i < len(b) {
		if hexVal(b[i]) < 0 {
			i++
			continue
		}
		var digs []byte
		j := i
		for j < len(b) && (hexVal(b[j]) >= 0 || (isWS(b[j]) && len(digs) > 0 && b[j] != 0)) {
			if hexVal(b[j]) >= 0 {
				digs = append(digs, b[j])
			}
			j++
		}
		if len(digs) >= 16+align {
			digs = digs[align:]
			for k := 0; k+1 < len(digs); k += 2 {
				out = append(out, byte(hexVal(digs[k])<<4|hexVal(digs[k+1])))
			}
			out = append(out, 0xFF)
		}
		i = j
	}
	return out
}

// inflatePartial returns whatever a zlib decoder yields before it fails (PDF's FlateDecode is zlib-wrapped;
// a stream that skipped encryption is byte-identical to what an unencrypted write produces). complete
// reports a clean end of the zlib stream (checksum verified).
func inflatePartial(b []byte) (out []byte, complete bool) {
	zr, err := zlib.NewReader(bytes.NewReader(b))
	if err != nil {
		return nil, false
	}
	var buf bytes.Buffer
	_, err = io.Copy(&buf, io.LimitReader(zr, maxBlob))
	return buf.Bytes(), err == nil
}

var (
	streamKW    = []byte("stream")
	endstreamKW = []byte("endstream")
)

// rawStreamBodies finds every "stream EOL ... endstream" body by scanning (independent of the xref).
func rawStreamBodies(data []byte) [][]byte {
	var out [][]byte
	pos := 0
	for {
		i := bytes.Index(data[pos:], streamKW)
		if i < 0 {
			return out
		}
		i += pos
		pos = i + len(streamKW)
		if i >= 3 && bytes.Equal(data[i-3:i], []byte("end")) {
			continue
		}
		s := pos
		switch {
		case s+1 < len(data) && data[s] == '\r' && data[s+1] == '\n':
			s += 2
		case s < len(data) && (data[s] == '\n' || data[s] == '\r'):
			s++
		default:
			continue
		}
		// a binary body may contain "endstream" by chance: take every candidate end up to the 3rd
		from := s
		for k := 0; k < 3; k++ {
			e := bytes.Index(data[from:], endstreamKW)
			if e < 0 {
				break
			}
			e += from
			body := data[s:e]
			out = append(out, body)
			from = e + len(endstreamKW)
			if k == 0 {
				pos = e // continue scanning behind the first end
			}
		}
	}
}

type searchStats struct {
	Streams          int // stream bodies looked at
	InflatedBlind    int // bodies (or decodings) that a key-less zlib/deflate attempt inflated
	DecodedDeclared  int // bodies the declared filter pipeline decoded without a key
	ObjStmSeen       int // /Type /ObjStm streams among the objects
	Blobs            int
	StrictOpenFailed bool
	Encrypted        bool
}

// searchPDF looks for markers in (a) the raw bytes, (b) every key-less decoding of every stream body
// (declared filter pipeline through pdfstrict; blind zlib/deflate, ASCII85, ASCIIHex up to 3 layers),
// (c) all string spellings of each of those blobs.
func searchPDF(data []byte) (hits, searchStats) {
	h := hits{}
	var st searchStats
	h.textViews(data, "file")
	seen := map[[32]byte]bool{}
	var blind func(b []byte, where string, depth int)
	blind = func(b []byte, where string, depth int) {
		if depth > 3 || len(b) == 0 {
			return
		}
		if out, complete := inflatePartial(b); len(out) > 0 {
			if depth == 0 && complete {
				st.InflatedBlind++
			}
			st.Blobs++
			h.textViews(out, where+">inflate")
			blind(out, where+">inflate", depth+1)
		}
		t := bytes.TrimSpace(b)
		if out, err := pdfstrict.ASCII85Decode(t); err == nil && len(out) > 0 {
			st.Blobs++
			h.textViews(out, where+">a85")
			blind(out, where+">a85", depth+1)
		}
		if out, err := pdfstrict.ASCIIHexDecode(t); err == nil && len(out) > 0 {
			st.Blobs++
			h.textViews(out, where+">ahx")
			blind(out, where+">ahx", depth+1)
		}
	}
	body := func(raw []byte, where string) {
		k := sha256.Sum256(raw)
		if seen[k] {
			return
		}
		seen[k] = true
		st.Streams++
		blind(raw, where, 0)
		// a body found by scanning may carry the EOL before "endstream"
		if t := bytes.TrimRight(raw, "\r\n"); len(t) != len(raw) {
			k2 := sha256.Sum256(t)
			if !seen[k2] {
				seen[k2] = true
				blind(t, where, 0)
			}
		}
	}
	d, err := pdfstrict.Open(data, pdfstrict.Options{})
	if err != nil || d == nil {
		st.StrictOpenFailed = true
	}
	if d != nil {
		st.Encrypted = d.Encrypted
		for _, num := range d.Objects() {
			e, ok := d.Entry(num)
			if !ok {
				continue
			}
			o, err := d.Get(pdfstrict.Ref{Num: num, Gen: e.Gen})
			if err != nil {
				continue
			}
			s, ok := o.(*pdfstrict.Stream)
			if !ok {
				continue
			}
			if n, _ := s.Dict.Name("Type"); n == "ObjStm" {
				st.ObjStmSeen++
			}
			where := "obj" + itoa(num)
			if out, _, err := pdfstrict.Decode(s.Raw, s.Dict, d.Resolve, maxBlob); err == nil && len(out) > 0 && !bytes.Equal(out, s.Raw) {
				st.DecodedDeclared++
				st.Blobs++
				h.textViews(out, where+">declared-filters")
			}
			body(s.Raw, where)
		}
	}
	for i, b := range rawStreamBodies(data) {
		body(b, "scan"+itoa(i))
	}
	return h, st
}

func itoa(i int) string { return strconv.Itoa(i) }
