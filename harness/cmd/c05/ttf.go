//go:build verifshadow

package main

import (
	"encoding/binary"
	"fmt"
	"unicode/utf16"
)

// patchPostScriptName returns a copy of a TrueType font whose `name` table is replaced by a fresh one that
// carries only name ID 6 (PostScript name) = name. win selects a Windows/Unicode record (UTF-16BE, so name is
// taken as text); otherwise a Macintosh/Roman record holding the raw bytes. The new table is appended to the
// file and the directory entry is re-pointed; lengths of other tables do not change. Independent of pdfcpu.
func patchPostScriptName(ttf []byte, name string, win bool) ([]byte, error) {
	if len(ttf) < 12 {
		return nil, fmt.Errorf("short font")
	}
	n := int(binary.BigEndian.Uint16(ttf[4:6]))
	if len(ttf) < 12+16*n {
		return nil, fmt.Errorf("short table directory")
	}
	rec := -1
	for i := 0; i < n; i++ {
		if string(ttf[12+16*i:12+16*i+4]) == "name" {
			rec = 12 + 16*i
		}
	}
	if rec < 0 {
		return nil, fmt.Errorf("no name table")
	}
	var data []byte
	pf, enc, lang := uint16(1), uint16(0), uint16(0)
	if win {
		pf, enc, lang = 3, 1, 0x0409
		for _, c := range utf16.Encode([]rune(name)) {
			data = append(data, byte(c>>8), byte(c))
		}
	} else {
		data = []byte(name)
	}
	if len(data) > 0xffff {
		return nil, fmt.Errorf("name too long")
	}
	tbl := make([]byte, 18, 18+len(data)+4)
	binary.BigEndian.PutUint16(tbl[0:], 0)  // format
	binary.BigEndian.PutUint16(tbl[2:], 1)  // count
	binary.BigEndian.PutUint16(tbl[4:], 18) // string storage offset
	binary.BigEndian.PutUint16(tbl[6:], pf)
	binary.BigEndian.PutUint16(tbl[8:], enc)
	binary.BigEndian.PutUint16(tbl[10:], lang)
	binary.BigEndian.PutUint16(tbl[12:], 6)
	binary.BigEndian.PutUint16(tbl[14:], uint16(len(data)))
	binary.BigEndian.PutUint16(tbl[16:], 0)
	tbl = append(tbl, data...)
	out := append([]byte(nil), ttf...)
	for len(out)%4 != 0 {
		out = append(out, 0)
	}
	off := len(out)
	out = append(out, tbl...)
	for len(out)%4 != 0 {
		out = append(out, 0)
	}
	var sum uint32
	for i := off; i+4 <= len(out); i += 4 {
		sum += binary.BigEndian.Uint32(out[i:])
	}
	binary.BigEndian.PutUint32(out[rec+4:], sum)
	binary.BigEndian.PutUint32(out[rec+8:], uint32(off))
	binary.BigEndian.PutUint32(out[rec+12:], uint32(len(tbl)))
	return out, nil
}
