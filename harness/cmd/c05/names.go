//go:build verifshadow

package main

import (
	"math/rand/v2"
	"strings"
)

// The hostile-name workload of DESIGN.md §C05: every string over the segment alphabet joined by the
// separator alphabet with at most three segments, collision sets, targeted escapes and random bytes.

var segments = []string{
	"", ".", "..", "a", "CON", "nul.txt", "COM1.x", " ", "x.", ".x",
	"\x00", "\x01", "\x1f", "\x7f", "é", "\xff\xfe", strings.Repeat("a", 300), "C:", "~", "-",
}

var joiners = []string{"/", "\\", ":"}

// comboCount is the number of names with 1, 2 or 3 segments.
func comboCount() int {
	s, j := len(segments), len(joiners)
	return s + s*j*s + s*j*s*j*s
}

// combo returns the i-th name of the enumeration (0 <= i < comboCount()).
func combo(i int) string {
	s, j := len(segments), len(joiners)
	if i < s {
		return segments[i]
	}
	i -= s
	if i < s*j*s {
		a := i / (j * s)
		b := (i / s) % j
		c := i % s
		return segments[a] + joiners[b] + segments[c]
	}
	i -= s * j * s
	e := i % s
	i /= s
	d := i % j
	i /= j
	c := i % s
	i /= s
	b := i % j
	a := i / j
	return segments[a] + joiners[b] + segments[c] + joiners[d] + segments[e]
}

// enumMode says how a case gets its names.
type enumMode int

const (
	seeded    enumMode = iota // drawn from the case's PRNG
	enumShort                 // the c-th slice of the enumeration of all combinations shorter than 200 bytes
	enumLong                  // one combination of >= 200 bytes (index c of longCombos)
)

// shortCombos / longCombos split the enumeration: an over-long name makes a whole call fail with ENAMETOOLONG before
// anything is written, so such names get single-name cases instead of spoiling every document of the enumeration.
var shortCombos, longCombos = func() (short, long []int32) {
	n := comboCount()
	for i := 0; i < n; i++ {
		if len(combo(i)) < 200 {
			short = append(short, int32(i))
		} else {
			long = append(long, int32(i))
		}
	}
	return
}()

// enumDocs is the number of enumShort cases for perCase names per case.
func enumDocs(perCase int) int { return (len(shortCombos) + perCase - 1) / perCase }

// randomName draws a random byte string: raw bytes, bytes from a dangerous alphabet, or a mutated combination.
func randomName(r *rand.Rand) string {
	switch r.IntN(4) {
	case 0: // arbitrary bytes
		n := 1 + r.IntN(24)
		b := make([]byte, n)
		for i := range b {
			b[i] = byte(r.IntN(256))
		}
		return string(b)
	case 1: // dense in dangerous bytes
		const alpha = "/\\:.. \x00\x01\x1f\x7f~-_aAbcCONnul1<>|?*\"\t\n\r\xc2\x85\xe2\x80\xae\xef\xbc\x8f\xff"
		n := 1 + r.IntN(16)
		b := make([]byte, n)
		for i := range b {
			b[i] = alpha[r.IntN(len(alpha))]
		}
		return string(b)
	case 2: // longer paths over the segment alphabet
		n := 4 + r.IntN(4)
		var sb strings.Builder
		for i := 0; i < n; i++ {
			if i > 0 {
				sb.WriteString(joiners[r.IntN(len(joiners))])
			}
			s := segments[r.IntN(len(segments))]
			if len(s) > 100 {
				s = s[:1+r.IntN(40)]
			}
			sb.WriteString(s)
		}
		return sb.String()
	default: // a combination with one byte mutated / inserted
		s := []byte(combo(r.IntN(comboCount())))
		if len(s) > 64 {
			s = s[:64]
		}
		if len(s) == 0 || r.IntN(2) == 0 {
			p := r.IntN(len(s) + 1)
			s = append(s[:p:p], append([]byte{byte(r.IntN(256))}, s[p:]...)...)
		} else {
			s[r.IntN(len(s))] = byte(r.IntN(256))
		}
		return string(s)
	}
}

// targeted returns names aimed at the canaries of the sandbox (relative climbs, absolute paths, drive forms).
func targeted(sb *sandbox) []string {
	return []string{
		"../sibling.txt", "..\\sibling.txt", "../../canary-parent.txt", "../out2/keep.txt",
		"../in/hostile", "./../sibling.txt", "x/../../sibling.txt", "....//sibling.txt", "..././sibling.txt",
		sb.sibling, sb.parentCanary, "C:" + sb.sibling, "//" + strings.TrimPrefix(sb.sibling, "/"),
		"/etc/passwd", "\\\\server\\share\\x", "C:\\Windows\\x", "..", "../", "..\\", "/", "\\", ".", "./", "",
		"out/../../sibling.txt", ".pdfcpu-x/../../sibling.txt", ".pdfcpu-x/y", ".input-1-x/y",
		"%2e%2e/sibling.txt", "..%2fsibling.txt", "\u2025/sibling.txt", "..\u2215sibling.txt", "..\uff0fsibling.txt",
		"sibling.txt\x00.pdf", "../sibling.txt\x00", " ../sibling.txt", "../sibling.txt ", "\t../sibling.txt",
	}
}

// collisionSets: names that differ only in what a sanitiser removes or folds, identical names, case variants,
// and names colliding with the fall-back names pdfcpu invents for unusable ones.
var collisionSets = [][]string{
	{"a/b", "a_b"},
	{"a\\b", "a_b"},
	{"a:b", "a_b"},
	{"x.", "x"},
	{"x ", "x"},
	{" x", "x"},
	{"a\x00", "a"},
	{"a\x01b", "a\x02b"},
	{"a\x01b", "a_b"},
	{"same.txt", "same.txt"},
	{"same.txt", "same.txt", "same.txt"},
	{"Case.txt", "case.txt", "CASE.TXT"},
	{"../a", "a"},
	{"/a", "a"},
	{"C:a", "a"},
	{"C:\\a", "\\a", "a"},
	{"a/./b", "a/b", "a//b"},
	{"a/../b", "a/b"},
	{"CON", "_CON"},
	{"nul.txt", "_nul.txt"},
	{"a?b", "a*b", "a|b", "a<b"},
	{"a__b", "a_\x01b"},
	{"..", "attachment_2"},
	{"attachment_1", ""},
	{"", "."},
	{"\x00", "\x00\x00"},
	{"é", "e\u0301"},
	{"a\xffb", "a\xfeb"},
	{"a\xffb", "a\ufffdb"},
	{"x.pdf", "x.PDF", "x"},
	{"bookmark_2", ".."},
	{"form_02", "..", "form_02.pdf"},
	{"a.", "a..", "a. ."},
}

// nameSource deals names for one case: deterministic in (seed, case index).
type nameSource struct {
	r  *rand.Rand
	sb *sandbox
}

// batch returns n names for case c: mostly combinations (enumerated from c*n when all is set, else drawn),
// plus targeted and random ones.
func (ns *nameSource) batch(n int, all enumMode, c int) []string {
	out := make([]string, 0, n)
	switch all {
	case enumLong:
		return append(out, combo(int(longCombos[c%len(longCombos)])))
	case enumShort:
		// strided: the names of one case are far apart in the enumeration (neighbours differ only in the last
		// segment and mostly sanitise to the same name)
		docs := enumDocs(n)
		for k := 0; k < n; k++ {
			if i := c%docs + k*docs; i < len(shortCombos) {
				out = append(out, combo(int(shortCombos[i])))
			}
		}
		return out
	}
	tg := targeted(ns.sb)
	for k := 0; k < n; k++ {
		var s string
		for try := 0; try < 6; try++ {
			switch ns.r.IntN(10) {
			case 0, 1:
				s = tg[ns.r.IntN(len(tg))]
			case 2, 3, 4:
				s = randomName(ns.r)
			default:
				s = combo(ns.r.IntN(comboCount()))
			}
			// over-long names make the whole call fail with ENAMETOOLONG before anything is written:
			// keep them rare in the seeded subset (the thorough enumeration has them all)
			if len(s) < 200 || ns.r.IntN(8) == 0 {
				break
			}
		}
		out = append(out, s)
	}
	return out
}

func (ns *nameSource) collision() []string {
	return collisionSets[ns.r.IntN(len(collisionSets))]
}
