//go:build verifshadow

package main

import (
	"fmt"
	"math/rand/v2"
	"unicode/utf8"

	. "verif/harness/internal/pdfgen"
)

// Documents for the end-to-end sites, built with pdfgen's layer 1 (own object model and writer, nothing from
// pdfcpu): the hostile strings are planted as raw bytes exactly where the property's quantifier lists them.

// textEnc says how a name is stored in a PDF string.
type textEnc int

const (
	encRaw   textEnc = iota // literal string with the raw bytes
	encHex                  // hex string with the raw bytes
	encUTF16                // UTF-16BE with byte order mark (valid UTF-8 names only; else raw)
	encUTF8                 // UTF-8 with byte order mark EF BB BF (PDF 2.0; valid UTF-8 names only; else raw)
)

func encodeName(s string, e textEnc) Object {
	switch e {
	case encHex:
		return HexString(s)
	case encUTF16:
		if utf8.ValidString(s) {
			return EncodeUTF16(s)
		}
	case encUTF8:
		if utf8.ValidString(s) {
			return String("\xef\xbb\xbf" + s)
		}
	}
	return String(s)
}

func randEnc(r *rand.Rand) textEnc {
	switch r.IntN(8) {
	case 0:
		return encHex
	case 1, 2:
		return encUTF16
	case 3:
		return encUTF8
	}
	return encRaw
}

type skeleton struct {
	doc     *Doc
	pages   []Ref
	catalog Dict
	pagesR  Ref
}

// newSkeleton makes n empty pages; res(i) supplies the resource dictionary and content of page i.
func newSkeleton(n int, page func(i int) (Dict, string)) *skeleton {
	s := &skeleton{doc: NewDoc()}
	s.pagesR = s.doc.Alloc()
	var kids Array
	for i := 0; i < n; i++ {
		res, content := D(), "q Q\n"
		if page != nil {
			res, content = page(i)
		}
		c := s.doc.Add(&Stream{Data: []byte(content)})
		p := s.doc.Add(D("Type", Name("Page"), "Parent", s.pagesR, "MediaBox", Rect(0, 0, float64(200+i), 200),
			"Resources", res, "Contents", c))
		s.pages = append(s.pages, p)
		kids = append(kids, p)
	}
	s.doc.Put(s.pagesR, D("Type", Name("Pages"), "Kids", kids, "Count", Int(n)))
	s.catalog = D("Type", Name("Catalog"), "Pages", s.pagesR)
	return s
}

func (s *skeleton) bytes(r *rand.Rand, version string) []byte {
	s.doc.SetRoot(s.doc.Add(s.catalog))
	opts := Options{Version: version}
	if r != nil && r.IntN(3) == 0 {
		opts = RandomOptions(r)
		opts.Version = FitVersion(opts, version)
	}
	return MustWrite(s.doc, opts).Bytes
}

// attSpec is one attachment; nil F / UF: entry omitted.
type attSpec struct {
	Key    string
	F, UF  *string
	Data   []byte
	FEnc   textEnc
	UFEnc  textEnc
	HexKey bool
}

// effective is the name pdfcpu is expected to READ for the attachment as far as the file format says: /UF wins over /F.
func (a attSpec) planted() string {
	if a.UF != nil {
		return *a.UF
	}
	if a.F != nil {
		return *a.F
	}
	return ""
}

func attachmentsDoc(r *rand.Rand, atts []attSpec, portfolio bool) []byte {
	s := newSkeleton(1, nil)
	var entries []NameTreeEntry
	for _, a := range atts {
		sref := s.doc.Add(&Stream{Dict: D("Type", Name("EmbeddedFile"), "Params", D("Size", Int(len(a.Data)))), Data: a.Data,
			Filters: flateMaybe(r)})
		spec := D("Type", Name("Filespec"))
		ef := D()
		if a.F != nil {
			spec.Set("F", encodeName(*a.F, a.FEnc))
			ef.Set("F", sref)
		}
		if a.UF != nil {
			spec.Set("UF", encodeName(*a.UF, a.UFEnc))
			ef.Set("UF", sref)
			if a.F == nil {
				ef.Set("F", sref)
			}
		}
		spec.Set("EF", ef)
		entries = append(entries, NameTreeEntry{Key: []byte(a.Key), Val: s.doc.Add(spec)})
	}
	hex := func() bool { return false }
	if r.IntN(4) == 0 {
		hex = func() bool { return r.IntN(2) == 0 }
	}
	root, _ := BuildNameTree(s.doc, entries, 1+r.IntN(6), hex)
	s.catalog.Set("Names", D("EmbeddedFiles", root))
	if portfolio {
		s.catalog.Set("Collection", D("Type", Name("Collection"), "View", Name("D")))
		s.catalog.Set("PageMode", Name("UseAttachments"))
	}
	return s.bytes(r, "1.7")
}

func flateMaybe(r *rand.Rand) []FilterSpec {
	if r != nil && r.IntN(2) == 0 {
		return []FilterSpec{{Kind: Flate}}
	}
	return nil
}

// bookmarksDoc: one page per title plus one, a flat outline whose i-th item points at page i.
func bookmarksDoc(r *rand.Rand, titles []string, encs []textEnc) []byte {
	n := len(titles)
	s := newSkeleton(n+1, nil)
	root := s.doc.Alloc()
	items := make([]Ref, n)
	for i := range items {
		items[i] = s.doc.Alloc()
	}
	for i, t := range titles {
		d := D("Title", encodeName(t, encs[i]), "Parent", root)
		if i > 0 {
			d.Set("Prev", items[i-1])
		}
		if i+1 < n {
			d.Set("Next", items[i+1])
		}
		dest := A(s.pages[i], Name("Fit"))
		if r.IntN(3) == 0 {
			d.Set("A", D("S", Name("GoTo"), "D", dest))
		} else {
			d.Set("Dest", dest)
		}
		s.doc.Put(items[i], d)
	}
	s.doc.Put(root, D("Type", Name("Outlines"), "First", items[0], "Last", items[n-1], "Count", Int(n)))
	s.catalog.Set("Outlines", root)
	return s.bytes(r, "1.7")
}

var rgb2x2 = []byte{255, 0, 0, 0, 255, 0, 0, 0, 255, 255, 255, 0}

// imagesDoc: every name becomes the resource name of an image XObject (several per page).
func imagesDoc(r *rand.Rand, names []string, perPage int) []byte {
	pages := (len(names) + perPage - 1) / perPage
	var imgs []Ref
	build := func(i int) (Dict, string) {
		xo := D()
		content := ""
		for k := i * perPage; k < (i+1)*perPage && k < len(names); k++ {
			xo = append(xo, Entry{Key: Name(names[k]), Val: imgs[k]})
			content += "q 10 0 0 10 " + fmt.Sprint(10*k) + " 0 cm " + contentName(names[k]) + " Do Q\n"
		}
		return D("XObject", xo), content
	}
	s := newSkeletonWith(pages, func(doc *Doc) {
		for k := range names {
			data := append([]byte(nil), rgb2x2...)
			data[0], data[1] = byte(k), byte(k>>8) // distinct images (the optimiser merges identical ones)
			imgs = append(imgs, doc.Add(&Stream{Dict: D("Type", Name("XObject"), "Subtype", Name("Image"), "Width", Int(2), "Height", Int(2),
				"ColorSpace", Name("DeviceRGB"), "BitsPerComponent", Int(8)), Data: data, Filters: []FilterSpec{{Kind: Flate}}}))
		}
	}, build)
	return s.bytes(r, "1.7")
}

// contentName writes a resource name inside a content stream. Probed against pdfcpu: it compares the RAW text that
// follows '/' in the content stream (up to the operator, white space and '/' included, #xx NOT resolved) with the
// DECODED key of the resource dictionary, and extracts only resources a page uses. So the name is written raw -
// the hostile name then reaches the extraction code - except for the bytes that derail pdfcpu's content scanner
// (NUL, parentheses, '<', '['), which are written as #xx (such names are never matched, hence never extracted).
func contentName(s string) string {
	var b []byte
	b = append(b, '/')
	for i := 0; i < len(s); i++ {
		c := s[i]
		switch c {
		case 0, '(', ')', '<', '[':
			b = append(b, fmt.Sprintf("#%02X", c)...)
		default:
			b = append(b, c)
		}
	}
	return string(b)
}

func newSkeletonWith(n int, pre func(doc *Doc), page func(i int) (Dict, string)) *skeleton {
	s := &skeleton{doc: NewDoc()}
	pre(s.doc)
	s.pagesR = s.doc.Alloc()
	var kids Array
	for i := 0; i < n; i++ {
		res, content := page(i)
		c := s.doc.Add(&Stream{Data: []byte(content)})
		p := s.doc.Add(D("Type", Name("Page"), "Parent", s.pagesR, "MediaBox", Rect(0, 0, float64(200+i), 200),
			"Resources", res, "Contents", c))
		s.pages = append(s.pages, p)
		kids = append(kids, p)
	}
	s.doc.Put(s.pagesR, D("Type", Name("Pages"), "Kids", kids, "Count", Int(n)))
	s.catalog = D("Type", Name("Catalog"), "Pages", s.pagesR)
	return s
}

func widths() Array {
	a := make(Array, 95)
	for i := range a {
		a[i] = Int(500)
	}
	return a
}

// fontsDoc: every name becomes /BaseFont (and /FontName) of an embedded TrueType font and, when resToo is set,
// also the font's resource name. fontFile is stored as /FontFile2 (pdfcpu copies it out verbatim).
func fontsDoc(r *rand.Rand, names []string, fontFile []byte, resToo bool, subsetPrefix bool) []byte {
	var fonts []Ref
	s := newSkeletonWith(len(names), func(doc *Doc) {
		for k, nm := range names {
			data := append([]byte(nil), fontFile...)
			data = append(data, byte(k), byte(k>>8)) // distinct font programs
			ff := doc.Add(&Stream{Dict: D("Length1", Int(len(data))), Data: data, Filters: []FilterSpec{{Kind: Flate}}})
			base := nm
			if subsetPrefix {
				base = "ABCDEF+" + nm
			}
			desc := doc.Add(D("Type", Name("FontDescriptor"), "FontName", Name(base), "Flags", Int(32),
				"FontBBox", A(-166, -225, 1000, 931), "ItalicAngle", Int(0), "Ascent", Int(718),
				"Descent", Int(-207), "CapHeight", Int(718), "StemV", Int(88), "FontFile2", ff))
			fonts = append(fonts, doc.Add(D("Type", Name("Font"), "Subtype", Name("TrueType"), "BaseFont", Name(base),
				"Encoding", Name("WinAnsiEncoding"), "FirstChar", Int(32), "LastChar", Int(126), "Widths", widths(), "FontDescriptor", desc)))
		}
	}, func(i int) (Dict, string) {
		rn := Name(fmt.Sprintf("F%d", i))
		if resToo {
			rn = Name(names[i])
		}
		return D("Font", Dict{{Key: rn, Val: fonts[i]}}), "BT " + contentName(string(rn)) + " 12 Tf (x) Tj ET\n"
	})
	return s.bytes(r, "1.7")
}

// metadataDoc: dictionaries whose /Type is the hostile name and which carry a /Metadata stream
// (pdfcpu names the extracted metadata file after the container's /Type).
func metadataDoc(r *rand.Rand, names []string) []byte {
	s := newSkeleton(1, nil)
	var keep Array
	for k, nm := range names {
		md := s.doc.Add(&Stream{Dict: D("Type", Name("Metadata"), "Subtype", Name("XML")),
			Data: []byte(fmt.Sprintf("<?xpacket begin='' id='W5M0MpCehiHzreSzNTczkc9d'?><x:xmpmeta xmlns:x='adobe:ns:meta/'><!-- %d --></x:xmpmeta><?xpacket end='w'?>", k))})
		keep = append(keep, s.doc.Add(D("Type", Name(nm), "Metadata", md)))
	}
	// keep them reachable from the catalog through a private key
	s.catalog.Set("VerifKeep", keep)
	return s.bytes(r, "1.7")
}

// plainDoc: n pages with a little text (inputs for the fileName-argument site).
func plainDoc(n int) []byte {
	var font Ref
	s := newSkeletonWith(n, func(doc *Doc) {
		desc := doc.Add(D("Type", Name("FontDescriptor"), "FontName", Name("Helvetica"), "Flags", Int(32),
			"FontBBox", A(-166, -225, 1000, 931), "ItalicAngle", Int(0), "Ascent", Int(718),
			"Descent", Int(-207), "CapHeight", Int(718), "StemV", Int(88)))
		font = doc.Add(D("Type", Name("Font"), "Subtype", Name("Type1"), "BaseFont", Name("Helvetica"),
			"Encoding", Name("WinAnsiEncoding"), "FirstChar", Int(32), "LastChar", Int(126), "Widths", widths(), "FontDescriptor", desc))
	}, func(i int) (Dict, string) {
		return D("Font", D("F1", font)), fmt.Sprintf("BT /F1 12 Tf 20 100 Td (page %d) Tj ET\n", i+1)
	})
	return s.bytes(nil, "1.7")
}
