//go:build verifshadow

package main

import (
	"fmt"
	"math/rand/v2"
	"path/filepath"
	"strings"
	"sync/atomic"
	"unicode/utf8"

	"github.com/pdfcpu/pdfcpu/pkg/pdfcpu/sanitize"
	"verif/harness/internal/vk"
)

// Oracle (iv): sanitize.Path driven directly. The contract checked is the one the sanitiser states ("returns a
// filesystem-safe, relative filename for an untrusted path") read together with the property text (separators, "..",
// absolute or drive paths, NUL or control characters, reserved device names): a returned name, joined to any
// directory, names an entry directly inside that directory, and carries none of the listed features.
// Leading/trailing blanks or dots are NOT part of either text: they are counted, not judged.

var reservedStems = map[string]bool{"CON": true, "PRN": true, "AUX": true, "NUL": true,
	"COM1": true, "COM2": true, "COM3": true, "COM4": true, "COM5": true, "COM6": true, "COM7": true, "COM8": true, "COM9": true,
	"LPT1": true, "LPT2": true, "LPT3": true, "LPT4": true, "LPT5": true, "LPT6": true, "LPT7": true, "LPT8": true, "LPT9": true}

// sanitiserDefect returns "" or the class of contract breach of result r.
func sanitiserDefect(r string) string {
	switch {
	case r == "":
		return "empty"
	case r == "." || r == "..":
		return "dot-name"
	case strings.ContainsRune(r, '/'):
		return "slash"
	case strings.ContainsRune(r, '\\'):
		return "backslash"
	case strings.ContainsRune(r, 0):
		return "nul"
	}
	for _, c := range r {
		if c < 0x20 || c == 0x7f || (c >= 0x80 && c <= 0x9f) {
			return "control-char"
		}
	}
	if len(r) >= 2 && r[1] == ':' {
		return "drive-prefix"
	}
	stem := r
	if i := strings.IndexByte(stem, '.'); i >= 0 {
		stem = stem[:i]
	}
	if reservedStems[strings.ToUpper(stem)] {
		return "reserved-device-name"
	}
	const dir = "/requested/out"
	j := filepath.Join(dir, r)
	if filepath.Dir(j) != dir || filepath.Base(j) != r {
		return "not-directly-inside"
	}
	return ""
}

func dangerous(s string) bool {
	if strings.ContainsAny(s, "/\\:\x00") || strings.Contains(s, "..") || s == "." || s == "" {
		return true
	}
	for i := 0; i < len(s); i++ {
		if s[i] < 0x20 || s[i] == 0x7f {
			return true
		}
	}
	stem := s
	if i := strings.IndexByte(stem, '.'); i >= 0 {
		stem = stem[:i]
	}
	return reservedStems[strings.ToUpper(strings.TrimSpace(stem))] || !utf8.ValidString(s)
}

func unicodeName(r *rand.Rand) string {
	// runes around the interesting classes: C1 controls, line/paragraph separators, bidi, look-alike slashes and dots, BOM
	pool := []rune{0x80, 0x85, 0x9f, 0xa0, 0xad, 0x2028, 0x2029, 0x202e, 0x2215, 0x2044, 0xff0f, 0xff3c, 0xff0e, 0x2024, 0x2025, 0xfeff,
		0xfffd, 0xe9, 0x301, 0x1f4a9, '.', '/', '\\', ':', ' ', 'a', 'C', 'O', 'N', 'n', 'u', 'l', '1', '_', 0x3000, 0x1680, 0x2003}
	n := 1 + r.IntN(10)
	var sb strings.Builder
	for i := 0; i < n; i++ {
		sb.WriteRune(pool[r.IntN(len(pool))])
	}
	return sb.String()
}

func reservedVariant(r *rand.Rand) string {
	stems := []string{"CON", "con", "Con", "PRN", "aux", "NUL", "nul", "COM1", "com9", "LPT1", "lpt9", "COM0", "COM10", "CONX", "CO"}
	s := stems[r.IntN(len(stems))]
	pre := []string{"", "", " ", ".", "/", "a/", "\\", "C:", "..", "\x01", "_", "\t"}[r.IntN(12)]
	post := []string{"", "", ".", ".txt", " ", " .txt", ":", "/", "\\x", ".a.b", "..", "\x00", ". ", ":x", "\x1f"}[r.IntN(15)]
	return pre + s + post
}

func runSanitiser(t *vk.T) {
	total := 1_000_000
	combos := comboCount()
	const chunk = 20_000
	chunks := (total + chunk - 1) / chunk
	var evals, nontrivial, rejected, edge, pathOrChecked atomic.Int64
	vk.Parallel(chunks, func(ci int) {
		r := t.RNGi("sanitiser", ci)
		for k := ci * chunk; k < (ci+1)*chunk && k < total; k++ {
			var s string
			switch {
			case k < combos:
				s = combo(k)
			case k%5 == 0:
				s = unicodeName(r)
			case k%5 == 1:
				s = reservedVariant(r)
			default:
				s = randomName(r)
			}
			evals.Add(1)
			if dangerous(s) {
				nontrivial.Add(1)
			}
			got, err := sanitize.Path(s)
			if err != nil {
				rejected.Add(1)
				if got != "" {
					t.Violate("site=sanitiser/class=error-with-result", fmt.Sprintf("sanitize.Path(%q) returned %q together with error %v", s, got, err), map[string]string{"input": fmt.Sprintf("%q", s)})
				}
			} else if d := sanitiserDefect(got); d != "" {
				t.Violate("site=sanitiser/class="+d, fmt.Sprintf("sanitize.Path(%q) = %q", s, got), map[string]string{"input": fmt.Sprintf("%q", s), "result": fmt.Sprintf("%q", got)})
			} else if strings.Trim(got, " .") != got {
				edge.Add(1)
			}
			if k%16 == 0 {
				pathOrChecked.Add(1)
				fb := "fallback"
				po := sanitize.PathOr(s, fb)
				if (err == nil && po != got) || (err != nil && po != fb) {
					t.Violate("site=sanitiser/class=pathor-differs", fmt.Sprintf("sanitize.PathOr(%q) = %q, Path = (%q, %v)", s, po, got, err), map[string]string{"input": fmt.Sprintf("%q", s)})
				}
			}
		}
	})
	t.EvalBulk(evals.Load(), nontrivial.Load())
	t.Count("sanitiser/strings", evals.Load())
	t.Count("sanitiser/combinations_enumerated", int64(combos))
	t.Count("sanitiser/rejected_with_error", rejected.Load())
	t.Count("sanitiser/results_with_leading_or_trailing_blank_or_dot(not_judged)", edge.Load())
	t.Count("sanitiser/pathor_checked", pathOrChecked.Load())
}
