//go:build verifshadow

// C05 — extracted files never escape the output directory or clobber each other.
//
// Real pdfcpu extraction / split / multi-fill / font-installation calls run inside a sandbox
// (canary parent, canary siblings, out/) on documents, form data and fonts that carry hostile names in
// every place the property's quantifier lists, while the package-os interposer records every
// filesystem call. Oracles: (i) every create / mkdir / rename / link / symlink / remove argument's
// cleaned parent is the requested output directory (or a staging directory pdfcpu made there);
// (ii) the before/after tree differs only by regular files directly inside out/; (iii) attachments:
// files <-> attachments is a bijection by content, or the documented collision error with out/
// untouched and no content write - also for documents whose name-tree keys (attachment IDs) repeat (dupkeys.go);
// (iv) sanitize.Path driven directly on 10^6 strings.
package main

import (
	"fmt"
	"os"
	"path/filepath"
	"time"

	"github.com/pdfcpu/pdfcpu/pkg/api"
	"verif/harness/internal/vk"
)

var sites = []siteDef{
	{name: "attachments", quick: 420, thorough: 2500, enumerate: true, perCase: 24, run: siteAttachments(false)},
	{name: "attachments-portfolio", quick: 60, thorough: 400, run: siteAttachments(true)},
	{name: "attachments-dupkeys", quick: 324, thorough: 1944, run: siteDupKeys}, // 6 layouts x 9 key spellings x 3 name relations = 162 classes, each 2 / 12 times
	{name: "split-bookmarks", quick: 160, thorough: 1000, enumerate: true, perCase: 16, run: siteBookmarks},
	{name: "extract-images", quick: 120, thorough: 600, enumerate: true, perCase: 16, run: siteImages},
	{name: "extract-fonts", quick: 120, thorough: 600, enumerate: true, perCase: 16, run: siteFonts},
	{name: "extract-metadata", quick: 100, thorough: 500, enumerate: true, perCase: 24, run: siteMetadata},
	{name: "multifill-json", quick: 60, thorough: 500, run: siteMultiFill(false)},
	{name: "multifill-csv", quick: 60, thorough: 500, run: siteMultiFill(true)},
	{name: "arg-filename", quick: 320, thorough: 2400, run: siteArgs},
	{name: "font-install", quick: 120, thorough: 900, run: siteFontInstall},
}

type item struct {
	site *siteDef
	c    int
	all  enumMode
}

// items lists the cases of this tier. In the thorough tier the enumerating sites first walk ALL names with at most
// three segments: the names shorter than 200 bytes perCase at a time in every enumerating site, each over-long name
// alone in one of the enumerating sites; then every site runs its seeded cases.
func items(t *vk.T) []item {
	var its []item
	slot, slots := 0, 0
	for i := range sites {
		if sites[i].enumerate {
			slots++
		}
	}
	for i := range sites {
		s := &sites[i]
		if only := os.Getenv("VERIF_C05_ONLY"); only != "" && only != s.name {
			if s.enumerate {
				slot++
			}
			continue // development aid; the registered check never sets it
		}
		n := t.Pick(s.quick, s.thorough)
		base := 0
		if s.enumerate && !t.Quick() {
			docs := enumDocs(s.perCase)
			for c := 0; c < docs; c++ {
				its = append(its, item{s, c, enumShort})
			}
			for j := slot; j < len(longCombos); j += slots {
				its = append(its, item{s, j, enumLong})
			}
			base = 1_000_000 // seeded cases of the thorough tier use their own index range
		}
		if s.enumerate {
			slot++
		}
		for c := 0; c < n; c++ {
			its = append(its, item{s, base + c, seeded})
		}
	}
	return its
}

const formJSON = `{
	"paper": "A6P", "origin": "LowerLeft", "contentBox": false, "debug": false, "guides": false,
	"fonts": { "input": { "name": "Helvetica", "size": 11, "col": "#222222" }, "label": { "name": "Helvetica", "size": 11, "col": "Gray" } },
	"margin": { "width": 10 },
	"pages": { "1": { "content": { "textfield": [
		{ "id": "firstName1", "value": "", "pos": [100, 300], "width": 150, "align": "left",
		  "label": { "value": "First:", "width": 60, "gap": 10, "align": "left", "pos": "left" } },
		{ "id": "lastName1", "value": "", "pos": [100, 270], "width": 150, "align": "left",
		  "label": { "value": "Last:", "width": 60, "gap": 10, "align": "left", "pos": "left" } }
	] } } }
}`

func main() {
	vk.Run("C05", "exploration", func(t *vk.T) {
		api.DisableConfigDir()
		t0 := time.Now() // debug output only
		if !t.IsShard() {
			t.Rule("end-to-end case = (site, case index): a document / form data / font carrying 1..12 hostile names (all names of <= 3 segments over the 20-segment x 3-separator alphabet in thorough, a seeded subset in quick, plus targeted escapes, collision sets and random byte strings) is processed by the real API into sandbox/work/out (named in 6 ways: absolute, trailing slash, relative, ./relative, unclean, through a symlink) under the os interposer; distinct by (site, case, outcome class). Site attachments-dupkeys: EmbeddedFiles name trees with a REPEATED key (= pdfcpu's attachment ID): 6 layouts (same /Names array in the root or the only kid, neighbouring leaves, different subtrees, same array with a key in between, three times) x 9 key spellings (literal/hex/case/octal/white space/UTF-16, PDFDocEncoding vs UTF-16 vs UTF-8 with BOM, two distinct keys as control) x names {identical, differing only in what the sanitiser removes, distinct} x /F,/UF slots x {no selection, selection by names / key / both / one / the same item twice} x plain or portfolio. Sanitiser: 10^6 strings, non-trivial = contains a separator, '..', control byte, NUL, invalid UTF-8 or reserved stem")
			t.Assume("oracle (i) is lexical on the cleaned absolute call argument; escapes through symbolic links planted by the workload are covered by the tree difference only")
			t.Assume("staging directories pdfcpu creates inside the output directory (.pdfcpu-*, .input-*) may be parents of created files as long as they are gone afterwards")
			t.Assume("two non-attachment outputs with the same sanitised name overwrite each other: counted (fewer_files_than_names), not judged — the property's no-clobber clause names attachments only")
			t.Assume("names differing only in case are distinct files on this (case-sensitive) filesystem")
			// the fillable form used by the multi-fill sites (built once, by pdfcpu itself: the form is not the hostile part)
			fx := filepath.Join(t.Scratch(), "fx")
			must(os.MkdirAll(fx, 0o755))
			must(os.WriteFile(filepath.Join(fx, "form.json"), []byte(formJSON), 0o644))
			if err := api.CreateFile("", filepath.Join(fx, "form.json"), filepath.Join(fx, "form.pdf"), conf()); err != nil {
				t.Broken("form fixture: %v", err)
			}
			dbg := func(what string) {
				if os.Getenv("VERIF_C05_DEBUG") != "" {
					fmt.Fprintf(os.Stderr, "PHASE %s at %v\n", what, time.Since(t0))
				}
			}
			dbg("fixture done")
			runSanitiser(t)
			dbg("sanitiser done")
			t.Extra("end_to_end_cases", len(items(t)))
			t.RunShards(16, "VERIF_FX="+fx, "GOMAXPROCS=2") // a shard is one logical thread; 2 leaves room for the GC
			dbg("shards done")
			for _, s := range sites {
				if only := os.Getenv("VERIF_C05_ONLY"); (only != "" && only != s.name) || t.Violations() > 0 {
					continue
				}
				if t.Counter("site/"+s.name+"/files_written") == 0 {
					t.Broken("site %s wrote no file in any case: the workload does not reach the code under test", s.name)
				}
			}
			if os.Getenv("VERIF_C05_ONLY") == "" && t.Violations() == 0 {
				for _, k := range []string{"same_key_same_output/collision-error", "names=distinct/ok", "sel=names/collision-error", "sel=all/collision-error"} {
					if t.Counter("site/attachments-dupkeys/"+k) == 0 {
						t.Broken("attachments-dupkeys: no case of class %s: the repeated-key workload does not reach the collision protocol", k)
					}
				}
			}
			if t.Counter("collision_errors_observed") == 0 && os.Getenv("VERIF_C05_ONLY") == "" && t.Violations() == 0 {
				t.Broken("no attachment collision error observed: the collision workload does not reach the reservation step")
			}
			return
		}
		fx := os.Getenv("VERIF_FX")
		formPDF, err := os.ReadFile(filepath.Join(fx, "form.pdf"))
		if err != nil {
			t.Broken("form fixture: %v", err)
		}
		roboto, err := os.ReadFile(filepath.Join(vk.RepoDir(), "pkg", "testdata", "fonts", "Roboto-Regular.ttf"))
		if err != nil {
			t.Broken("font fixture: %v", err)
		}
		si, sn := t.Shard()
		e := &env{t: t, sb: newSandbox(filepath.Join(t.Scratch(), fmt.Sprintf("sb%d", si))), roboto: roboto, formPDF: formPDF}
		if t.Replay != nil {
			// --replay re-runs the whole tier (cases are cheap and keys are per site/class)
		}
		for idx, it := range items(t) {
			if idx%sn == si {
				it.site.run(e, it.c, it.all)
			}
		}
	})
}
