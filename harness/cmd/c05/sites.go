//go:build verifshadow

package main

import (
	"bytes"
	"encoding/csv"
	"encoding/json"
	"errors"
	"fmt"
	"math/rand/v2"
	"os"
	"path/filepath"
	"strings"
	"time"

	"github.com/pdfcpu/pdfcpu/pkg/api"
	"github.com/pdfcpu/pdfcpu/pkg/font"
	"github.com/pdfcpu/pdfcpu/pkg/pdfcpu/model"
	"verif/harness/internal/fontkit"
	"verif/harness/internal/vk"
)

func conf() *model.Configuration {
	c := model.NewDefaultConfiguration()
	c.Offline = true
	return c
}

// env is what a shard needs besides the sandbox.
type env struct {
	t       *vk.T
	sb      *sandbox
	roboto  []byte
	formPDF []byte // a fillable form (text fields firstName1, lastName1)
}

type siteFn func(e *env, c int, all enumMode)

type siteDef struct {
	name            string
	quick, thorough int  // case counts
	enumerate       bool // thorough: walk ALL <=3-segment combinations (names per case fixed) before drawing
	perCase         int  // names per case when enumerating
	run             siteFn
}

var dbgStart time.Time

func (e *env) begin(site string, c int) (*rand.Rand, *nameSource, string, string, string) {
	if os.Getenv("VERIF_C05_DEBUG") != "" {
		dbgStart = time.Now() // debug timing only, never part of a verdict
	}
	e.sb.reset()
	r := e.t.RNGi(site, c)
	ns := &nameSource{r: r, sb: e.sb}
	form := outForms[r.IntN(len(outForms))]
	arg, chdir := e.sb.outArg(form)
	return r, ns, form, arg, chdir
}

func (e *env) writeIn(name string, b []byte) string {
	p := filepath.Join(e.sb.in, name)
	must(os.WriteFile(p, b, 0o644))
	return p
}

func errClass(err error) string {
	if err == nil {
		return "ok"
	}
	s := err.Error()
	switch {
	case errors.Is(err, api.ErrAttachmentOutputCollision):
		return "collision-error"
	case strings.Contains(s, "file name too long"):
		return "name-too-long"
	case strings.Contains(s, "invalid argument"):
		return "einval"
	}
	return "other-error"
}

// finish records the evidence common to all end-to-end sites.
func (e *env) finish(ci caseInfo, res *result, distinct string) {
	t := e.t
	t.Count("site/"+ci.Site+"/cases", 1)
	t.Count("site/"+ci.Site+"/"+errClass(res.err), 1)
	t.Count("site/"+ci.Site+"/files_written", int64(len(res.files)))
	if res.panicVal != nil {
		t.Count("site/"+ci.Site+"/panics", 1)
	}
	t.Eval(distinct)
	if os.Getenv("VERIF_C05_DEBUG") != "" {
		fmt.Fprintf(os.Stderr, "TIME %s %d\n", ci.Site, time.Since(dbgStart).Microseconds())
		fmt.Fprintf(os.Stderr, "DEBUG %s[%s] case=%d out=%s names=%v err=%v panic=%v files=%q\n", ci.Site, ci.Sub, ci.Case, ci.OutForm, quoteAll(ci.Names), res.err, res.panicVal, sortedKeys(res.files))
	}
	if ci.Case < 2 {
		c := ci
		c.Names = quoteAll(ci.Names)
		c.Detail = fmt.Sprintf("err=%v files=%q", res.err, sortedKeys(res.files))
		if len(c.Detail) > 400 {
			c.Detail = c.Detail[:400] + "…"
		}
		t.Sample(c)
	}
}

// ------------------------------------------------------------------------------------------------
// attachments (oracles i, ii, iii)

func siteAttachments(portfolio bool) siteFn {
	site := "attachments"
	if portfolio {
		site = "attachments-portfolio"
	}
	var run func(e *env, c int, all enumMode, given []string)
	run = func(e *env, c int, all enumMode, given []string) {
		r, ns, form, arg, chdir := e.begin(site, c)
		n := 24 // = siteDef.perCase of the enumeration
		if all == seeded {
			n = 2 + r.IntN(9)
		}
		names := ns.batch(n, all, c)
		if given != nil {
			names = given
		}
		sub := "names"
		if given != nil {
			sub = "names-split"
		}
		if all == seeded && r.IntN(3) == 0 {
			set := ns.collision()
			pos := r.IntN(len(names) + 1)
			names = append(names[:pos:pos], append(append([]string(nil), set...), names[pos:]...)...)
			sub = "collision-set"
		}
		mode := r.IntN(5)
		var atts []attSpec
		benign := fmt.Sprintf("plain-%d.txt", c)
		var benignData []byte
		bpos := r.IntN(len(names) + 1)
		for i := 0; i <= len(names); i++ {
			data := []byte(fmt.Sprintf("attachment %d of case %d: %x", i, c, r.Uint64()))
			data = append(data, bytes.Repeat([]byte{byte(i)}, r.IntN(200))...)
			a := attSpec{Key: fmt.Sprintf("k%03d", i), Data: data, FEnc: randEnc(r), UFEnc: randEnc(r), HexKey: r.IntN(4) == 0}
			if i == len(names) {
				// the benign attachment: its file name is known without any sanitiser
				s := benign
				a.F, benignData = &s, data
				atts = append(atts, a)
				continue
			}
			nm := names[i]
			other := fmt.Sprintf("f%03d.bin", i)
			switch mode {
			case 0, 1: // /F only
				a.F = &nm
			case 2: // /UF hostile, /F harmless
				a.UF, a.F = &nm, &other
			case 3: // /UF only
				a.UF = &nm
			default: // both hostile, different
				nm2 := names[(i+1)%len(names)]
				a.UF, a.F = &nm, &nm2
			}
			if r.IntN(4) == 0 && nm != "" {
				a.Key = fmt.Sprintf("%03d", i) + nm // hostile name tree key as well
			}
			atts = append(atts, a)
		}
		// move the benign one to a random position
		atts[bpos], atts[len(atts)-1] = atts[len(atts)-1], atts[bpos]
		in := e.writeIn("att.pdf", attachmentsDoc(r, atts, portfolio))
		var ids []string
		expected := atts
		if all == seeded && r.IntN(5) == 0 {
			// explicit selection by (unique) name tree key
			expected = nil
			for _, a := range atts {
				if strings.HasPrefix(a.Key, "k") && r.IntN(2) == 0 {
					ids = append(ids, a.Key)
					expected = append(expected, a)
				}
			}
			if len(ids) == 0 {
				ids, expected = nil, atts
			} else {
				sub += "+ids"
			}
		}
		ci := caseInfo{Site: site, Sub: fmt.Sprintf("%s/mode%d", sub, mode), Case: c, OutForm: form, Names: names}
		res := e.sb.monitored(e.t, ci, arg, chdir, func() error {
			return api.ExtractAttachmentsFile(in, arg, ids, conf())
		})
		e.attachmentOracle(site, ci, res, expected, 0, benign, benignData)
		if strings.HasPrefix(sub, "collision-set") {
			e.t.Count("collision_sets_planted", 1)
		}
		e.finish(ci, res, fmt.Sprintf("%s/%d.%d/%d/%s", site, all, c, len(names), errClass(res.err)))
		// enumeration: one colliding pair or one over-long name makes the whole call fail before anything is written;
		// halve the name set until the remaining names are processed (or a single name is refused)
		if all != seeded && res.err != nil && len(names) > 1 {
			run(e, c, all, names[:len(names)/2])
			run(e, c, all, names[len(names)/2:])
		}
	}
	return func(e *env, c int, all enumMode) { run(e, c, all, nil) }
}

// attachmentOracle is oracle (iii): after a successful call the files in out/ and the expected attachments are in
// bijection by content (a lost attachment = silent clobber); after the documented collision error out/ is unchanged and
// no content was written. expected lists every attachment the call has to extract (distinct contents). benign names
// the attachment whose file name needs no sanitiser ("" = none). maxFiles > len(expected): a selection named some
// attachment more than once, so up to maxFiles files (copies under fall-back names) are in order.
func (e *env) attachmentOracle(site string, ci caseInfo, res *result, expected []attSpec, maxFiles int, benign string, benignData []byte) {
	if maxFiles < len(expected) {
		maxFiles = len(expected)
	}
	viol := func(class, what string) {
		cc := ci
		cc.Names = quoteAll(ci.Names)
		cc.Detail = what
		e.t.Violate("site="+site+"/class="+class, fmt.Sprintf("%s[%s]: %s", site, ci.Sub, what), cc)
	}
	// ---- oracle (iii)
	switch {
	case res.panicVal != nil:
	case res.err == nil:
		e.t.Count("attachments_expected", int64(len(expected)))
		byContent := map[string]int{}
		for i, a := range expected {
			byContent[string(a.Data)] = i
		}
		seen := map[int]string{}
		foreign := 0
		for name, data := range res.files {
			i, ok := byContent[string(data)]
			if !ok {
				foreign++
				viol("content-mismatch", fmt.Sprintf("file %q (%d bytes) holds the bytes of none of the %d extracted attachments", name, len(data), len(expected)))
				continue
			}
			seen[i] = name
		}
		if len(seen) < len(expected) && foreign == 0 {
			var lost []string
			for i, a := range expected {
				if _, ok := seen[i]; !ok {
					lost = append(lost, fmt.Sprintf("%q", a.planted()))
				}
			}
			viol("silent-clobber", fmt.Sprintf("success reported, %d attachments but %d files %q: the bytes of %s are nowhere (overwritten by another attachment)",
				len(expected), len(res.files), sortedKeys(res.files), strings.Join(lost, ", ")))
		} else if len(res.files) > maxFiles {
			viol("extra-files", fmt.Sprintf("%d attachments but %d files %q", len(expected), len(res.files), sortedKeys(res.files)))
		}
		// the benign attachment, when selected, must sit under exactly its own name
		for _, a := range expected {
			if benign != "" && a.F != nil && *a.F == benign && a.UF == nil {
				if got, ok := res.files[benign]; !ok || !bytes.Equal(got, benignData) {
					viol("wrong-file-for-name", fmt.Sprintf("attachment %q is not stored under its own name (present=%v): its name holds other bytes", benign, ok))
				}
			}
		}
	case errors.Is(res.err, api.ErrAttachmentOutputCollision):
		e.t.Count("collision_errors_observed", 1)
		if len(res.files) > 0 {
			viol("collision-after-write", fmt.Sprintf("collision error %q but the output directory holds %q", res.err, sortedKeys(res.files)))
		}
		if res.contentWrites > 0 {
			viol("collision-after-write", fmt.Sprintf("collision error %q after %d content writes into the output directory", res.err, res.contentWrites))
		}
	}
}

// ------------------------------------------------------------------------------------------------
// generic directory-output sites (oracles i, ii)

func simpleSite(site string, perCase int, build func(e *env, r *rand.Rand, names []string) []byte,
	call func(in, out string) error) siteFn {
	var run func(e *env, c int, all enumMode, given []string)
	run = func(e *env, c int, all enumMode, given []string) {
		r, ns, form, arg, chdir := e.begin(site, c)
		n := perCase
		if all == seeded {
			n = 2 + r.IntN(8)
		}
		names := ns.batch(n, all, c)
		sub := "names"
		if all == seeded && r.IntN(4) == 0 {
			names = append(names, ns.collision()...)
			sub = "collision-set"
		}
		if given != nil {
			names, sub = given, "names-split"
		}
		in := e.writeIn("doc.pdf", build(e, r, names))
		ci := caseInfo{Site: site, Sub: sub, Case: c, OutForm: form, Names: names}
		res := e.sb.monitored(e.t, ci, arg, chdir, func() error { return call(in, arg) })
		if res.err == nil && len(res.files) < len(names) {
			e.t.Count("site/"+site+"/fewer_files_than_names", 1) // same sanitised name twice: not covered by the property for non-attachments
		}
		e.finish(ci, res, fmt.Sprintf("%s/%d.%d/%d/%s", site, all, c, len(names), errClass(res.err)))
		if all != seeded && res.err != nil && len(names) > 1 {
			run(e, c, all, names[:len(names)/2])
			run(e, c, all, names[len(names)/2:])
		}
	}
	return func(e *env, c int, all enumMode) { run(e, c, all, nil) }
}

func encsFor(r *rand.Rand, n int) []textEnc {
	out := make([]textEnc, n)
	for i := range out {
		out[i] = randEnc(r)
	}
	return out
}

var siteBookmarks = simpleSite("split-bookmarks", 16,
	func(e *env, r *rand.Rand, names []string) []byte { return bookmarksDoc(r, names, encsFor(r, len(names))) },
	func(in, out string) error { return api.SplitFile(in, out, 0, conf()) })

var siteImages = simpleSite("extract-images", 16,
	func(e *env, r *rand.Rand, names []string) []byte { return imagesDoc(r, names, 1+r.IntN(3)) },
	func(in, out string) error { return api.ExtractImagesFile(in, out, nil, conf()) })

var siteFonts = simpleSite("extract-fonts", 16,
	func(e *env, r *rand.Rand, names []string) []byte {
		return fontsDoc(r, names, []byte("not really a font program, copied out verbatim: "), r.IntN(2) == 0, r.IntN(3) == 0)
	},
	func(in, out string) error { return api.ExtractFontsFile(in, out, nil, conf()) })

var siteMetadata = simpleSite("extract-metadata", 24,
	func(e *env, r *rand.Rand, names []string) []byte { return metadataDoc(r, names) },
	func(in, out string) error { return api.ExtractMetadataFile(in, out, conf()) })

// ------------------------------------------------------------------------------------------------
// form multi-fill: JSON "filename" and CSV "@filename"

func multiFillData(names []string, asCSV bool) []byte {
	if asCSV {
		var b bytes.Buffer
		w := csv.NewWriter(&b)
		_ = w.Write([]string{"firstName1", "lastName1", "@filename"})
		for i, n := range names {
			_ = w.Write([]string{fmt.Sprintf("Jane%d", i), "Doe", n})
		}
		w.Flush()
		return b.Bytes()
	}
	type field struct {
		Name  string `json:"name"`
		Value string `json:"value"`
	}
	type form struct {
		FileName  string  `json:"filename,omitempty"`
		TextField []field `json:"textfield"`
	}
	doc := struct {
		Header map[string]string `json:"header"`
		Forms  []form            `json:"forms"`
	}{Header: map[string]string{"source": "form.pdf", "version": "pdfcpu"}}
	for i, n := range names {
		doc.Forms = append(doc.Forms, form{FileName: n, TextField: []field{{"firstName1", fmt.Sprintf("Jane%d", i)}, {"lastName1", "Doe"}}})
	}
	b, err := json.Marshal(doc)
	must(err)
	return b
}

func siteMultiFill(asCSV bool) siteFn {
	site := "multifill-json"
	ext := "data.json"
	if asCSV {
		site, ext = "multifill-csv", "data.csv"
	}
	return func(e *env, c int, all enumMode) {
		r, ns, form, arg, chdir := e.begin(site, c)
		n := 4
		if all == seeded {
			n = 1 + r.IntN(4)
		}
		names := ns.batch(n, all, c)
		sub := "names"
		if all == seeded && r.IntN(4) == 0 {
			names = append(names, ns.collision()...)
			sub = "collision-set"
		}
		merge := all == seeded && r.IntN(4) == 0
		if merge {
			sub += "+merge"
		}
		pdf := e.writeIn("form.pdf", e.formPDF)
		data := e.writeIn(ext, multiFillData(names, asCSV))
		ci := caseInfo{Site: site, Sub: sub, Case: c, OutForm: form, Names: names}
		res := e.sb.monitored(e.t, ci, arg, chdir, func() error {
			return api.MultiFillFormFile(pdf, data, arg, "filled.pdf", merge, conf())
		})
		e.finish(ci, res, fmt.Sprintf("%s/%d/%s", site, c, errClass(res.err)))
	}
}

// ------------------------------------------------------------------------------------------------
// fileName / base-name arguments of the extract and split APIs, and hostile input file names

var argOps = []string{"Split", "SplitByPageNr", "WritePageToDisk", "WriteContentToDisk", "WriteImageToDisk", "WriteFontToDisk",
	"WriteMetadataToDisk", "MultiFillFormFile/outFilePDF", "MultiFillForm/fileName", "SplitFile/inFile", "ExtractPagesFile/inFile", "ExtractContentFile/inFile",
	"ExtractImagesFile/inFile", "ExtractFontsFile/inFile", "ExtractMetadataFile/inFile", "SplitByPageNrFile/inFile"}

func usableAsBaseName(s string) bool {
	return s != "" && s != "." && s != ".." && len(s) <= 240 && !strings.ContainsAny(s, "/\x00")
}

func siteArgs(e *env, c int, all enumMode) {
	const site = "arg-filename"
	r, ns, form, arg, chdir := e.begin(site, c)
	op := argOps[c%len(argOps)]
	name := ns.batch(1, all, c/len(argOps))[0]
	if strings.HasSuffix(op, "/inFile") && !usableAsBaseName(name) {
		// a file cannot carry this name: use the closest one that can
		name = strings.NewReplacer("/", "\\", "\x00", "\x01").Replace(name)
		if len(name) > 240 {
			name = name[:240]
		}
		if !usableAsBaseName(name) {
			name += "x"
		}
	}
	var docBytes []byte
	switch {
	case strings.Contains(op, "Image"):
		docBytes = imagesDoc(r, []string{"Im0", "Im1"}, 1)
	case strings.Contains(op, "Font"):
		docBytes = fontsDoc(r, []string{"FontA", "FontB"}, []byte("font program "), false, false)
	case strings.Contains(op, "Metadata"):
		docBytes = metadataDoc(r, []string{"Catalogish", "Other"})
	default:
		docBytes = plainDoc(3)
	}
	inName := "doc.pdf"
	if strings.HasSuffix(op, "/inFile") {
		inName = name + ".pdf"
		if r.IntN(4) == 0 {
			inName = name
		}
	}
	in := e.writeIn(inName, docBytes)
	open := func(f func(rs *os.File) error) error {
		rs, err := os.Open(in)
		if err != nil {
			return err
		}
		defer rs.Close()
		return f(rs)
	}
	var call func() error
	switch op {
	case "Split":
		call = func() error { return open(func(rs *os.File) error { return api.Split(rs, arg, name, 1+r.IntN(2), conf()) }) }
	case "SplitByPageNr":
		call = func() error {
			return open(func(rs *os.File) error { return api.SplitByPageNr(rs, arg, name, []int{2}, conf()) })
		}
	case "WritePageToDisk":
		call = func() error {
			return open(func(rs *os.File) error { return api.ExtractPages(rs, nil, api.WritePageToDisk(arg, name), conf()) })
		}
	case "WriteContentToDisk":
		call = func() error {
			return open(func(rs *os.File) error { return api.ExtractContent(rs, nil, api.WriteContentToDisk(arg, name), conf()) })
		}
	case "WriteImageToDisk":
		call = func() error {
			return open(func(rs *os.File) error { return api.ExtractImages(rs, nil, api.WriteImageToDisk(arg, name), conf()) })
		}
	case "WriteFontToDisk":
		call = func() error {
			return open(func(rs *os.File) error { return api.ExtractFonts(rs, nil, api.WriteFontToDisk(arg, name), conf()) })
		}
	case "WriteMetadataToDisk":
		call = func() error {
			return open(func(rs *os.File) error { return api.ExtractMetadata(rs, api.WriteMetadataToDisk(arg, name), conf()) })
		}
	case "MultiFillFormFile/outFilePDF", "MultiFillForm/fileName":
		pdf := e.writeIn("form.pdf", e.formPDF)
		// records without a file name of their own: the outputs are named after the argument
		asCSV := r.IntN(2) == 0
		dn := "data.json"
		if asCSV {
			dn = "data.csv"
		}
		data := e.writeIn(dn, multiFillData([]string{"", ""}, asCSV))
		merge := r.IntN(2) == 0
		call = func() error { return api.MultiFillFormFile(pdf, data, arg, name, merge, conf()) }
	case "SplitFile/inFile":
		call = func() error { return api.SplitFile(in, arg, 1, conf()) }
	case "SplitByPageNrFile/inFile":
		call = func() error { return api.SplitByPageNrFile(in, arg, []int{2}, conf()) }
	case "ExtractPagesFile/inFile":
		call = func() error { return api.ExtractPagesFile(in, arg, nil, conf()) }
	case "ExtractContentFile/inFile":
		call = func() error { return api.ExtractContentFile(in, arg, nil, conf()) }
	case "ExtractImagesFile/inFile":
		call = func() error { return api.ExtractImagesFile(in, arg, nil, conf()) }
	case "ExtractFontsFile/inFile":
		call = func() error { return api.ExtractFontsFile(in, arg, nil, conf()) }
	case "ExtractMetadataFile/inFile":
		call = func() error { return api.ExtractMetadataFile(in, arg, conf()) }
	}
	ci := caseInfo{Site: site, Sub: op, Case: c, OutForm: form, Names: []string{name}}
	res := e.sb.monitored(e.t, ci, arg, chdir, call)
	e.t.Count("site/"+site+"/op/"+op, 1)
	if res.err == nil && len(res.files) > 0 {
		e.t.Count("site/"+site+"/op_wrote/"+op, 1)
	}
	e.finish(ci, res, fmt.Sprintf("%s/%s/%d/%s", site, op, c, errClass(res.err)))
}

// ------------------------------------------------------------------------------------------------
// font installation: PostScript names inside patched copies of Roboto-Regular.ttf

var fontOps = []string{"api.InstallFonts", "font.InstallTrueTypeFont", "api.InstallFonts/ttc", "font.InstallTrueTypeCollection", "font.InstallFontFromBytes", "api.InstallFonts/batch"}

func siteFontInstall(e *env, c int, all enumMode) {
	const site = "font-install"
	r, ns, form, arg, chdir := e.begin(site, c)
	op := fontOps[c%len(fontOps)]
	n := 1
	if strings.Contains(op, "ttc") || strings.Contains(op, "Collection") || strings.Contains(op, "batch") {
		n = 2
	}
	names := ns.batch(n, all, c/len(fontOps))
	if n == 2 && all == seeded && r.IntN(3) == 0 {
		set := ns.collision()
		names = []string{set[0], set[1]}
	}
	var fonts [][]byte
	for _, nm := range names {
		if len(nm) > 4000 {
			nm = nm[:4000]
		}
		b, err := patchPostScriptName(e.roboto, nm, r.IntN(3) == 0)
		must(err)
		fonts = append(fonts, b)
	}
	// api.InstallFonts installs into the global font.UserFontDir
	oldDir := font.UserFontDir
	defer func() { font.UserFontDir = oldDir }()
	var call func() error
	switch op {
	case "api.InstallFonts":
		f := e.writeIn("hostile.ttf", fonts[0])
		font.UserFontDir = arg
		call = func() error { return api.InstallFonts([]string{f}) }
	case "api.InstallFonts/batch":
		f1, f2 := e.writeIn("h1.ttf", fonts[0]), e.writeIn("h2.ttf", fonts[1])
		font.UserFontDir = arg
		call = func() error { return api.InstallFonts([]string{f1, f2}) }
	case "font.InstallTrueTypeFont":
		f := e.writeIn("hostile.ttf", fonts[0])
		call = func() error { _, err := font.InstallTrueTypeFont(arg, f); return err }
	case "api.InstallFonts/ttc":
		ttc, err := fontkit.TTC(fonts...)
		must(err)
		f := e.writeIn("hostile.ttc", ttc)
		font.UserFontDir = arg
		call = func() error { return api.InstallFonts([]string{f}) }
	case "font.InstallTrueTypeCollection":
		ttc, err := fontkit.TTC(fonts...)
		must(err)
		f := e.writeIn("hostile.ttc", ttc)
		call = func() error { _, err := font.InstallTrueTypeCollection(arg, f); return err }
	case "font.InstallFontFromBytes":
		call = func() error { return font.InstallFontFromBytes(arg, "hostile.ttf", fonts[0]) }
	}
	ci := caseInfo{Site: site, Sub: op, Case: c, OutForm: form, Names: names}
	res := e.sb.monitored(e.t, ci, arg, chdir, call)
	for name := range res.files {
		if !strings.HasSuffix(name, ".gob") {
			e.t.Count("site/"+site+"/non_gob_files", 1)
		}
	}
	e.t.Count("site/"+site+"/op/"+op, 1)
	e.finish(ci, res, fmt.Sprintf("%s/%s/%d/%s", site, op, c, errClass(res.err)))
}
