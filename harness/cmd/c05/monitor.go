//go:build verifshadow

package main

import (
	"fmt"
	"os"
	"path/filepath"
	"sort"
	"strings"

	"verif/harness/internal/fsx"
	"verif/harness/internal/osmon"
	"verif/harness/internal/vk"
)

// sandbox is the monitored tree:
//
//	root/canary-parent.txt
//	root/work/sibling.txt, out.txt, out2/keep.txt, outlink -> out, in/<inputs>
//	root/work/out/            the requested output directory
type sandbox struct {
	root, work, in, out string
	sibling             string
	parentCanary        string
	pristine            fsx.Tree // canaries only (without in/ and out/)
}

func newSandbox(root string) *sandbox {
	sb := &sandbox{root: root, work: filepath.Join(root, "work")}
	sb.in, sb.out = filepath.Join(sb.work, "in"), filepath.Join(sb.work, "out")
	sb.sibling = filepath.Join(sb.work, "sibling.txt")
	sb.parentCanary = filepath.Join(root, "canary-parent.txt")
	os.RemoveAll(root)
	must(os.MkdirAll(sb.in, 0o755))
	must(os.MkdirAll(sb.out, 0o755))
	must(os.MkdirAll(filepath.Join(sb.work, "out2"), 0o755))
	must(os.WriteFile(sb.parentCanary, []byte("canary parent\n"), 0o644))
	must(os.WriteFile(sb.sibling, []byte("canary sibling\n"), 0o644))
	must(os.WriteFile(filepath.Join(sb.work, "out.txt"), []byte("canary with the output directory's name as prefix\n"), 0o644))
	must(os.WriteFile(filepath.Join(sb.work, "out2", "keep.txt"), []byte("canary in a sibling directory\n"), 0o644))
	must(os.WriteFile(filepath.Join(sb.work, "a"), []byte("canary named like a hostile segment\n"), 0o644))
	must(os.WriteFile(filepath.Join(sb.work, "x.pdf"), []byte("canary named like an output\n"), 0o644))
	must(os.Symlink("out", filepath.Join(sb.work, "outlink")))
	return sb
}

func must(err error) {
	if err != nil {
		panic(err)
	}
}

// resetOut empties the output directory and the input directory.
func (sb *sandbox) reset() {
	for _, d := range []string{sb.out, sb.in} {
		_ = filepath.Walk(d, func(p string, info os.FileInfo, err error) error {
			if err == nil && info.IsDir() {
				_ = os.Chmod(p, 0o755)
			}
			return nil
		})
		must(os.RemoveAll(d))
		must(os.MkdirAll(d, 0o755))
	}
}

// outForm: the way the output directory is named in the call. The monitor compares against the cleaned absolute form.
var outForms = []string{"abs", "abs", "abs", "abs-slash", "rel", "dot-rel", "unclean", "symlink"}

func (sb *sandbox) outArg(form string) (arg string, chdir string) {
	switch form {
	case "abs-slash":
		return sb.out + "/", ""
	case "rel":
		return "out", sb.work
	case "dot-rel":
		return "./out", sb.work
	case "unclean":
		return sb.work + "/in/../out/.", ""
	case "symlink":
		return filepath.Join(sb.work, "outlink"), ""
	}
	return sb.out, ""
}

// result is what one monitored call produced.
type result struct {
	err      error
	panicVal any
	files    map[string][]byte // regular files directly inside out/ after the call
	events   []*osmon.Event
	// contentWrites: write calls with data to files under out/ (for "nothing was written before the collision error")
	contentWrites int
	viol          int
}

type caseInfo struct {
	Site    string   `json:"site"`
	Sub     string   `json:"sub,omitempty"`
	Case    int      `json:"case"`
	OutForm string   `json:"out_form"`
	Names   []string `json:"names,omitempty"`
	Detail  string   `json:"detail,omitempty"`
}

func quoteAll(ss []string) []string {
	out := make([]string, len(ss))
	for i, s := range ss {
		if len(s) > 80 {
			s = s[:40] + "…" + s[len(s)-20:]
		}
		out[i] = fmt.Sprintf("%q", s)
	}
	return out
}

// isStagingDirName: directory names pdfcpu itself chooses for staging / backup inside an output directory.
func isStagingDirName(base string) bool {
	return strings.HasPrefix(base, ".pdfcpu-") || strings.HasPrefix(base, ".input-")
}

// monitored runs f with the filesystem interposer tracing the whole sandbox and applies oracle (i) (call arguments)
// and oracle (ii) (tree difference). outArg is the output directory as passed to pdfcpu.
func (sb *sandbox) monitored(t *vk.T, ci caseInfo, outArg, chdir string, f func() error) *result {
	res := &result{files: map[string][]byte{}}
	before, err := fsx.Snapshot(sb.root, false)
	if err != nil {
		t.Broken("snapshot: %v", err)
	}
	var oldwd string
	if chdir != "" {
		oldwd, _ = os.Getwd()
		must(os.Chdir(chdir))
	}
	m := &osmon.Mon{Scope: sb.root, Record: true}
	m.Run(func() {
		defer func() {
			if r := recover(); r != nil {
				res.panicVal = r
			}
		}()
		res.err = f()
	})
	allowedRoot := outArg
	if !filepath.IsAbs(allowedRoot) {
		allowedRoot = filepath.Join(chdir, allowedRoot)
	}
	allowedRoot = filepath.Clean(allowedRoot)
	if chdir != "" {
		must(os.Chdir(oldwd))
	}
	res.events = m.Events()
	t.Count("fs_calls_traced", int64(len(res.events)))

	viol := func(class, what string) {
		res.viol++
		c := ci
		c.Names = quoteAll(ci.Names)
		c.Detail = what
		t.Violate("site="+ci.Site+"/class="+class, fmt.Sprintf("%s[%s] out=%s: %s", ci.Site, ci.Sub, ci.OutForm, what), c)
	}

	// ---- oracle (i): arguments of every mutating call
	staging := map[string]bool{}
	allowedParent := func(p string) bool {
		d := filepath.Dir(p)
		return d == allowedRoot || staging[d]
	}
	rel := func(p string) string {
		if r, err := filepath.Rel(sb.root, p); err == nil {
			return fmt.Sprintf("%q", r)
		}
		return fmt.Sprintf("%q", p)
	}
	var mut, creates int64
	for _, e := range res.events {
		check := func(p, class string) {
			if !allowedParent(p) {
				viol(class, fmt.Sprintf("call %d %s(%s) flag=%#x: cleaned parent is not the requested output directory", e.Seq, e.Op, rel(p), e.Flag))
			}
		}
		switch e.Op {
		case "openfile":
			switch {
			case e.Flag&os.O_CREATE != 0:
				creates++
				mut++
				check(e.Path, "escape-create")
			case e.Flag&(os.O_WRONLY|os.O_RDWR|os.O_TRUNC|os.O_APPEND) != 0:
				mut++
				check(e.Path, "escape-openwrite")
			}
		case "mkdir":
			mut++
			if e.Path == allowedRoot || strings.HasPrefix(allowedRoot, e.Path+"/") {
				break // (re-)creating the output directory itself
			}
			if !allowedParent(e.Path) {
				check(e.Path, "escape-mkdir")
			} else if isStagingDirName(filepath.Base(e.Path)) {
				staging[e.Path] = true
			} else {
				viol("subdir-created", fmt.Sprintf("call %d mkdir(%s): a directory that is not one of pdfcpu's staging directories is created inside the output directory", e.Seq, rel(e.Path)))
				staging[e.Path] = true // report once, not for every file inside
			}
		case "rename":
			mut++
			check(e.Path2, "escape-rename")
			check(e.Path, "escape-rename-source")
		case "symlink":
			mut++
			check(e.Path2, "escape-symlink")
		case "link":
			mut++
			check(e.Path2, "escape-link")
		case "remove", "removeall", "chmod", "truncate":
			mut++
			if e.Path == allowedRoot {
				viol("escape-remove", fmt.Sprintf("call %d %s of the output directory itself", e.Seq, e.Op))
			} else {
				check(e.Path, "escape-remove")
			}
		case "write", "writeat":
			if e.Len > 0 && (strings.HasPrefix(e.Path, allowedRoot+"/") || strings.HasPrefix(e.Path, sb.out+"/")) {
				res.contentWrites++
			}
		}
	}
	t.Count("mutating_calls_checked", mut)
	t.Count("create_calls_checked", creates)

	// ---- oracle (ii): whole-tree difference
	after, err := fsx.Snapshot(sb.root, true)
	if err != nil {
		t.Broken("snapshot: %v", err)
	}
	for _, ch := range fsx.Diff(before, after) {
		p := ch.Path
		switch {
		case strings.HasPrefix(p, "work/out/"):
			in := strings.TrimPrefix(p, "work/out/")
			e := ch.New
			switch {
			case ch.Kind == "removed":
				// nothing is in out/ before the call
			case strings.Contains(in, "/"):
				// reported through its directory
			case e.Mode.IsDir():
				viol("subdir-left", "directory "+fmt.Sprintf("%q", in)+" left inside the output directory")
			case !e.Mode.IsRegular():
				viol("nonregular-left", fmt.Sprintf("%q (%v) left inside the output directory", in, e.Mode))
			}
		case strings.HasPrefix(p, "work/"):
			viol("sibling-changed", "outside the output directory: "+ch.String())
		default:
			viol("parent-changed", "outside the output directory: "+ch.String())
		}
	}
	for p, e := range after {
		if strings.HasPrefix(p, "work/out/") && e.Mode.IsRegular() && !strings.Contains(strings.TrimPrefix(p, "work/out/"), "/") {
			res.files[strings.TrimPrefix(p, "work/out/")] = e.Data
		}
	}
	t.Count("files_written_observed", int64(len(res.files)))
	if res.panicVal != nil {
		t.Count("pdfcpu_panics", 1)
	}
	return res
}

func sortedKeys(m map[string][]byte) []string {
	ks := make([]string, 0, len(m))
	for k := range m {
		ks = append(ks, k)
	}
	sort.Strings(ks)
	return ks
}
