//go:build verifshadow

package main

import (
	"bytes"
	"fmt"
	"io"
	"sort"
	"strings"

	"github.com/pdfcpu/pdfcpu/pkg/api"
	"github.com/pdfcpu/pdfcpu/pkg/pdfcpu/sanitize"
	. "verif/harness/internal/pdfgen"
)

// Site attachments-dupkeys: EmbeddedFiles name trees whose KEYS repeat. The name-tree key is what pdfcpu calls the
// attachment's ID; the file format says keys are unique, a crafted document need not care. The other attachment
// sites give every attachment its own key, so any step of the collision protocol that reasons by ID was only ever
// shown distinct IDs. Here two (or three) DIFFERENT file specifications sit under one key
//
//	layout    same /Names array (root itself, or the only kid), two neighbouring leaves, leaves in different
//	          subtrees, same array with another key in between (out of order), three times (two leaves)
//	spelling  literal/literal, literal/hex, hex upper/lower case, literal/octal escapes, hex with white space,
//	          UTF-16/UTF-16 (all: same key bytes), PDFDocEncoding/UTF-16 and UTF-8-with-BOM/PDFDocEncoding (same text,
//	          different bytes: pdfcpu decodes keys as text strings, so these are one ID as well), and two different
//	          keys (control)
//	names     identical, differing only in what the sanitiser removes (fixed pairs + a drawn hostile name and its own
//	          sanitised form), distinct (control: both files must appear)
//	slots     /F, /UF, both, one each
//	call      ExtractAttachmentsFile without selection, or with a selection by the file names (both orders), by
//	          the key, key + name, one name, the same item twice, with an unrelated attachment
//
// among 0..5 ordinary attachments, plain or as a portfolio. Oracle (iii) as in the other attachment sites. Without a
// selection every attachment of the document is expected. With a selection the attachments pdfcpu itself collects for
// that selection (ExtractAttachmentsRaw, the step before anything is written) are the expected ones - which entry a
// repeated key or name selects is nobody's promise, but what was collected must reach the directory or be refused.

type dupLayout int

const (
	dupFlat      dupLayout = iota // root /Names, neighbours
	dupOneKid                     // root /Kids [leaf], neighbours
	dupTwoLeaves                  // last entry of one leaf, first of the next
	dupDeep                       // leaves of 1..2 entries under intermediate nodes (fan 2), split between the two
	dupApart                      // same array, another key in between (keys out of order)
	dupTriple                     // three entries: two in one leaf, the third opens the next leaf
	nDupLayouts
)

var dupLayoutNames = []string{"flat", "one-kid", "two-leaves", "deep", "apart", "triple"}

type keySpelling int

const (
	spLitLit keySpelling = iota
	spLitHex
	spHexCase
	spLitOctal
	spHexSpaced
	spUTF16Both
	spPDFDocVsUTF16 // different key bytes, same text
	spUTF8VsPDFDoc  // UTF-8 with byte order mark (PDF 2.0) / plain
	spDistinct      // control: two different keys
	nSpellings
)

var spellingNames = []string{"lit-lit", "lit-hex", "hex-case", "lit-octal", "hex-spaced", "utf16-utf16", "pdfdoc-utf16", "utf8bom-pdfdoc", "distinct-keys"}

func octalLiteral(b []byte) Raw {
	var sb strings.Builder
	sb.WriteByte('(')
	for i, c := range b {
		if i%2 == 0 {
			fmt.Fprintf(&sb, "\\%03o", c)
		} else if c == '(' || c == ')' || c == '\\' || c < 0x20 || c > 0x7e {
			fmt.Fprintf(&sb, "\\%03o", c)
		} else {
			sb.WriteByte(c)
		}
	}
	sb.WriteByte(')')
	return Raw(sb.String())
}

func hexRaw(b []byte, lower, spaced bool) Raw {
	var sb strings.Builder
	sb.WriteByte('<')
	for i, c := range b {
		if spaced && i > 0 {
			sb.WriteString([]string{" ", "\n", "  "}[i%3])
		}
		if lower {
			fmt.Fprintf(&sb, "%02x", c)
		} else {
			fmt.Fprintf(&sb, "%02X", c)
		}
	}
	sb.WriteByte('>')
	return Raw(sb.String())
}

// spell returns the key objects and decoded key bytes of the first and second entry for text key k.
func spell(sp keySpelling, k string) (o1, o2 Object, b1, b2 []byte) {
	b := []byte(k)
	u := []byte(EncodeUTF16(k))
	switch sp {
	case spLitHex:
		return String(b), HexString(b), b, b
	case spHexCase:
		return hexRaw(b, false, false), hexRaw(b, true, false), b, b
	case spLitOctal:
		return String(b), octalLiteral(b), b, b
	case spHexSpaced:
		return hexRaw(b, false, true), String(b), b, b
	case spUTF16Both:
		return String(u), HexString(u), u, u
	case spPDFDocVsUTF16:
		return String(b), String(u), b, u
	case spUTF8VsPDFDoc:
		u8 := append([]byte("\xef\xbb\xbf"), b...)
		return HexString(u8), String(b), u8, b
	case spDistinct:
		b2 := append(append([]byte(nil), b...), "-2"...)
		return String(b), String(b2), b, b2
	}
	return String(b), String(b), b, b
}

var dupKeyTexts = []string{"dup", "report", "k 1", "Attachment(1)", "m\\n", "0"}

// sanitiserPairs: different names that (are meant to) sanitise to one output name; checked at run time, counted.
var sanitiserPairs = [][2]string{
	{"docs/report.txt", "docs_report.txt"}, {"a\\b.txt", "a_b.txt"}, {"a:b", "a_b"}, {"x.", "x"}, {" x", "x"}, {"x ", "x"},
	{"../a", "a"}, {"/a", "a"}, {"a\x00", "a"}, {"a/./b", "a/b"}, {"a//b", "a/b"}, {"./a.txt", "a.txt"}, {"a\x01b", "a_b"},
	{"dir/../../up.txt", "dir/up.txt"}, {"C:\\temp\\a.txt", "C:/temp/a.txt"}, {"a\tb", "a\nb"}, {"..\\..\\a", "a"},
}

type dupCase struct {
	layout   dupLayout
	spelling keySpelling
	relation int // 0 identical, 1 sanitiser-equal, 2 distinct
}

var relationNames = []string{"same-name", "sanitiser-equal", "distinct"}

func dupCaseOf(c int) dupCase {
	return dupCase{dupLayout(c % int(nDupLayouts)), keySpelling(c / int(nDupLayouts) % int(nSpellings)), c / int(nDupLayouts) / int(nSpellings) % 3}
}

func siteDupKeys(e *env, c int, _ enumMode) {
	const site = "attachments-dupkeys"
	r, ns, form, arg, chdir := e.begin(site, c)
	dc := dupCaseOf(c)
	portfolio := r.IntN(4) == 0

	// ---- names of the colliding pair
	var n1, n2 string
	switch dc.relation {
	case 0:
		n1 = []string{"same.txt", "report.pdf", "a b.txt", "données.txt", "x"}[r.IntN(5)]
		n2 = n1
	case 1:
		if r.IntN(2) == 0 {
			p := sanitiserPairs[r.IntN(len(sanitiserPairs))]
			n1, n2 = p[0], p[1]
		} else {
			// a drawn hostile name and what the sanitiser makes of it
			for try := 0; try < 20 && n2 == ""; try++ {
				s := ns.batch(1, seeded, c)[0]
				if got, err := sanitize.Path(s); err == nil && got != s && len(s) < 150 && s != "" {
					n1, n2 = s, got
				}
			}
			if n2 == "" {
				n1, n2 = "docs/report.txt", "docs_report.txt"
			}
		}
		if r.IntN(2) == 0 {
			n1, n2 = n2, n1
		}
	default:
		n1, n2 = fmt.Sprintf("first-%d.txt", c), fmt.Sprintf("second-%d.bin", c)
	}
	s1, e1 := sanitize.Path(n1)
	s2, e2 := sanitize.Path(n2)
	sameOutput := e1 == nil && e2 == nil && s1 == s2

	// ---- attachments
	slot := r.IntN(4)
	mk := func(i int, name string, second bool) attSpec {
		data := []byte(fmt.Sprintf("dup-key attachment %d of case %d: %x", i, c, r.Uint64()))
		data = append(data, bytes.Repeat([]byte{byte('a' + i)}, r.IntN(200))...)
		a := attSpec{Data: data, FEnc: randEnc(r), UFEnc: randEnc(r)}
		nm := name
		other := fmt.Sprintf("other-%d-%d.bin", c, i)
		switch {
		case slot == 0, slot == 3 && !second:
			a.F = &nm
		case slot == 1:
			a.UF = &nm
		case slot == 2:
			a.F, a.UF = &nm, &nm
		default: // slot 3, second entry: /UF carries the name, /F something harmless
			a.UF, a.F = &nm, &other
		}
		return a
	}
	keyText := dupKeyTexts[r.IntN(len(dupKeyTexts))]
	o1, o2, b1, b2 := spell(dc.spelling, keyText)
	type ent struct {
		a   attSpec
		key Object
		b   []byte
		dup int // 1, 2, 3: member of the repeated key; 0: ordinary
	}
	ents := []ent{{a: mk(0, n1, false), key: o1, b: b1, dup: 1}, {a: mk(1, n2, true), key: o2, b: b2, dup: 2}}
	if dc.layout == dupTriple {
		n3 := n1
		if dc.relation == 2 {
			n3 = fmt.Sprintf("third-%d.dat", c)
		}
		ents = append(ents, ent{a: mk(2, n3, r.IntN(2) == 0), key: o1, b: b1, dup: 3})
	}
	benign := fmt.Sprintf("plain-%d.txt", c)
	var benignData []byte
	fillers := r.IntN(6)
	if dc.layout == dupApart || dc.layout == dupDeep {
		fillers = max(fillers, 2)
	}
	for i := 0; i < fillers; i++ {
		a := mk(10+i, fmt.Sprintf("filler-%d-%d.txt", c, i), false)
		if i == 0 {
			a = attSpec{Data: a.Data, F: &benign}
			benignData = a.Data
		}
		// keys around the repeated one, some before, some after it in byte order
		k := []byte(fmt.Sprintf("%c%02d", "!Aaz~\xfe"[r.IntN(6)], i))
		var ko Object = String(k)
		if r.IntN(4) == 0 {
			ko = HexString(k)
		}
		ents = append(ents, ent{a: a, key: ko, b: k})
	}
	if fillers == 0 {
		benign = ""
	}
	sort.SliceStable(ents, func(i, j int) bool { return bytes.Compare(ents[i].b, ents[j].b) < 0 })
	at := func(dup int) int {
		for i, x := range ents {
			if x.dup == dup {
				return i
			}
		}
		return -1
	}

	// ---- document
	s := newSkeleton(1, nil)
	kv := make([]NameTreeKV, len(ents))
	var atts []attSpec
	for i, x := range ents {
		a := x.a
		sref := s.doc.Add(&Stream{Dict: D("Type", Name("EmbeddedFile"), "Params", D("Size", Int(len(a.Data)))), Data: a.Data, Filters: flateMaybe(r)})
		spec, ef := D("Type", Name("Filespec")), D()
		if a.F != nil {
			spec.Set("F", encodeName(*a.F, a.FEnc))
			ef.Set("F", sref)
		}
		if a.UF != nil {
			spec.Set("UF", encodeName(*a.UF, a.UFEnc))
			ef.Set("UF", sref)
			if a.F == nil {
				ef.Set("F", sref)
			}
		}
		spec.Set("EF", ef)
		a.Key = string(x.b)
		atts = append(atts, a)
		kv[i] = NameTreeKV{Key: x.key, Bytes: x.b, Val: s.doc.Add(spec)}
	}
	var leaves [][]NameTreeKV
	fan, flat := 0, false
	cut := max(at(1), at(2)) // the later member opens a new leaf where the layout splits
	switch dc.layout {
	case dupFlat:
		leaves, flat = [][]NameTreeKV{kv}, true
	case dupOneKid:
		leaves = [][]NameTreeKV{kv}
	case dupTwoLeaves:
		leaves = [][]NameTreeKV{kv[:cut], kv[cut:]}
	case dupDeep:
		fan = 2
		for i := 0; i < len(kv); {
			n := 1 + r.IntN(2)
			if i < cut && i+n > cut {
				n = cut - i
			}
			n = min(n, len(kv)-i)
			leaves = append(leaves, kv[i:i+n])
			i += n
		}
	case dupApart:
		// move an ordinary entry right behind the first member: the repeated key is no longer a neighbour of itself
		// and the array is out of order
		j := at(0)
		var out []NameTreeKV
		for i := range kv {
			if i == j {
				continue
			}
			out = append(out, kv[i])
			if ents[i].dup == 1 {
				out = append(out, kv[j])
			}
		}
		leaves, flat = [][]NameTreeKV{out}, r.IntN(2) == 0
	case dupTriple:
		cut = at(3)
		leaves = [][]NameTreeKV{kv[:cut], kv[cut:]}
	}
	var nonEmpty [][]NameTreeKV
	for _, l := range leaves {
		if len(l) > 0 {
			nonEmpty = append(nonEmpty, l)
		}
	}
	root, _ := BuildNameTreeLayout(s.doc, nonEmpty, fan, flat)
	s.catalog.Set("Names", D("EmbeddedFiles", root))
	if portfolio {
		s.catalog.Set("Collection", D("Type", Name("Collection"), "View", Name("D")))
		s.catalog.Set("PageMode", Name("UseAttachments"))
	}
	pdf := s.bytes(r, "1.7")
	in := e.writeIn("att.pdf", pdf)

	// ---- selection
	var ids []string
	sel := "all"
	if r.IntN(2) == 0 {
		filler := ""
		for _, x := range ents {
			if x.dup == 0 && x.a.planted() != benign {
				filler = x.a.planted()
			}
		}
		switch r.IntN(8) {
		case 0, 1:
			ids, sel = []string{n1, n2}, "names"
		case 2:
			ids, sel = []string{n2, n1}, "names-reversed"
		case 3:
			ids, sel = []string{string(b1)}, "key"
		case 4:
			ids, sel = []string{string(b1), n2}, "key+name"
		case 5:
			ids, sel = []string{n1}, "one-name"
		case 6:
			ids, sel = [][]string{{string(b1), string(b1)}, {n2, n2}, {n1, n2, n1}}[r.IntN(3)], "item-twice"
		default:
			ids, sel = []string{n1, n2}, "names+other"
			if filler != "" {
				ids = append(ids, filler)
			}
			if benign != "" {
				ids = append([]string{benign}, ids...)
			}
		}
	}

	expected := atts
	collected := 0 // attachments collected for a selection, repeats included
	if ids != nil {
		// the attachments pdfcpu collects for this selection, before anything is written
		expected = nil
		func() {
			defer func() { _ = recover() }()
			aa, err := api.ExtractAttachmentsRaw(bytes.NewReader(pdf), "", ids, conf())
			if err != nil {
				e.t.Count("site/"+site+"/selection_collect_error", 1)
				return
			}
			seen := map[string]bool{}
			collected = len(aa)
			for _, a := range aa {
				data, _ := io.ReadAll(a)
				for _, sp := range atts {
					if bytes.Equal(sp.Data, data) && !seen[string(data)] {
						seen[string(data)] = true
						expected = append(expected, sp)
					}
				}
			}
			e.t.Count("site/"+site+"/selection_items", int64(len(ids)))
			e.t.Count("site/"+site+"/selection_attachments_collected", int64(len(aa)))
		}()
	}

	sub := fmt.Sprintf("%s/%s/%s/slot%d/sel=%s", dupLayoutNames[dc.layout], spellingNames[dc.spelling], relationNames[dc.relation], slot, sel)
	if portfolio {
		sub += "/portfolio"
	}
	ci := caseInfo{Site: site, Sub: sub, Case: c, OutForm: form, Names: []string{keyText, n1, n2}}
	res := e.sb.monitored(e.t, ci, arg, chdir, func() error {
		return api.ExtractAttachmentsFile(in, arg, ids, conf())
	})
	if ids == nil || expected != nil || res.err != nil {
		e.attachmentOracle(site, ci, res, expected, collected, benign, benignData)
	}
	t := e.t
	cls := errClass(res.err)
	t.Count("site/"+site+"/layout="+dupLayoutNames[dc.layout]+"/"+cls, 1)
	t.Count("site/"+site+"/spelling="+spellingNames[dc.spelling]+"/"+cls, 1)
	t.Count("site/"+site+"/names="+relationNames[dc.relation]+"/"+cls, 1)
	t.Count("site/"+site+"/sel="+sel+"/"+cls, 1)
	if sameOutput {
		t.Count("site/"+site+"/pairs_with_one_output_name", 1)
		if dc.spelling != spDistinct {
			t.Count("site/"+site+"/same_key_same_output/"+cls, 1)
		}
	}
	e.finish(ci, res, fmt.Sprintf("%s/%d/%s/%s", site, c, sub, cls))
}
