package main

import (
	"verif/harness/internal/vk"
)

// kase is one run of one form under one configuration (one sandbox, one monitored child; the
// "rerun" directory variant runs the command twice in the same sandbox).
type kase struct {
	fm      form
	nk      string // spelling of the output path (nameKinds)
	first   bool   // first (or only) spelling of this form: carries the samples and the spelling-independent configurations
	sc      string // absent | exists | force | alias | alias-force | inplace | existing-is-input | dir-empty | dir-missing | dir-nonempty | dir-force
	variant string // kind of the pre-existing output / non-empty directory
	pos     string // placement of --force: "" | first | last
	spell   int    // alias: 0 = the input's name, 1 = ./name
	child   bool   // also validate the result with a `pdfcpu validate` child
}

var (
	presentKinds  = []string{"garbage", "pdf", "empty", "readonly", "symlink", "dir"}
	presentCommon = []string{"garbage", "pdf"}                      // a regular, non-empty file
	presentOdd    = []string{"empty", "readonly", "symlink", "dir"} // the special ones
	forceCombos   = [][2]string{{"garbage", "first"}, {"garbage", "last"}, {"pdf", "first"}, {"pdf", "last"}}
	dirVariants   = []string{"file", "hidden", "subdir", "rerun"}
	// non-empty directory + --force (variant, placement); hidden / subdir add nothing with --force
	dirForceCombos = [][2]string{{"file", "first"}, {"file", "last"}, {"rerun", "first"}}
)

// ranks gives every index of [0,n) a position in a seeded permutation: value[rank%k] then spreads
// the k values of an axis evenly over the forms (each value is used by floor(n/k) or ceil(n/k)
// forms), independently for every axis, and identically for a given (seed, table).
func ranks(t *vk.T, axis string, n int) []int {
	perm := make([]int, n)
	for i := range perm {
		perm[i] = i
	}
	rng := t.RNG("plan/" + axis)
	rng.Shuffle(n, func(i, j int) { perm[i], perm[j] = perm[j], perm[i] })
	r := make([]int, n)
	for pos, i := range perm {
		r[i] = pos
	}
	return r
}

// plan lists the baseline cases (phase 1: output absent / empty directory, one per form and spelling)
// and all other cases (phase 2; their verdicts use the baseline's outcome). The draws of the quick tier
// are made over the FULL table, so that a restricted run (C04_ONLY, --replay) repeats the same cases.
func plan(t *vk.T, all []form, selected func(form) bool) (baselines, rest []kase) {
	var fileIdx, dirIdx []int
	for i, fm := range all {
		switch {
		case fm.kind == dirOut:
			dirIdx = append(dirIdx, i)
		case !fm.existingIsInput:
			fileIdx = append(fileIdx, i)
		}
	}
	pos := func(idx []int) map[int]int {
		m := map[int]int{}
		for j, i := range idx {
			m[i] = j
		}
		return m
	}
	fpos, dpos := pos(fileIdx), pos(dirIdx)
	nf, nd := len(fileIdx), len(dirIdx)
	rNK, rA, rB, rF, rAF, rCV := ranks(t, "nk", nf), ranks(t, "presentA", nf), ranks(t, "presentB", nf), ranks(t, "force", nf), ranks(t, "aliasforce", nf), ranks(t, "child", nf)
	dNK, dV, dF, dM, dCV := ranks(t, "dir/nk", nd), ranks(t, "dir/variant", nd), ranks(t, "dir/force", nd), ranks(t, "dir/missing", nd), ranks(t, "dir/child", nd)
	quick := t.Quick()

	for i, fm := range all {
		if !selected(fm) {
			continue
		}
		switch {
		case fm.existingIsInput:
			// merge -m append: the output must exist and is extended, with and without --force
			for _, force := range []string{"", "first"} {
				rest = append(rest, kase{fm: fm, nk: "plain", first: true, sc: "existing-is-input", pos: force, child: !quick})
			}

		case fm.kind == dirOut:
			j := dpos[i]
			nks := nameKinds
			if quick {
				nks = []string{nameKinds[dNK[j]%len(nameKinds)]}
			}
			child := !quick || dCV[j]%8 == 0
			for ki, nk := range nks {
				k := kase{fm: fm, nk: nk, first: ki == 0, child: child}
				add := func(sc, variant, force string) {
					c := k
					c.sc, c.variant, c.pos = sc, variant, force
					if sc == "dir-empty" {
						baselines = append(baselines, c)
					} else {
						rest = append(rest, c)
					}
				}
				add("dir-empty", "", "")
				if !quick || dM[j]%3 == 0 {
					add("dir-missing", "", "")
				}
				if quick {
					v1 := dV[j] % 4
					v2 := (v1 + 1 + (dV[j]/4)%3) % 4
					add("dir-nonempty", dirVariants[v1], "")
					add("dir-nonempty", dirVariants[v2], "")
					fc := dirForceCombos[dF[j]%len(dirForceCombos)]
					add("dir-force", fc[0], fc[1])
					continue
				}
				for _, v := range dirVariants {
					add("dir-nonempty", v, "")
				}
				for _, fc := range dirForceCombos {
					add("dir-force", fc[0], fc[1])
				}
			}

		default:
			j := fpos[i]
			nks := nameKinds
			if quick {
				nks = []string{nameKinds[rNK[j]%len(nameKinds)]}
			}
			child := !quick || rCV[j]%8 == 0
			for ki, nk := range nks {
				k := kase{fm: fm, nk: nk, first: ki == 0, child: child}
				add := func(sc, variant, force string, spell int) {
					c := k
					c.sc, c.variant, c.pos, c.spell = sc, variant, force, spell
					if sc == "absent" {
						baselines = append(baselines, c)
					} else {
						rest = append(rest, c)
					}
				}
				add("absent", "", "", 0)
				if quick {
					add("exists", presentCommon[rA[j]%2], "", 0)
					add("exists", presentOdd[rB[j]%4], "", 0)
					fc := forceCombos[rF[j]%4]
					add("force", fc[0], fc[1], 0)
				} else {
					for _, v := range presentKinds {
						add("exists", v, "", 0)
					}
					for _, fc := range forceCombos {
						add("force", fc[0], fc[1], 0)
					}
				}
				if ki != 0 {
					continue
				}
				if fm.in != "" && !fm.noAlias {
					add("alias", "alias", "", 0)
					if !quick {
						add("alias", "alias", "", 1)
					}
					if !quick || rAF[j]%2 == 0 {
						add("alias-force", "alias", "first", 0)
					}
				}
				if fm.inplace != nil {
					add("inplace", "", "", 0)
				}
			}
		}
	}
	return baselines, rest
}
