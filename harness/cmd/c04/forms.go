package main

import (
	"strings"

	"verif/harness/internal/opcat"
)

// outKind says what kind of output a command form names.
type outKind int

const (
	fileOut outKind = iota // one explicit output file ({out})
	dirOut                 // an output directory ({dir}), optionally followed by an output base name
)

// form is one way of invoking one leaf command with an explicit output.
// Placeholders in args: {in} primary input, {out} output file, {dir} output directory.
type form struct {
	name    string   // stable key part, e.g. "pages/remove"
	leaf    string   // command path as printed by help, e.g. "pages remove"
	kind    outKind
	in      string   // fixture that is the primary PDF input ("" = the form has none)
	needs   []string // further fixtures read by the command
	args    []string // invocation WITH the explicit output
	inplace []string // invocation with no output named (nil = the command has no such form)
	json    bool     // the output is JSON, not PDF
	upw     string   // passwords that open the output
	opw     string
	// noAlias: "output = input" is not a meaningful configuration (no PDF input, or output is not a PDF).
	noAlias bool
	// existingIsInput: the command is DEFINED on an existing output file which it extends
	// (merge -m append). The only configuration driven is "output present", which must proceed.
	existingIsInput bool
	// keyName replaces name in violation keys when several forms exercise the same handler code
	// (one defect => one key).
	keyName string
}

func (fm form) key() string {
	if fm.keyName != "" {
		return fm.keyName
	}
	return fm.name
}

func f(name, leaf, in string, args, inplace string, needs ...string) form {
	fm := form{name: name, leaf: leaf, in: in, args: split(args), needs: needs}
	if inplace != "" {
		fm.inplace = split(inplace)
	}
	return fm
}

func d(name, leaf, in string, args string, needs ...string) form {
	return form{name: name, leaf: leaf, kind: dirOut, in: in, args: split(args), needs: needs, noAlias: true}
}

// split separates on '|' so that arguments may contain spaces.
func split(s string) []string { return strings.Split(s, "|") }

func (fm form) with(mod func(*form)) form { mod(&fm); return fm }

const (
	one    = opcat.FxOne
	multi  = opcat.FxMulti
	wm     = opcat.FxWM
	enc    = opcat.FxEnc
	annot  = opcat.FxAnnot
	images = opcat.FxImages
	fonts  = opcat.FxFonts
	viewer = opcat.FxViewer
	boxes  = opcat.FxBoxes
	fform  = opcat.FxForm
	core   = opcat.FxCoreForm
	blank  = opcat.FxFormBlank
	signed = opcat.FxSigned
)

// forms is the table: every leaf command form that names an output file or an output directory.
func forms() []form {
	pw := func(fm *form) { fm.upw, fm.opw = opcat.UserPW, opcat.OwnerPW }
	js := func(fm *form) { fm.json, fm.noAlias = true, true }
	noAlias := func(fm *form) { fm.noAlias = true }
	return []form{
		// ---- document
		f("optimize", "optimize", multi, "optimize|{in}|{out}", "optimize|{in}"),
		f("create/new", "create", "", "create|create.json|{out}", "", opcat.FxCreateJSON).with(noAlias),
		f("create/update", "create", one, "create|create.json|{in}|{out}", "", opcat.FxCreateJSON),
		f("merge/create", "merge", "", "merge|{out}|one.pdf|multi.pdf", "", one, multi).with(noAlias),
		f("merge/zip", "merge", "", "merge|-m|zip|{out}|multi.pdf|wm.pdf", "", multi, wm).with(noAlias),
		f("merge/append", "merge", multi, "merge|-m|append|{out}|one.pdf", "", one).with(func(fm *form) { fm.existingIsInput, fm.noAlias = true, true }),
		f("trim", "trim", multi, "trim|-p|2-4|{in}|{out}", "trim|-p|2-4|{in}"),
		f("collect", "collect", multi, "collect|-p|3,1,1|{in}|{out}", "collect|-p|3,1,1|{in}"),
		d("split/span", "split", multi, "split|{in}|{dir}|3"),
		d("split/bookmark", "split", multi, "split|-m|bookmark|{in}|{dir}"),
		d("split/page", "split", multi, "split|-m|page|{in}|{dir}|3|6"),

		// ---- pages
		f("pages/insert", "pages insert", multi, "pages|insert|-p|2|{in}|{out}", "pages|insert|-p|2|{in}"),
		f("pages/insert/desc", "pages insert", multi, "pages|insert|-p|2|f:A5L|{in}|{out}", "pages|insert|-p|2|f:A5L|{in}"),
		f("pages/remove", "pages remove", multi, "pages|remove|-p|2,5|{in}|{out}", "pages|remove|-p|2,5|{in}"),
		f("rotate", "rotate", multi, "rotate|-p|1-3|{in}|90|{out}", "rotate|-p|1-3|{in}|90"),
		f("nup", "nup", multi, "nup|{out}|4|{in}", ""),
		f("nup/desc", "nup", multi, "nup|form:A4L, border:off|{out}|2|{in}", ""),
		f("nup/images", "nup", "", "nup|{out}|4|img.png|img2.jpg", "", opcat.FxImg, opcat.FxImg2).with(noAlias),
		f("grid", "grid", multi, "grid|{out}|1|2|{in}", ""),
		f("booklet", "booklet", multi, "booklet|{out}|4|{in}", ""),
		f("resize", "resize", multi, "resize|sc:.5|{in}|{out}", "resize|sc:.5|{in}"),
		f("zoom", "zoom", multi, "zoom|factor: .5|{in}|{out}", "zoom|factor: .5|{in}"),
		f("crop", "crop", multi, "crop|[0 0 200 200]|{in}|{out}", "crop|[0 0 200 200]|{in}"),
		f("boxes/add", "boxes add", multi, "boxes|add|crop:[10 10 200 200], trim:5|{in}|{out}", "boxes|add|crop:[10 10 200 200], trim:5|{in}"),
		f("boxes/remove", "boxes remove", boxes, "boxes|remove|crop,trim|{in}|{out}", "boxes|remove|crop,trim|{in}"),
		d("poster", "poster", one, "poster|f:A6|{in}|{dir}"),
		d("poster/outFile", "poster", one, "poster|f:A6|{in}|{dir}|tile"),
		d("ndown", "ndown", one, "ndown|2|{in}|{dir}"),
		d("ndown/outFile", "ndown", one, "ndown|2|{in}|{dir}|tile"),
		d("ndown/desc/outFile", "ndown", one, "ndown|margin:1, border:on|4|{in}|{dir}|tile").with(func(fm *form) { fm.keyName = "ndown/outFile" }),
		d("cut", "cut", one, "cut|hor:.5|{in}|{dir}"),
		d("cut/outFile", "cut", one, "cut|hor:.5, vert:.5|{in}|{dir}|tile"),

		// ---- content
		f("watermark/add", "watermark add", multi, "watermark|add|Draft|pos:c, rot:0|{in}|{out}", "watermark|add|Draft|pos:c, rot:0|{in}"),
		f("watermark/add/pdf", "watermark add", multi, "watermark|add|-m|pdf|stamp.pdf|pos:c|{in}|{out}", "", opcat.FxStampPDF),
		f("watermark/update", "watermark update", wm, "watermark|update|New|pos:tl|{in}|{out}", "watermark|update|New|pos:tl|{in}"),
		f("watermark/remove", "watermark remove", wm, "watermark|remove|{in}|{out}", "watermark|remove|{in}"),
		f("stamp/add", "stamp add", multi, "stamp|add|-p|1-2|Confidential|pos:br, scale:.3|{in}|{out}", "stamp|add|-p|1-2|Confidential|pos:br, scale:.3|{in}"),
		f("stamp/add/image", "stamp add", multi, "stamp|add|-m|image|img.png|pos:tr, scale:.2|{in}|{out}", "", opcat.FxImg),
		f("stamp/update", "stamp update", wm, "stamp|update|New|pos:tl|{in}|{out}", "stamp|update|New|pos:tl|{in}"),
		f("stamp/remove", "stamp remove", wm, "stamp|remove|{in}|{out}", "stamp|remove|{in}"),
		f("annotations/remove", "annotations remove", annot, "annotations|remove|{in}|{out}", "annotations|remove|{in}"),
		f("annotations/remove/type", "annotations remove", annot, "annotations|remove|{in}|{out}|Line|14", "annotations|remove|{in}|Line|14"),
		f("bookmarks/export", "bookmarks export", multi, "bookmarks|export|{in}|{out}", "").with(js),
		f("bookmarks/import", "bookmarks import", multi, "bookmarks|import|-r|{in}|bookmarks.json|{out}", "bookmarks|import|-r|{in}|bookmarks.json", opcat.FxBMJSON),
		f("bookmarks/remove", "bookmarks remove", multi, "bookmarks|remove|{in}|{out}", "bookmarks|remove|{in}"),
		f("pagelayout/set", "pagelayout set", multi, "pagelayout|set|{in}|TwoColumnLeft|{out}", "pagelayout|set|{in}|TwoColumnLeft"),
		f("pagelayout/reset", "pagelayout reset", viewer, "pagelayout|reset|{in}|{out}", "pagelayout|reset|{in}"),
		f("pagemode/set", "pagemode set", multi, "pagemode|set|{in}|UseOutlines|{out}", "pagemode|set|{in}|UseOutlines"),
		f("pagemode/reset", "pagemode reset", viewer, "pagemode|reset|{in}|{out}", "pagemode|reset|{in}"),
		f("viewerpref/set", "viewerpref set", multi, "viewerpref|set|{in}|vp.json|{out}", "viewerpref|set|{in}|vp.json", opcat.FxVPJSON),
		f("viewerpref/set/string", "viewerpref set", multi, `viewerpref|set|{in}|{"HideMenubar": true}|{out}`, ""),
		f("viewerpref/reset", "viewerpref reset", viewer, "viewerpref|reset|{in}|{out}", "viewerpref|reset|{in}"),

		// ---- resources
		f("import", "import", "", "import|{out}|img.png|img2.jpg", "", opcat.FxImg, opcat.FxImg2).with(noAlias),
		f("import/desc", "import", "", "import|f:A5, pos:c|{out}|img.png", "", opcat.FxImg).with(noAlias).with(func(fm *form) { fm.keyName = "import" }),
		d("images/extract", "images extract", images, "images|extract|{in}|{dir}"),
		f("images/update", "images update", images, "images|update|{in}|repl_1_Im1.png|{out}", "images|update|{in}|repl_1_Im1.png", opcat.FxReplImg),
		f("images/update/objnr", "images update", images, "images|update|{in}|repl_1_Im1.png|{out}|7", "", opcat.FxReplImg),
		d("attachments/extract", "attachments extract", multi, "attachments|extract|{in}|{dir}"),
		d("attachments/extract/one", "attachments extract", multi, "attachments|extract|{in}|{dir}|att.txt"),
		d("portfolio/extract", "portfolio extract", multi, "portfolio|extract|{in}|{dir}"),
		f("keywords/add", "keywords add", multi, "keywords|add|{in}|{out}|gamma|delta", "keywords|add|{in}|gamma|delta"),
		f("keywords/remove", "keywords remove", multi, "keywords|remove|{in}|{out}|alpha", "keywords|remove|{in}|alpha"),
		f("keywords/remove/all", "keywords remove", multi, "keywords|remove|{in}|{out}", "keywords|remove|{in}"),
		f("properties/add", "properties add", multi, "properties|add|{in}|{out}|Dept = QA", "properties|add|{in}|Dept = QA"),
		f("properties/remove", "properties remove", multi, "properties|remove|{in}|{out}|Project", "properties|remove|{in}|Project"),
		f("properties/remove/all", "properties remove", multi, "properties|remove|{in}|{out}", "properties|remove|{in}"),

		// ---- extract
		d("extract/image", "extract", images, "extract|-m|image|{in}|{dir}"),
		d("extract/font", "extract", fonts, "extract|-m|font|{in}|{dir}"),
		d("extract/page", "extract", multi, "extract|-m|page|-p|2-3|{in}|{dir}"),
		d("extract/content", "extract", multi, "extract|-m|content|-p|1|{in}|{dir}"),
		d("extract/meta", "extract", signed, "extract|-m|meta|{in}|{dir}"),

		// ---- form
		f("form/export", "form export", fform, "form|export|{in}|{out}", "").with(js),
		f("form/fill", "form fill", blank, "form|fill|{in}|form.json|{out}", "form|fill|{in}|form.json", opcat.FxFormJSON),
		f("form/lock", "form lock", core, "form|lock|{in}|{out}", "form|lock|{in}"),
		f("form/lock/some", "form lock", core, "form|lock|{in}|{out}|note1|dob1", "form|lock|{in}|note1|dob1"),
		f("form/unlock", "form unlock", fform, "form|unlock|{in}|{out}", "form|unlock|{in}"),
		f("form/reset", "form reset", core, "form|reset|{in}|{out}", "form|reset|{in}"),
		f("form/remove", "form remove", fform, "form|remove|{in}|{out}|dob1|firstName1", "form|remove|{in}|dob1|firstName1"),
		d("form/multifill/json", "form multifill", blank, "form|multifill|{in}|multifill.json|{dir}", opcat.FxMultiJSON),
		d("form/multifill/csv", "form multifill", blank, "form|multifill|{in}|multifill.csv|{dir}", opcat.FxMultiCSV),
		d("form/multifill/outFile", "form multifill", blank, "form|multifill|{in}|multifill.json|{dir}|filled.pdf", opcat.FxMultiJSON),
		d("form/multifill/merge/outFile", "form multifill", blank, "form|multifill|-m|merge|{in}|multifill.json|{dir}|filled.pdf", opcat.FxMultiJSON),

		// ---- security
		f("encrypt", "encrypt", multi, "encrypt|--upw|upw|--opw|opw|{in}|{out}", "encrypt|--upw|upw|--opw|opw|{in}").with(pw),
		f("encrypt/rc4", "encrypt", multi, "encrypt|-m|rc4|--opw|opw|{in}|{out}", "").with(func(fm *form) { fm.opw = opcat.OwnerPW }),
		f("decrypt", "decrypt", enc, "decrypt|--upw|upw|--opw|opw|{in}|{out}", "decrypt|--upw|upw|--opw|opw|{in}"),
		f("changeupw", "changeupw", enc, "changeupw|--opw|opw|{in}|upw|u2|{out}", "changeupw|--opw|opw|{in}|upw|u2").with(func(fm *form) { fm.upw, fm.opw = "u2", opcat.OwnerPW }),
		f("changeopw", "changeopw", enc, "changeopw|--upw|upw|{in}|opw|o2|{out}", "changeopw|--upw|upw|{in}|opw|o2").with(func(fm *form) { fm.upw, fm.opw = opcat.UserPW, "o2" }),
		f("permissions/set", "permissions set", enc, "permissions|set|--perm|all|--upw|upw|--opw|opw|{in}|{out}", "permissions|set|--perm|all|--upw|upw|--opw|opw|{in}").with(pw),
		f("signatures/remove", "signatures remove", signed, "signatures|remove|{in}|{out}", "signatures|remove|{in}"),
	}
}

// noOutputNamed lists leaves whose usage line carries no outFile/outDir although they write files; they are
// outside C04's quantifier ("accepting an output file or output directory") and are reported as such.
var noOutputNamed = map[string]string{
	"attachments add":     "in place only (no outFile argument)",
	"attachments remove":  "in place only (no outFile argument)",
	"portfolio add":       "in place only (no outFile argument)",
	"portfolio remove":    "in place only (no outFile argument)",
	"fonts cheatsheet":    "writes <font>.pdf into the working directory, no output argument",
	"fonts install":       "writes into the configuration directory",
	"certificates import": "writes into the configuration directory",
}

func subst(args []string, in, out, dir string) []string {
	res := make([]string, len(args))
	for i, a := range args {
		switch a {
		case "{in}":
			a = in
		case "{out}":
			a = out
		case "{dir}":
			a = dir
		}
		res[i] = a
	}
	return res
}
