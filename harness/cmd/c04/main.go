// C04 — the CLI never overwrites existing outputs without --force.
//
// Black-box monitor of the REAL command line binary, built at run time from the tree under test
// (and, when ./check provides the shadow GOROOT, built on it so that the unmodified binary logs
// every package-os call under the sandbox). A table (forms.go) holds every leaf command form that
// names an output file or an output directory; the leaf set of the binary is discovered from its own
// help output and any leaf with an output argument that the table does not drive is reported as
// uncovered. Every form is run in a fresh sandbox (cwd = sandbox, --conf disable, HOME/XDG/TMPDIR
// private, stdin closed, watchdog) under the configurations
//
//	file output:  absent | present (garbage, valid PDF, empty, read-only, symlink, directory) |
//	              present + --force (flag first / last) | output = input | output = input + --force |
//	              no output named (in place)
//	directory:    missing | empty | non-empty (file, hidden file, sub-directory, outputs of a previous run) |
//	              non-empty + --force
//
// Oracle, output present and no --force: exit status != 0, stderr carries the refusal
// ("refusing to overwrite|write"), the whole sandbox tree is identical afterwards (names, bytes,
// modes, mtimes) and the fs-call log shows no mutating call under the sandbox. With --force, with
// the output absent and in place: exit status 0 and the output validates.
//
// Tiers. Every form is driven in BOTH tiers with the output absent / present / present + --force /
// equal to the input / in place (directories: empty / non-empty / non-empty + --force). thorough
// enumerates the secondary axes (6 kinds of present file, 4 kinds of non-empty directory, 5 path
// spellings, both --force placements, ./ spelling of the alias, a `pdfcpu validate` child of the STOCK
// build after every success); quick draws them per form from the seed (plan.go: balanced draws, so that
// every value of every axis is exercised by about the same number of forms in every run), validates
// the outputs in-process through pkg/api (same tree under test) and builds the binary once.
package main

import (
	"bytes"
	"encoding/json"
	"fmt"
	"os"
	"path/filepath"
	"regexp"
	"sort"
	"strings"
	"sync"

	"github.com/pdfcpu/pdfcpu/pkg/api"
	"github.com/pdfcpu/pdfcpu/pkg/pdfcpu/model"
	"verif/harness/internal/clirun"
	"verif/harness/internal/opcat"
	"verif/harness/internal/vk"
)

var refusal = regexp.MustCompile(`refusing to (overwrite|write)`)

type env struct {
	t       *vk.T
	fx      string // fixtures
	bin     string // binary used for the monitored runs (shadow build when available)
	plain   string // binary for `pdfcpu validate` children and help (thorough: the stock build; quick: = bin, run without VERIF_OSMON)
	osmon   bool
	base    map[string]bool // form name + "/" + name kind -> the baseline (output absent / empty directory) succeeded
	cases   string // directory for per-case sandboxes
	debug   bool
	mu      sync.Mutex
	nextDir int
}

// replayCase is what a violation stores; --replay re-runs every configuration of that form.
type replayCase struct {
	Form     string   `json:"form"`
	Scenario string   `json:"scenario"`
	Variant  string   `json:"variant,omitempty"`
	NameKind string   `json:"name_kind,omitempty"`
	Args     []string `json:"args"`
	Exit     int      `json:"exit"`
	Stderr   string   `json:"stderr"`
	Changes  string   `json:"changes,omitempty"`
}

func main() {
	vk.Run("C04", "exploration", func(t *vk.T) {
		api.DisableConfigDir()
		e := &env{t: t, debug: os.Getenv("C04_DEBUG") != "", base: map[string]bool{}}
		scratch := t.Scratch()
		e.fx = filepath.Join(scratch, "fx")
		e.cases = filepath.Join(scratch, "c")
		bindir := filepath.Join(scratch, "bin")
		for _, d := range []string{e.fx, e.cases, bindir} {
			if err := os.MkdirAll(d, 0o755); err != nil {
				t.Broken("mkdir: %v", err)
			}
		}
		// builds and fixtures side by side. thorough: the stock build (validation children, help) and, when
		// ./check provides the shadow GOROOT, the shadow build (monitored runs). quick: ONE build, the shadow
		// one when available (run without VERIF_OSMON it is an ordinary binary).
		stock := filepath.Join(bindir, "pdfcpu")
		shadow := filepath.Join(bindir, "pdfcpu-osmon")
		gr := os.Getenv("VERIF_BUILD_GOROOT")
		var wg sync.WaitGroup
		var fxErr, stockErr, shadowErr error
		wg.Add(1)
		go func() { defer wg.Done(); fxErr = opcat.Prepare(vk.RepoDir(), e.fx) }()
		if gr != "" {
			wg.Add(1)
			go func() { defer wg.Done(); shadowErr = clirun.Build(vk.RepoDir(), shadow, gr) }()
		}
		needStock := gr == "" || !t.Quick()
		if needStock {
			wg.Add(1)
			go func() { defer wg.Done(); stockErr = clirun.Build(vk.RepoDir(), stock, "") }()
		}
		wg.Wait()
		if fxErr != nil {
			t.Broken("fixtures: %v", fxErr)
		}
		if gr != "" && shadowErr != nil && !needStock { // quick: fall back to the stock build
			needStock = true
			stockErr = clirun.Build(vk.RepoDir(), stock, "")
		}
		if needStock && stockErr != nil {
			t.Broken("%v", stockErr)
		}
		switch {
		case gr != "" && shadowErr == nil:
			e.bin, e.osmon = shadow, true
			e.plain = shadow
			if needStock {
				e.plain = stock
			}
		default:
			if gr != "" {
				fmt.Fprintf(os.Stderr, "C04: shadow build failed, running without the fs-call log: %v\n", shadowErr)
				t.Count("osmon_build_failed", 1)
			}
			e.bin, e.plain = stock, stock
		}
		t.Extra("fs_call_log", e.osmon)
		t.Extra("validation_children_use_stock_build", e.plain == stock)

		// leaf discovery (≈ 90 help children) runs beside the cases
		var leaves []clirun.Leaf
		var leafErr error
		var rootHelp clirun.Result
		var lwg sync.WaitGroup
		lwg.Add(1)
		go func() {
			defer lwg.Done()
			leaves, leafErr = clirun.Leaves(e.plain, scratch)
			rootHelp = clirun.Run(clirun.Spec{Bin: e.plain, Args: []string{"help"}, Dir: scratch, Home: scratch, Tmp: scratch})
		}()

		all := forms()
		selected := func(form) bool { return true }
		if re := os.Getenv("C04_ONLY"); re != "" { // development aid: restrict the table
			rx := regexp.MustCompile(re)
			selected = func(fm form) bool { return rx.MatchString(fm.name) }
		}
		if t.Replay != nil {
			var rc replayCase
			_ = json.Unmarshal(t.Replay.Case, &rc)
			selected = func(fm form) bool { return fm.name == rc.Form }
		}

		t.Rule("case = (command form, output configuration, variant of the pre-existing output, spelling of the output path); every case is one run of the real binary in a fresh sandbox; all cases are non-trivial (each is judged on exit status, stderr, whole-tree comparison and, with the shadow build, the fs-call log); distinct by that tuple. BOTH tiers drive every form with the output absent, present, present + --force, equal to the input (+ --force), in place, and every directory form with the directory empty, non-empty, non-empty + --force. thorough enumerates the secondary axes (6 kinds of present file, 4 kinds of non-empty directory, 5 path spellings, 4 (kind, --force placement) combinations, missing directory, ./ spelling of the alias) and validates every result with a `pdfcpu validate` child of the stock build; quick draws per form from the seed, balanced over the table: 1 spelling, 2 present kinds (one of garbage|pdf, one of empty|readonly|symlink|dir), 1 --force combination, 2 non-empty-directory kinds, 1 directory --force combination, alias + --force for 1 form in 2, missing directory for 1 in 3, validates every result in-process (api.ValidateFile of the tree under test) and 1 form in 8 also with a validate child")
		t.Assume("leaf commands are those reachable through `pdfcpu help`; hidden commands (dump) name no output")
		t.Assume("merge -m append is defined on an existing output (it extends it) and is driven as an in-place form; every other form, including import, is held to the refusal rule of the property text")
		t.Assume("output = input without --force: any non-zero exit with an unchanged tree counts as the refusal (the message may name the aliasing instead of the overwrite); output = input with --force may either succeed with a valid file or fail leaving the tree unchanged")
		t.Assume("a missing output directory: success with valid outputs or failure are both accepted (the property text only speaks of non-empty directories)")
		t.Exhaustive(os.Getenv("C04_ONLY") == "" && t.Replay == nil)

		baselines, rest := plan(t, all, selected)
		t.Count("cases_planned", int64(len(baselines)+len(rest)))
		vk.Parallel(len(baselines), func(i int) { e.runCase(baselines[i]) })
		vk.Parallel(len(rest), func(i int) { e.runCase(rest[i]) })

		lwg.Wait()
		if leafErr != nil {
			t.Broken("leaf discovery: %v", leafErr)
		}
		if !bytes.Contains(rootHelp.Stdout, []byte("--force")) {
			t.Broken("the binary's help does not list a --force flag")
		}
		e.coverage(leaves, all)
		if e.osmon && t.Counter("fs_log_mutating_calls_in_successful_runs") == 0 && t.Replay == nil {
			t.Broken("the fs-call log never showed a mutating call in a successful run: tracer not working")
		}
	})
}

// coverage compares the table with the leaves of the binary.
func (e *env) coverage(leaves []clirun.Leaf, fs []form) {
	t := e.t
	driven := map[string]bool{}
	for _, fm := range fs {
		driven[fm.leaf] = true
	}
	known := map[string]bool{}
	var uncovered, withOut []string
	for _, l := range leaves {
		known[l.Path] = true
		if !l.HasOutArg() {
			continue
		}
		withOut = append(withOut, l.Path)
		if !driven[l.Path] {
			uncovered = append(uncovered, l.Path)
		}
	}
	var stale []string
	for l := range driven {
		if !known[l] {
			stale = append(stale, l)
		}
	}
	sort.Strings(stale)
	var outside []string
	for l, why := range noOutputNamed {
		if known[l] {
			outside = append(outside, l+": "+why)
		}
	}
	sort.Strings(outside)
	t.Count("leaves_discovered", int64(len(leaves)))
	t.Count("leaves_with_output_argument", int64(len(withOut)))
	t.Count("leaves_driven", int64(len(withOut)-len(uncovered)))
	t.Count("uncovered_leaves", int64(len(uncovered)))
	t.Count("forms_in_table", int64(len(fs)))
	t.Extra("uncovered", uncovered)
	t.Extra("stale_table_leaves", stale)
	t.Extra("writers_without_output_argument", outside)
	for _, u := range uncovered {
		fmt.Printf("UNCOVERED: property=C04 leaf %q has an output argument but no table entry\n", u)
	}
	for _, s := range stale {
		e.t.Inconclusive("table-leaf-not-in-binary:" + strings.ReplaceAll(s, " ", "_"))
	}
}

// ---------------------------------------------------------------- sandboxes

var nameKinds = []string{"plain", "space", "subdir", "upper", "abs"}

func outName(kind string, jsonOut bool, sb string) string {
	ext := ".pdf"
	if jsonOut {
		ext = ".json"
	}
	switch kind {
	case "space":
		return "res ult" + ext
	case "subdir":
		return "sub/out" + ext
	case "upper":
		return "OUT" + strings.ToUpper(ext)
	case "abs":
		return filepath.Join(sb, "out"+ext)
	}
	return "out" + ext
}

func dirName(kind, sb string) string {
	switch kind {
	case "space":
		return "out dir"
	case "subdir":
		return "sub/outdir"
	case "upper":
		return "OUTDIR"
	case "abs":
		return filepath.Join(sb, "outdir")
	}
	return "outdir"
}

type box struct {
	root, sb, home, tmp, log string
}

func (e *env) newBox(fm form) *box {
	e.mu.Lock()
	e.nextDir++
	n := e.nextDir
	e.mu.Unlock()
	root := filepath.Join(e.cases, fmt.Sprint(n))
	b := &box{root: root, sb: filepath.Join(root, "sb"), home: filepath.Join(root, "home"), tmp: filepath.Join(root, "tmp"), log: filepath.Join(root, "fs.log")}
	for _, d := range []string{b.sb, b.home, b.tmp, filepath.Join(b.sb, "sub")} {
		if err := os.MkdirAll(d, 0o755); err != nil {
			e.t.Broken("mkdir: %v", err)
		}
	}
	names := append([]string{}, fm.needs...)
	if fm.in != "" {
		names = append(names, fm.in)
	}
	for _, n := range names {
		if err := clirun.CopyFile(filepath.Join(e.fx, n), filepath.Join(b.sb, n), 0o644); err != nil {
			e.t.Broken("fixture %s: %v", n, err)
		}
	}
	return b
}

func (b *box) path(p string) string {
	if filepath.IsAbs(p) {
		return p
	}
	return filepath.Join(b.sb, p)
}

func (b *box) done() { _ = os.RemoveAll(b.root) }

type outcome struct {
	args    []string
	res     clirun.Result
	before  clirun.Tree
	after   clirun.Tree
	changes []clirun.Change
	mut     []clirun.FsEvent // mutating calls logged under the sandbox
	calls   int
}

// run executes the monitored binary in the sandbox with --conf disable (+ --force first/last).
func (e *env) run(b *box, args []string, force string) *outcome {
	full := []string{"--conf", "disable"}
	if force == "first" {
		full = append(full, "--force")
	}
	full = append(full, args...)
	if force == "last" {
		full = append(full, "--force")
	}
	o := &outcome{args: full}
	var err error
	if o.before, err = clirun.Snap(b.sb); err != nil {
		e.t.Broken("snapshot: %v", err)
	}
	sp := clirun.Spec{Bin: e.bin, Args: full, Dir: b.sb, Home: b.home, Tmp: b.tmp}
	if e.osmon {
		_ = os.Remove(b.log)
		sp.Env = []string{clirun.OsmonEnv(b.sb, b.log)}
	}
	o.res = clirun.Run(sp)
	if o.after, err = clirun.Snap(b.sb); err != nil {
		e.t.Broken("snapshot: %v", err)
	}
	o.changes = clirun.Diff(o.before, o.after)
	if e.osmon {
		evs, err := clirun.ReadFsLog(b.log)
		if err != nil {
			e.t.Count("fs_log_unreadable", 1)
		}
		o.calls = len(evs)
		for _, ev := range evs {
			if clirun.Mutating(ev) {
				o.mut = append(o.mut, ev)
			}
		}
		e.t.Count("fs_log_calls", int64(len(evs)))
	}
	e.t.Count("child_runs", 1)
	if e.debug {
		fmt.Fprintf(os.Stderr, "RUN %q exit=%d changes=[%s] stderr=%q\n", full, o.res.Exit, clirun.ChangeList(o.changes, 6), clirun.Clip(o.res.Stderr, 160))
	}
	return o
}

// validateInProc validates a PDF through pkg/api of the tree under test (what `pdfcpu validate` does:
// relaxed mode, fresh default configuration, the passwords that open the output).
func (e *env) validateInProc(path, upw, opw string) (ok bool, why string) {
	defer func() {
		if r := recover(); r != nil {
			e.t.Count("pdfcpu_panics", 1)
			ok, why = false, fmt.Sprintf("validate panicked: %v", r)
		}
	}()
	conf := model.NewDefaultConfiguration()
	conf.Offline = true
	conf.ValidationMode = model.ValidationRelaxed
	conf.UserPW, conf.OwnerPW = upw, opw
	e.t.Count("validate_inproc", 1)
	if err := api.ValidateFile(path, conf); err != nil {
		return false, "validate: " + clirun.Clip([]byte(err.Error()), 200)
	}
	return true, ""
}

// validateChild runs `pdfcpu validate` (e.plain) on a file.
func (e *env) validateChild(b *box, path, upw, opw string) (bool, string) {
	args := []string{"--conf", "disable", "validate"}
	if upw != "" {
		args = append(args, "--upw", upw)
	}
	if opw != "" {
		args = append(args, "--opw", opw)
	}
	args = append(args, path)
	var r clirun.Result
	for try := 0; try < 2; try++ {
		r = clirun.Run(clirun.Spec{Bin: e.plain, Args: args, Dir: b.sb, Home: b.home, Tmp: b.tmp})
		e.t.Count("validate_runs", 1)
		if !r.TimedOut && r.Signal == "" && r.Err == "" {
			break
		}
	}
	if r.TimedOut || r.Signal != "" || r.Err != "" {
		// the validator child itself was killed / timed out: no verdict on the output
		e.t.Inconclusive("validate-child-killed")
		return true, ""
	}
	if r.Exit != 0 {
		return false, "validate: exit " + fmt.Sprint(r.Exit) + ": " + clirun.Clip(append(r.Stderr, r.Stdout...), 200)
	}
	return true, ""
}

// validatePDF: quick validates in-process (and with a child where the plan says so), thorough with a child.
func (e *env) validatePDF(b *box, path, upw, opw string, child bool) (bool, string) {
	if e.t.Quick() {
		if ok, why := e.validateInProc(path, upw, opw); !ok {
			return ok, why
		}
	}
	if child {
		return e.validateChild(b, path, upw, opw)
	}
	return true, ""
}

// validOutput checks one output file (PDF via the CLI's validate, JSON by decoding).
func (e *env) validOutput(b *box, fm form, path string, child bool) (bool, string) {
	st, err := os.Stat(path)
	if err != nil {
		return false, "output missing: " + err.Error()
	}
	if !st.Mode().IsRegular() {
		return false, "output is not a regular file"
	}
	if strings.HasSuffix(strings.ToLower(path), ".json") {
		bb, _ := os.ReadFile(path)
		if len(bytes.TrimSpace(bb)) == 0 || !json.Valid(bb) {
			return false, "output is not valid JSON"
		}
		return true, ""
	}
	if !strings.HasSuffix(strings.ToLower(path), ".pdf") {
		if st.Size() == 0 {
			return false, "empty output " + filepath.Base(path)
		}
		return true, ""
	}
	return e.validatePDF(b, path, fm.upw, fm.opw, child)
}

// validDir checks every regular file under an output directory; n = number of files.
func (e *env) validDir(b *box, fm form, dir string, child bool) (n int, ok bool, why string) {
	ok = true
	_ = filepath.Walk(dir, func(p string, info os.FileInfo, err error) error {
		if err != nil || !info.Mode().IsRegular() {
			return nil
		}
		if strings.HasPrefix(info.Name(), "pre-existing") || strings.HasPrefix(info.Name(), ".pre-existing") {
			return nil
		}
		n++
		if v, w := e.validOutput(b, fm, p, child); !v && ok {
			ok, why = false, filepath.Base(p)+": "+w
		}
		return nil
	})
	return
}

func (e *env) violate(fm form, sc, class, what string, rc replayCase) {
	rc.Form, rc.Scenario = fm.name, sc
	e.t.Violate("cmd="+fm.key()+"/sc="+sc+"/class="+class, what, rc)
}

func rcOf(o *outcome, variant, nk string) replayCase {
	return replayCase{Variant: variant, NameKind: nk, Args: o.args, Exit: o.res.Exit, Stderr: clirun.Clip(o.res.Stderr, 300), Changes: clirun.ChangeList(o.changes, 8)}
}

func (e *env) timedOut(o *outcome, fm form, sc string) bool {
	if o.res.TimedOut || o.res.Err != "" || o.res.Signal != "" {
		e.t.Inconclusive("watchdog:" + fm.name + "/" + sc)
		return true
	}
	return false
}

// ---------------------------------------------------------------- per case

func (e *env) setBase(k kase, ok bool) {
	e.mu.Lock()
	e.base[k.fm.name+"/"+k.nk] = ok
	e.mu.Unlock()
}

func (e *env) baseOK(k kase) bool {
	e.mu.Lock()
	defer e.mu.Unlock()
	return e.base[k.fm.name+"/"+k.nk]
}

func (e *env) runCase(k kase) {
	if strings.HasPrefix(k.sc, "dir-") {
		e.runDirCase(k)
		return
	}
	t, fm, nk := e.t, k.fm, k.nk
	base := "C04/" + fm.name + "/" + nk
	b := e.newBox(fm)
	defer b.done()
	out := outName(nk, fm.json, b.sb)

	switch k.sc {
	case "absent": // the baseline of this form
		o := e.run(b, subst(fm.args, fm.in, out, ""), "")
		t.Eval(base + "/absent")
		ok := false
		switch {
		case e.timedOut(o, fm, "out-absent"):
		case o.res.Exit != 0:
			t.Inconclusive("baseline-failed:" + fm.name)
			fmt.Fprintf(os.Stderr, "C04: baseline of %s failed: exit %d: %s\n", fm.name, o.res.Exit, clirun.Clip(o.res.Stderr, 300))
		default:
			if v, why := e.validOutput(b, fm, b.path(out), k.child); !v {
				e.violate(fm, "out-absent", "invalid-output", fmt.Sprintf("%q succeeded with the output absent but %s", o.args, why), rcOf(o, "", nk))
			} else {
				ok = true
				t.Count("proceeded_ok/out-absent", 1)
				if len(o.mut) > 0 {
					t.Count("fs_log_mutating_calls_in_successful_runs", int64(len(o.mut)))
				}
			}
		}
		e.setBase(k, ok)
		if k.first {
			t.Sample(map[string]any{"form": fm.name, "args": subst(fm.args, fm.in, outName(nk, fm.json, "<sandbox>"), ""), "name_kind": nk, "baseline_ok": ok})
		}

	case "exists": // output present, no --force
		e.plant(b, fm, out, k.variant, base)
		o := e.run(b, subst(fm.args, fm.in, out, ""), "")
		t.Eval(base + "/exists-" + k.variant)
		t.Count("present_kind/"+k.variant, 1)
		if !e.timedOut(o, fm, "out-exists") {
			e.judgeRefusal(fm, "out-exists", k.variant, nk, o, out, e.baseOK(k), true)
		}

	case "force": // output present + --force
		planted := e.plant(b, fm, out, k.variant, base)
		o := e.run(b, subst(fm.args, fm.in, out, ""), k.pos)
		t.Eval(base + "/force-" + k.variant + "-" + k.pos)
		t.Count("force_combo/"+k.variant+"-"+k.pos, 1)
		if !e.timedOut(o, fm, "force") && e.baseOK(k) {
			e.judgeProceeds(fm, "force", k.variant+"/"+k.pos, nk, o, b, b.path(out), planted, k.child)
		}

	case "alias": // output = input
		sp := fm.in
		if k.spell == 1 {
			sp = "./" + fm.in
		}
		o := e.run(b, subst(fm.args, fm.in, sp, ""), "")
		t.Eval(base + "/alias-" + fmt.Sprint(k.spell))
		if !e.timedOut(o, fm, "out-is-input") {
			e.judgeRefusal(fm, "out-is-input", "alias", nk, o, sp, e.baseOK(k), false)
		}

	case "alias-force":
		o := e.run(b, subst(fm.args, fm.in, fm.in, ""), "first")
		t.Eval(base + "/alias-force")
		if !e.timedOut(o, fm, "out-is-input+force") && e.baseOK(k) {
			if o.res.Exit == 0 {
				if ok, why := e.validOutput(b, fm, b.path(fm.in), k.child); !ok {
					e.violate(fm, "out-is-input+force", "invalid-output", fmt.Sprintf("%q exit 0 but %s", o.args, why), rcOf(o, "alias", nk))
				} else {
					t.Count("proceeded_ok/out-is-input+force", 1)
				}
			} else if len(o.changes) > 0 {
				e.violate(fm, "out-is-input+force", "failed-and-changed", fmt.Sprintf("%q exit %d and the tree changed: %s", o.args, o.res.Exit, clirun.ChangeList(o.changes, 6)), rcOf(o, "alias", nk))
			} else {
				t.Count("declined_unchanged/out-is-input+force", 1)
			}
		}

	case "inplace": // no output named
		o := e.run(b, subst(fm.inplace, fm.in, "", ""), "")
		t.Eval(base + "/inplace")
		if !e.timedOut(o, fm, "inplace") && e.baseOK(k) {
			e.judgeProceeds(fm, "inplace", "", nk, o, b, b.path(fm.in), nil, k.child)
		}

	case "existing-is-input": // merge -m append: the output must exist and is extended
		out := "out.pdf"
		if err := clirun.CopyFile(filepath.Join(e.fx, fm.in), b.path(out), 0o644); err != nil {
			t.Broken("%v", err)
		}
		o := e.run(b, subst(fm.args, fm.in, out, ""), k.pos)
		t.Eval("C04/" + fm.name + "/existing-is-input/" + k.pos)
		if !e.timedOut(o, fm, "inplace") {
			e.judgeProceeds(fm, "inplace", "existing-is-input/"+k.pos, "plain", o, b, b.path(out), nil, k.child)
		}

	default:
		t.Broken("unknown case kind %q", k.sc)
	}
}

// plant creates the pre-existing output; returns its bytes (nil for directory / symlink).
func (e *env) plant(b *box, fm form, out, variant, stream string) []byte {
	p := b.path(out)
	rng := e.t.RNGi(stream+"/plant/"+variant, 0)
	garbage := make([]byte, 64+rng.IntN(512))
	for i := range garbage {
		garbage[i] = byte(rng.IntN(256))
	}
	copy(garbage, "existing ")
	must := func(err error) {
		if err != nil {
			e.t.Broken("plant %s: %v", variant, err)
		}
	}
	validDoc := func() []byte {
		name := opcat.FxOne
		if fm.json {
			name = opcat.FxBMJSON
		}
		bb, err := os.ReadFile(filepath.Join(e.fx, name))
		must(err)
		return bb
	}
	switch variant {
	case "garbage":
		must(os.WriteFile(p, garbage, 0o644))
		return garbage
	case "pdf":
		bb := validDoc()
		must(os.WriteFile(p, bb, 0o640))
		return bb
	case "empty":
		must(os.WriteFile(p, nil, 0o644))
		return []byte{}
	case "readonly":
		must(os.WriteFile(p, garbage, 0o400))
		must(os.Chmod(p, 0o400))
		return garbage
	case "symlink":
		target := filepath.Join(b.sb, "link-target.bin")
		must(os.WriteFile(target, garbage, 0o644))
		must(os.Symlink("link-target.bin", p))
		if filepath.Dir(p) != b.sb {
			_ = os.Remove(p)
			must(os.Symlink(target, p))
		}
		return nil
	case "dir":
		must(os.MkdirAll(filepath.Join(p, "kept"), 0o755))
		must(os.WriteFile(filepath.Join(p, "kept", "file.txt"), []byte("keep me\n"), 0o644))
		return nil
	}
	e.t.Broken("unknown variant %s", variant)
	return nil
}

// judgeRefusal: the output exists and --force is absent.
func (e *env) judgeRefusal(fm form, sc, variant, nk string, o *outcome, out string, baselineOK, needMessage bool) {
	outRel := out
	if filepath.IsAbs(out) {
		outRel = filepath.Base(out)
	}
	outRel = strings.TrimPrefix(filepath.ToSlash(outRel), "./")
	class, what := "", ""
	touchedOut := false
	for _, c := range o.changes {
		if c.Path == outRel || strings.HasPrefix(c.Path, outRel+"/") || c.Path == "link-target.bin" {
			touchedOut = true
		}
	}
	written := "overwritten"
	if sc == "dir-nonempty" {
		// written: files were added to the non-empty directory; overwritten: an entry that was there changed or vanished
		written = "written"
		for _, c := range o.changes {
			if c.Path != outRel && c.Kind != "added" {
				written = "overwritten"
			}
		}
	}
	switch {
	case touchedOut || (sc == "dir-nonempty" && len(o.changes) > 0):
		class, what = written, fmt.Sprintf("exit %d, changes: %s", o.res.Exit, clirun.ChangeList(o.changes, 6))
	case len(o.changes) > 0:
		class, what = "tree-changed", fmt.Sprintf("exit %d, changes: %s", o.res.Exit, clirun.ChangeList(o.changes, 6))
	case o.res.Exit == 0:
		class, what = "exit0", "exit status 0 although the output exists and --force was not given"
	case len(o.mut) > 0:
		m := o.mut[0]
		class, what = "mutating-call", fmt.Sprintf("tree unchanged but the fs-call log shows %d mutating call(s), first: %s %s flag=%#x", len(o.mut), m.Op, m.Path, m.Flag)
	case needMessage && baselineOK && !refusal.Match(o.res.Stderr):
		class, what = "no-refusal-message", fmt.Sprintf("exit %d without a refusal message; stderr: %q", o.res.Exit, clirun.Clip(o.res.Stderr, 200))
	case !needMessage && len(bytes.TrimSpace(o.res.Stderr)) == 0:
		class, what = "no-refusal-message", fmt.Sprintf("exit %d with empty stderr", o.res.Exit)
	}
	if class == "" {
		e.t.Count("refused_ok/"+sc, 1)
		if refusal.Match(o.res.Stderr) {
			e.t.Count("refusal_message_seen", 1)
		}
		return
	}
	e.violate(fm, sc, class, fmt.Sprintf("%q with existing output (%s): %s", o.args, variant, what), rcOf(o, variant, nk))
}

// judgeProceeds: --force or in place: exit 0 and the named file holds a valid result.
func (e *env) judgeProceeds(fm form, sc, variant, nk string, o *outcome, b *box, path string, planted []byte, child bool) {
	if o.res.Exit != 0 {
		e.violate(fm, sc, "failed", fmt.Sprintf("%q must proceed but exit %d: %s", o.args, o.res.Exit, clirun.Clip(o.res.Stderr, 200)), rcOf(o, variant, nk))
		return
	}
	if ok, why := e.validOutput(b, fm, path, child); !ok {
		e.violate(fm, sc, "invalid-output", fmt.Sprintf("%q exit 0 but %s", o.args, why), rcOf(o, variant, nk))
		return
	}
	if planted != nil {
		if now, err := os.ReadFile(path); err == nil && bytes.Equal(now, planted) {
			e.violate(fm, sc, "not-written", fmt.Sprintf("%q exit 0 but the output still holds the pre-existing bytes", o.args), rcOf(o, variant, nk))
			return
		}
	}
	if len(o.mut) > 0 {
		e.t.Count("fs_log_mutating_calls_in_successful_runs", int64(len(o.mut)))
	}
	e.t.Count("proceeded_ok/"+sc, 1)
}

// ---------------------------------------------------------------- directory outputs

func (e *env) runDirCase(k kase) {
	t, fm, nk := e.t, k.fm, k.nk
	base := "C04/" + fm.name + "/" + nk
	b := e.newBox(fm)
	defer b.done()
	dir := dirName(nk, b.sb)
	args := subst(fm.args, fm.in, "", dir)
	dp := b.path(dir)

	switch k.sc {
	case "dir-empty": // baseline
		_ = os.MkdirAll(dp, 0o755)
		o := e.run(b, args, "")
		t.Eval(base + "/dir-empty")
		ok := false
		switch {
		case e.timedOut(o, fm, "dir-empty"):
		case o.res.Exit != 0:
			t.Inconclusive("baseline-failed:" + fm.name)
			fmt.Fprintf(os.Stderr, "C04: baseline of %s failed: exit %d: %s\n", fm.name, o.res.Exit, clirun.Clip(o.res.Stderr, 300))
		default:
			n, v, why := e.validDir(b, fm, dp, k.child)
			switch {
			case !v:
				e.violate(fm, "dir-empty", "invalid-output", fmt.Sprintf("%q exit 0 but %s", o.args, why), rcOf(o, "", nk))
			case n == 0:
				t.Inconclusive("baseline-wrote-nothing:" + fm.name)
			default:
				ok = true
				t.Count("proceeded_ok/dir-empty", 1)
				t.Count("fs_log_mutating_calls_in_successful_runs", int64(len(o.mut)))
			}
		}
		e.setBase(k, ok)
		if k.first {
			t.Sample(map[string]any{"form": fm.name, "args": o.args, "baseline_ok": ok})
		}

	case "dir-missing":
		o := e.run(b, args, "")
		t.Eval(base + "/dir-missing")
		if !e.timedOut(o, fm, "dir-missing") {
			if o.res.Exit == 0 {
				if _, ok, why := e.validDir(b, fm, dp, k.child); !ok {
					e.violate(fm, "dir-missing", "invalid-output", fmt.Sprintf("%q exit 0 but %s", o.args, why), rcOf(o, "", nk))
				} else {
					t.Count("proceeded_ok/dir-missing", 1)
				}
			} else {
				t.Count("failed/dir-missing", 1)
			}
		}

	case "dir-nonempty", "dir-force":
		_ = os.MkdirAll(dp, 0o755)
		switch k.variant {
		case "file":
			_ = os.WriteFile(filepath.Join(dp, "pre-existing.txt"), []byte("keep me\n"), 0o644)
		case "hidden":
			_ = os.WriteFile(filepath.Join(dp, ".pre-existing"), []byte("keep me\n"), 0o644)
		case "subdir":
			_ = os.MkdirAll(filepath.Join(dp, "pre-existing.d"), 0o755)
		case "rerun":
			pre := e.run(b, args, "")
			if pre.res.Exit != 0 || pre.res.TimedOut {
				t.Count("rerun_first_run_failed", 1)
				return
			}
		default:
			t.Broken("unknown directory variant %q", k.variant)
		}
		o := e.run(b, args, k.pos)
		if k.sc == "dir-nonempty" {
			t.Eval(base + "/dir-nonempty-" + k.variant)
			t.Count("nonempty_dir_kind/"+k.variant, 1)
			if !e.timedOut(o, fm, "dir-nonempty") {
				e.judgeRefusal(fm, "dir-nonempty", k.variant, nk, o, dir, e.baseOK(k), true)
			}
			return
		}
		t.Eval(base + "/dir-nonempty-" + k.variant + "-force-" + k.pos)
		if !e.timedOut(o, fm, "dir-nonempty+force") && e.baseOK(k) {
			n, ok, why := e.validDir(b, fm, dp, k.child)
			switch {
			case o.res.Exit != 0:
				e.violate(fm, "dir-nonempty+force", "failed", fmt.Sprintf("%q must proceed but exit %d: %s", o.args, o.res.Exit, clirun.Clip(o.res.Stderr, 200)), rcOf(o, k.variant, nk))
			case !ok:
				e.violate(fm, "dir-nonempty+force", "invalid-output", fmt.Sprintf("%q exit 0 but %s", o.args, why), rcOf(o, k.variant, nk))
			case n == 0 || len(o.changes) == 0:
				e.violate(fm, "dir-nonempty+force", "nothing-written", fmt.Sprintf("%q exit 0 but nothing was written", o.args), rcOf(o, k.variant, nk))
			default:
				t.Count("proceeded_ok/dir-nonempty+force", 1)
			}
		}

	default:
		t.Broken("unknown directory case kind %q", k.sc)
	}
}
