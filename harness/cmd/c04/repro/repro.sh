#!/bin/bash
# Stand-alone reproducer for the C04 findings (no harness code involved).
#   usage: . /verif/env.sh; bash repro.sh [repo-dir]
# 1. cut / ndown / poster / form multifill with "outDir outFile": only outDir/outFile is checked, but the
#    files written are outDir/<outFile>_page_N.pdf (or one file per record): a second run silently
#    overwrites them and a non-empty directory is accepted without --force.
# 2. import writes into (appends to) an existing outFile without --force; with --force it still
#    appends (and fails if the existing file is not a PDF) instead of overwriting.
set -u
REPO=${1:-/repo}
W=$(mktemp -d "${VERIF_CACHE:-/verif/.cache}/run/c04-repro.XXXXXX")
trap 'rm -rf "$W"' EXIT
(cd "$REPO" && "$GO125" build -buildvcs=false -o "$W/pdfcpu" ./cmd/pdfcpu) || exit 2
export HOME=$W XDG_CONFIG_HOME=$W TMPDIR=$W
cd "$W" && mkdir sb && cd sb
cp "$REPO/pkg/testdata/test.pdf" in.pdf
cp "$REPO/pkg/testdata/resources/logoVerySmall.png" img.png
P="$W/pdfcpu --conf disable"

echo "== 1. cut in.pdf out tile  (twice, no --force)"
mkdir out
$P cut -p 1 'hor:.5' in.pdf out tile >/dev/null 2>&1; echo "first run exit=$?"; ls out
sum1=$(sha256sum out/tile_page_1.pdf | cut -c1-16)
sleep 1
$P cut -p 1 'hor:.5' in.pdf out tile >/dev/null 2>&1; echo "second run exit=$? (expected: non-zero, 'refusing to write to non-empty directory')"
sum2=$(sha256sum out/tile_page_1.pdf | cut -c1-16)
echo "out/tile_page_1.pdf before=$sum1 after=$sum2  (differs => silently overwritten)"
echo "-- same without outFile:"
$P cut -p 1 'hor:.5' in.pdf out 2>&1 | head -1

echo "== 2. import onto an existing PDF (no --force)"
cp in.pdf existing.pdf
before=$(sha256sum existing.pdf | cut -c1-16)
$P import existing.pdf img.png 2>&1 | head -2; echo "exit=${PIPESTATUS[0]} (expected: non-zero, 'refusing to overwrite')"
echo "existing.pdf before=$before after=$(sha256sum existing.pdf | cut -c1-16)"
echo "-- with --force onto a non-PDF file:"
echo garbage > g.pdf
$P --force import g.pdf img.png 2>&1 | tail -1; echo "exit=${PIPESTATUS[0]} (expected: 0, file overwritten)"
