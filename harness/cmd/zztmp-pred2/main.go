// temporary scratch program; removed after use
package main

import (
	"bytes"
	"compress/zlib"
	"fmt"
	"os"
	"path/filepath"

	"github.com/pdfcpu/pdfcpu/pkg/api"
	"github.com/pdfcpu/pdfcpu/pkg/pdfcpu/model"
	"github.com/pdfcpu/pdfcpu/pkg/pdfcpu/types"
	"verif/harness/internal/ref/predictor"
)

func deflate(b []byte) []byte {
	var out bytes.Buffer
	w := zlib.NewWriter(&out)
	w.Write(b)
	w.Close()
	return out.Bytes()
}

func main() {
	api.DisableConfigDir()
	dir, _ := os.MkdirTemp(os.Args[1], "p")
	defer os.RemoveAll(dir)
	content := []byte("BT /F1 12 Tf 20 150 Td (original page content 0123456789) Tj ET   ")
	p := predictor.Params{Predictor: 12, Colors: 1, BPC: 8, Columns: 4}
	for len(content)%4 != 0 {
		content = append(content, ' ')
	}
	pred, err := predictor.Encode(p, content, nil)
	if err != nil {
		panic(err)
	}
	raw := deflate(pred)
	for _, variant := range []string{"indirect-dict", "indirect-array", "array-with-indirect-elem"} {
		var objs []string
		objs = append(objs, "<</Type/Catalog/Pages 2 0 R>>")
		objs = append(objs, "<</Type/Pages/Kids[3 0 R]/Count 1>>")
		objs = append(objs, "<</Type/Page/Parent 2 0 R/MediaBox[0 0 200 200]/Contents 4 0 R/Resources<</Font<</F1 5 0 R>>>>>>")
		var sdict string
		switch variant {
		case "indirect-dict":
			sdict = fmt.Sprintf("<</Filter/FlateDecode/DecodeParms 6 0 R/Length %d>>", len(raw))
		case "indirect-array":
			sdict = fmt.Sprintf("<</Filter[/FlateDecode]/DecodeParms 7 0 R/Length %d>>", len(raw))
		case "array-with-indirect-elem":
			sdict = fmt.Sprintf("<</Filter[/FlateDecode]/DecodeParms[6 0 R]/Length %d>>", len(raw))
		}
		objs = append(objs, sdict+"\nstream\n"+string(raw)+"\nendstream")
		objs = append(objs, "<</Type/Font/Subtype/Type1/BaseFont/Helvetica>>")
		objs = append(objs, "<</Predictor 12/Columns 4>>")
		objs = append(objs, "[6 0 R]")
		var b bytes.Buffer
		b.WriteString("%PDF-1.7\n")
		offs := []int{}
		for i, o := range objs {
			offs = append(offs, b.Len())
			fmt.Fprintf(&b, "%d 0 obj\n%s\nendobj\n", i+1, o)
		}
		x := b.Len()
		fmt.Fprintf(&b, "xref\n0 %d\n0000000000 65535 f \n", len(objs)+1)
		for _, o := range offs {
			fmt.Fprintf(&b, "%010d 00000 n \n", o)
		}
		fmt.Fprintf(&b, "trailer\n<</Size %d/Root 1 0 R>>\nstartxref\n%d\n%%%%EOF\n", len(objs)+1, x)
		in := filepath.Join(dir, variant+".pdf")
		out := filepath.Join(dir, variant+"-out.pdf")
		os.WriteFile(in, b.Bytes(), 0o644)
		for _, onTop := range []bool{true, false} {
			wm, err := api.TextWatermark("X", "scale:0.5 abs, points:24", onTop, false, types.POINTS)
			if err != nil {
				panic(err)
			}
			conf := model.NewDefaultConfiguration()
			conf.Offline = true
			err = api.AddWatermarksFile(in, out, nil, wm, conf)
			if err != nil {
				fmt.Println(variant, onTop, "AddWatermarksFile:", err)
				continue
			}
			ctx, err := api.ReadContextFile(out)
			if err == nil {
				err = api.ValidateContext(ctx)
			}
			if err != nil {
				fmt.Println(variant, onTop, "read/validate output:", err)
				continue
			}
			d, _, _, _ := ctx.PageDict(1, false)
			pc, err := ctx.PageContent(d, 1)
			fmt.Println(variant, onTop, "content kept:", bytes.Contains(pc, bytes.TrimRight(content, " ")), "err:", err)
			o, _ := d.Find("Contents")
			sd, _, err := ctx.DereferenceStreamDict(o)
			if err == nil && sd != nil {
				fmt.Println("   written dict:", sd.Dict.PDFString())
			} else {
				fmt.Println("   contents:", o, err)
			}
		}
	}
}
