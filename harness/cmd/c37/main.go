// C37 — form export and fill round-trip.
//
// Forms: (a) generated with pdfcpu's own api.CreateFile from harness-built JSON (every field type, random
// lock flags, defaults, Unicode ids / labels / values, 1..3 pages, core and user fonts), (b) every PDF under
// pkg/samples/form and pkg/testdata from which pdfcpu exports at least one field.
//
//	(i)  export -> fill with exactly the exported JSON -> export: every field value (and lock flag) unchanged.
//	(ii) two consecutive rounds of: export -> replace values by random VALID ones (Unicode text incl. boundary
//	     code points, option members, multi-selections, dates in the field's declared format, booleans, radio
//	     options; some fields left out, some matched by id only / name only) -> fill -> export reports exactly
//	     those values; fields that are read-only and stay read-only keep their previous values.
//	(iii) api.MultiFillFormFile with JSON (several forms in one group) and CSV records: each output's export
//	     equals its record.
//
// Independent view: every filled file is also read with pdfstrict (no pdfcpu code): the /V entry of each
// field, decoded here as a PDF text string / name / array, must agree with what pdfcpu's export reports.
package main

import (
	"bytes"
	"crypto/sha256"
	"encoding/csv"
	"encoding/json"
	"errors"
	"fmt"
	"math/rand/v2"
	"os"
	"path/filepath"
	"regexp"
	"runtime/debug"
	"sort"
	"strconv"
	"strings"
	"sync"

	"github.com/pdfcpu/pdfcpu/pkg/api"
	"github.com/pdfcpu/pdfcpu/pkg/font"
	"github.com/pdfcpu/pdfcpu/pkg/pdfcpu/form"
	"github.com/pdfcpu/pdfcpu/pkg/pdfcpu/model"
	"verif/harness/internal/vk"
)

func newConf() *model.Configuration {
	c := model.NewDefaultConfiguration()
	c.Offline = true
	return c
}

type panicErr struct{ frame, msg string }

func (p panicErr) Error() string { return "panic: " + p.msg + " @ " + p.frame }

func innermostFrame(stack string) string {
	for _, ln := range strings.Split(stack, "\n") {
		if strings.HasPrefix(ln, "github.com/pdfcpu/pdfcpu/") {
			if i := strings.LastIndex(ln, "("); i > 0 {
				ln = ln[:i]
			}
			return strings.TrimPrefix(ln, "github.com/pdfcpu/pdfcpu/")
		}
	}
	return "?"
}

func guard(f func() error) (err error) {
	defer func() {
		if r := recover(); r != nil {
			err = panicErr{innermostFrame(string(debug.Stack())), fmt.Sprint(r)}
		}
	}()
	return f()
}

// ---- flattened view of an exported form

type fstate struct {
	Kind      kind
	ID, Name  string
	Locked    bool
	Multi     bool
	Multiline bool
	Edit      bool
	MaxLen    int
	Format    string
	Options   []string
	Str       string   // text, date, radio, combo
	Vals      []string // list box
	Bool      bool     // checkbox
}

func (f *fstate) kindKey() string {
	switch {
	case f.Kind == kList && f.Multi:
		return "listbox-multi"
	case f.Kind == kText && f.Multiline:
		return "textarea"
	}
	return f.Kind.String()
}

func (f *fstate) valueString() string {
	switch f.Kind {
	case kCheck:
		return strconv.FormatBool(f.Bool)
	case kList:
		return fmt.Sprintf("%q", f.Vals)
	}
	return strconv.Quote(f.Str)
}

type snapshot struct {
	fields map[string]*fstate // key: name (unique) or name#id
	order  []string
	dup    bool
}

func flatten(fg *form.FormGroup) *snapshot {
	s := &snapshot{fields: map[string]*fstate{}}
	if fg == nil || len(fg.Forms) == 0 {
		return s
	}
	var all []*fstate
	f := fg.Forms[0]
	for _, x := range f.TextFields {
		all = append(all, &fstate{Kind: kText, ID: x.ID, Name: x.Name, Locked: x.Locked, Multiline: x.Multiline, MaxLen: x.MaxLen, Str: x.Value})
	}
	for _, x := range f.DateFields {
		all = append(all, &fstate{Kind: kDate, ID: x.ID, Name: x.Name, Locked: x.Locked, Format: x.Format, Str: x.Value})
	}
	for _, x := range f.CheckBoxes {
		all = append(all, &fstate{Kind: kCheck, ID: x.ID, Name: x.Name, Locked: x.Locked, Bool: x.Value})
	}
	for _, x := range f.RadioButtonGroups {
		all = append(all, &fstate{Kind: kRadio, ID: x.ID, Name: x.Name, Locked: x.Locked, Options: x.Options, Str: x.Value})
	}
	for _, x := range f.ComboBoxes {
		all = append(all, &fstate{Kind: kCombo, ID: x.ID, Name: x.Name, Locked: x.Locked, Options: x.Options, Edit: x.Editable, Str: x.Value})
	}
	for _, x := range f.ListBoxes {
		all = append(all, &fstate{Kind: kList, ID: x.ID, Name: x.Name, Locked: x.Locked, Options: x.Options, Multi: x.Multi, Vals: x.Values})
	}
	names := map[string]int{}
	for _, x := range all {
		names[x.Name]++
	}
	for _, x := range all {
		k := x.Name
		if names[x.Name] > 1 || x.Name == "" {
			k = x.Name + "#" + x.ID
			s.dup = true
		}
		if _, exists := s.fields[k]; exists {
			continue
		}
		s.fields[k] = x
		s.order = append(s.order, k)
	}
	sort.Strings(s.order)
	return s
}

func sameSet(a, b []string) bool {
	if len(a) != len(b) {
		return false
	}
	x := append([]string(nil), a...)
	y := append([]string(nil), b...)
	sort.Strings(x)
	sort.Strings(y)
	for i := range x {
		if x[i] != y[i] {
			return false
		}
	}
	return true
}

func sameValue(a, b *fstate) bool {
	switch a.Kind {
	case kCheck:
		return a.Bool == b.Bool
	case kList:
		return sameSet(a.Vals, b.Vals)
	}
	return a.Str == b.Str
}

// ---- pdfcpu calls

func exportForm(pdf, scratchJSON string, viaFile bool) (fg *form.FormGroup, raw []byte, err error) {
	err = guard(func() error {
		if viaFile {
			if e := api.ExportFormFile(pdf, scratchJSON, newConf()); e != nil {
				return e
			}
			b, e := os.ReadFile(scratchJSON)
			if e != nil {
				return e
			}
			raw = b
			g := &form.FormGroup{}
			if e := json.Unmarshal(b, g); e != nil {
				return fmt.Errorf("exported JSON does not parse: %v", e)
			}
			fg = g
			return nil
		}
		f, e := os.Open(pdf)
		if e != nil {
			return e
		}
		defer f.Close()
		g, e := api.ExportForm(f, pdf, newConf())
		if e != nil {
			return e
		}
		fg = g
		raw, e = json.Marshal(g)
		return e
	})
	return fg, raw, err
}

func fillForm(pdf, jsonFile, out string, viaFile bool) error {
	return guard(func() error {
		if viaFile {
			return api.FillFormFile(pdf, jsonFile, out, newConf())
		}
		in, err := os.Open(pdf)
		if err != nil {
			return err
		}
		defer in.Close()
		js, err := os.Open(jsonFile)
		if err != nil {
			return err
		}
		defer js.Close()
		var buf bytes.Buffer
		if err := api.FillForm(in, js, &buf, newConf()); err != nil {
			return err
		}
		return os.WriteFile(out, buf.Bytes(), 0o644)
	})
}

var reDigits = regexp.MustCompile(`[0-9]+`)
var reQuoted = regexp.MustCompile(`"[^"]*"|'[^']*'|<[^>]*>`)

// errClass turns an error text into a stable key part (no object numbers, field names, values).
func errClass(err error) string {
	if pe, ok := err.(panicErr); ok {
		return "panic=" + pe.frame
	}
	s := err.Error()
	s = reQuoted.ReplaceAllString(s, "_")
	s = reDigits.ReplaceAllString(s, "N")
	var kept []string
	for _, part := range strings.Split(s, ": ") {
		part = strings.TrimSpace(part)
		if part == "" || strings.ContainsAny(part, "/\\") && strings.Contains(part, ".") {
			continue
		}
		kept = append(kept, part)
	}
	s = strings.Join(kept, ":")
	s = strings.Map(func(r rune) rune {
		switch {
		case r >= 'a' && r <= 'z', r >= 'A' && r <= 'Z', r == ':', r == '_', r == '-':
			return r
		case r == ' ':
			return '_'
		}
		return -1
	}, s)
	if len(s) > 100 {
		s = s[:100]
	}
	return s
}

// ---- a fill plan: what is written into the JSON and what the export must report afterwards

type planned struct {
	Key      string `json:"key"`
	Kind     string `json:"kind"`
	Class    string `json:"class,omitempty"` // character class (text) / "option" / "date" ...
	Old      string `json:"old"`
	New      string `json:"new"`
	WasLock  bool   `json:"was_locked,omitempty"`
	JSONLock bool   `json:"json_locked,omitempty"`
	Omitted  bool   `json:"omitted,omitempty"` // left out of the fill JSON
	MatchBy  string `json:"match_by,omitempty"`

	old, want *fstate
}

type plan struct {
	Items   []*planned
	changes int // unlocked fields whose value differs from the current one
	touched int // anything that makes pdfcpu report "affected" (value change or lock flag change)
}

func cloneState(f *fstate) *fstate {
	c := *f
	c.Vals = append([]string(nil), f.Vals...)
	return &c
}

// newValue draws a valid value for field f; returns the new state and a class label.
func newValue(r *rand.Rand, f *fstate, csvMode bool) (*fstate, string) {
	n := cloneState(f)
	switch f.Kind {
	case kText:
		v, class := textValue(r, f.Multiline, f.MaxLen, csvMode)
		n.Str = v
		return n, class
	case kDate:
		if f.Format == "" || layoutFor(f.Format) == "" {
			return n, "keep"
		}
		if !csvMode && r.IntN(25) == 0 {
			n.Str = ""
			return n, "empty"
		}
		n.Str = randDate(r, f.Format)
		return n, "date"
	case kCheck:
		n.Bool = r.IntN(2) == 0
		return n, "bool"
	case kRadio:
		if len(f.Options) == 0 {
			return n, "keep"
		}
		n.Str = pick(r, f.Options)
		return n, "option"
	case kCombo:
		if len(f.Options) == 0 {
			return n, "keep"
		}
		n.Str = pick(r, f.Options)
		return n, "option"
	case kList:
		if len(f.Options) == 0 {
			return n, "keep"
		}
		if f.Multi {
			k := 1 + r.IntN(len(f.Options))
			if r.IntN(3) == 0 {
				k = 1
			}
			n.Vals = subset(r, f.Options, k)
			return n, fmt.Sprintf("select%d", min(k, 3))
		}
		n.Vals = []string{pick(r, f.Options)}
		return n, "option"
	}
	return n, "keep"
}

func csvUsable(f *fstate) bool {
	if strings.ContainsAny(f.Name, ",*@\"\n") || f.Name == "" {
		return false
	}
	for _, o := range f.Options {
		if strings.ContainsAny(o, ",") || strings.HasPrefix(o, "*") {
			return false
		}
	}
	return true
}

// makePlan decides per field what to write. mode: "json" | "csv".
func makePlan(r *rand.Rand, cur *snapshot, mode string) *plan {
	p := &plan{}
	for _, k := range cur.order {
		f := cur.fields[k]
		it := &planned{Key: k, Kind: f.kindKey(), WasLock: f.Locked, old: f, Old: f.valueString()}
		omitP := 6
		if mode == "csv" {
			omitP = 3
		}
		if r.IntN(omitP) == 0 || (mode == "csv" && (!csvUsable(f) || f.Locked)) {
			// CSV: a listed column always carries a lock flag (false unless '*'), so locked fields are left out
			it.Omitted, it.want, it.New = true, f, f.valueString()
			p.Items = append(p.Items, it)
			continue
		}
		nv, class := newValue(r, f, mode == "csv")
		if r.IntN(6) == 0 {
			nv, class = cloneState(f), "keep"
		}
		it.Class = class
		it.JSONLock = f.Locked
		if mode == "json" {
			switch {
			case f.Locked && r.IntN(5) == 0:
				it.JSONLock = false // unlock request
			case !f.Locked && r.IntN(10) == 0:
				it.JSONLock = true // lock after filling
			}
			switch r.IntN(8) {
			case 0:
				it.MatchBy = "id"
			case 1:
				it.MatchBy = "name"
			}
		}
		it.want = nv
		it.New = nv.valueString()
		if it.JSONLock != f.Locked {
			p.touched++
		}
		if !sameValue(nv, f) {
			p.touched++
			if !f.Locked {
				p.changes++
			}
		}
		p.Items = append(p.Items, it)
	}
	return p
}

// fillJSON renders the plan as a pdfcpu form JSON (one form).
func (p *plan) form() form.Form {
	var f form.Form
	for _, it := range p.Items {
		if it.Omitted {
			continue
		}
		o, w := it.old, it.want
		id, name := o.ID, o.Name
		switch it.MatchBy {
		case "id":
			name = ""
		case "name":
			id = ""
		}
		switch o.Kind {
		case kText:
			f.TextFields = append(f.TextFields, &form.TextField{Pages: []int{1}, ID: id, Name: name, Value: w.Str, Multiline: o.Multiline, Locked: it.JSONLock})
		case kDate:
			f.DateFields = append(f.DateFields, &form.DateField{Pages: []int{1}, ID: id, Name: name, Format: o.Format, Value: w.Str, Locked: it.JSONLock})
		case kCheck:
			f.CheckBoxes = append(f.CheckBoxes, &form.CheckBox{Pages: []int{1}, ID: id, Name: name, Value: w.Bool, Locked: it.JSONLock})
		case kRadio:
			f.RadioButtonGroups = append(f.RadioButtonGroups, &form.RadioButtonGroup{Pages: []int{1}, ID: id, Name: name, Options: o.Options, Value: w.Str, Locked: it.JSONLock})
		case kCombo:
			f.ComboBoxes = append(f.ComboBoxes, &form.ComboBox{Pages: []int{1}, ID: id, Name: name, Options: o.Options, Editable: o.Edit, Value: w.Str, Locked: it.JSONLock})
		case kList:
			f.ListBoxes = append(f.ListBoxes, &form.ListBox{Pages: []int{1}, ID: id, Name: name, Options: o.Options, Multi: o.Multi, Values: w.Vals, Locked: it.JSONLock})
		}
	}
	return f
}

// ---- the worker

type caseID struct {
	Mode   string   `json:"mode"` // "gen" | "sample"
	Index  int      `json:"index"`
	Sample string   `json:"sample,omitempty"`
	Step   string   `json:"step,omitempty"`
	Form   *genForm `json:"form,omitempty"`
	Plan   any      `json:"plan,omitempty"`
}

type runner struct {
	t       *vk.T
	scratch string
	mu      sync.Mutex
	notes   map[string]int
}

func (rn *runner) note(kind, detail string) {
	rn.mu.Lock()
	defer rn.mu.Unlock()
	if rn.notes[kind] < 3 {
		rn.notes[kind]++
		fmt.Fprintf(os.Stderr, "note[%s]: %s\n", kind, oneLine(detail, 400))
	}
}

func oneLine(s string, n int) string {
	s = strings.ReplaceAll(s, "\n", " | ")
	if len(s) > n {
		s = s[:n] + "…"
	}
	return s
}

// checkExport compares the export after a fill with the plan; prefix distinguishes the API path.
func (rn *runner) checkExport(prefix string, p *plan, got *snapshot, cid caseID) {
	t := rn.t
	for _, it := range p.Items {
		g := got.fields[it.Key]
		if g == nil {
			t.Violate(prefix+"field="+it.Kind+"/class=field-missing-after-fill",
				fmt.Sprintf("field %q (%s) is no longer exported after the fill", it.Key, it.Kind), cid)
			continue
		}
		o, w := it.old, it.want
		lockTag := ""
		switch {
		case it.Omitted:
			// not in the fill data: the value must not change
			if !sameValue(g, o) {
				t.Violate(prefix+"field="+it.Kind+"/class=unlisted-field-changed",
					fmt.Sprintf("field %q not contained in the fill data changed from %s to %s", it.Key, o.valueString(), g.valueString()), cid)
			}
			t.Count("checked_unlisted", 1)
			continue
		case o.Locked && it.JSONLock:
			// read-only before and after: keeps its value
			t.Count("checked_locked", 1)
			if !sameValue(g, o) {
				t.Violate(prefix+"field="+it.Kind+"/locked/class=locked-field-changed",
					fmt.Sprintf("read-only field %q (locked in the PDF and in the fill data) changed from %s to %s (fill data value %s)", it.Key, o.valueString(), g.valueString(), w.valueString()), cid)
			}
			continue
		case o.Locked && !it.JSONLock:
			// unlock request: pdfcpu unlocks; whether the value is also taken is not fixed by the property
			t.Count("checked_unlock_request", 1)
			if !sameValue(g, o) && !sameValue(g, w) {
				t.Violate(prefix+"field="+it.Kind+"/unlock/class=value-mismatch",
					fmt.Sprintf("field %q (unlock request) reports %s, neither the previous %s nor the filled %s", it.Key, g.valueString(), o.valueString(), w.valueString()), cid)
			}
			continue
		case !o.Locked && it.JSONLock:
			lockTag = "lock-after/"
		}
		t.Count("checked_filled", 1)
		t.Count("filled_"+it.Kind, 1)
		if it.Class != "" {
			t.Count("class_"+it.Class, 1)
		}
		if !sameValue(g, w) {
			cl := ""
			if o.Kind == kText {
				cl = "chars=" + it.Class + "/"
			}
			t.Violate(prefix+"field="+it.Kind+"/"+lockTag+cl+"class=value-mismatch",
				fmt.Sprintf("field %q filled with %s (was %s) is exported as %s", it.Key, w.valueString(), o.valueString(), g.valueString()), cid)
		} else if o.Kind == kList && o.Multi && fmt.Sprint(g.Vals) != fmt.Sprint(w.Vals) {
			t.Count("multiselect_order_differs", 1)
		}
	}
}

// checkStrict: /V as stored (pdfstrict) against pdfcpu's export of the same file.
func (rn *runner) checkStrict(prefix, pdf string, got *snapshot, cid caseID) {
	t := rn.t
	data, err := os.ReadFile(pdf)
	if err != nil {
		return
	}
	sf, err := readStrictForm(data)
	if err != nil {
		t.Count("strict_unreadable", 1)
		rn.note("strict-unreadable", pdf+": "+err.Error())
		return
	}
	for _, k := range got.order {
		g := got.fields[k]
		s := sf.lookup(g.ID, g.Name)
		if s == nil {
			t.Count("strict_field_not_located", 1)
			continue
		}
		t.Count("strict_fields_compared", 1)
		bad := func(class, what string) {
			t.Violate(prefix+"strict/field="+g.kindKey()+"/class="+class, fmt.Sprintf("field %q: %s", k, what), cid)
		}
		if s.VBad {
			bad("v-not-a-text-string", fmt.Sprintf("/V is not a decodable PDF text string (export reports %s)", g.valueString()))
			continue
		}
		switch g.Kind {
		case kText, kDate:
			switch {
			case !s.HasV:
				if g.Str != "" {
					bad("v-differs-from-export", fmt.Sprintf("no /V in the file, export reports %s", g.valueString()))
				}
			case s.VKind != "string":
				t.Count("strict_v_other_type", 1)
			case s.VStrings[0] != g.Str:
				bad("v-differs-from-export", fmt.Sprintf("/V decodes to %q, export reports %q", s.VStrings[0], g.Str))
			}
		case kCheck:
			on := s.HasV && s.VKind == "name" && s.VName != "Off" && s.VName != ""
			if on != g.Bool {
				bad("v-differs-from-export", fmt.Sprintf("/V is /%s (present=%v), export reports %v", s.VName, s.HasV, g.Bool))
			}
		case kRadio:
			v := ""
			if s.HasV && s.VKind == "name" && s.VName != "Off" {
				v = s.VName
				if len(s.Opt) > 0 {
					if i, err := strconv.Atoi(v); err == nil && i >= 0 && i < len(s.Opt) {
						v = s.Opt[i]
					}
				}
			}
			if v != g.Str {
				// pdfcpu keeps names in their #xx-encoded form internally and encodes them again on writing, so a
				// radio state "x#y" is stored as the name "x#23y" (file bytes /x#2323y). The property is about the
				// exported JSON; the stored spelling is only counted here (name encoding belongs to C12).
				if dv, ok := decodeNameOnce(v); ok && dv == g.Str {
					t.Count("strict_radio_name_stored_double_encoded", 1)
				} else {
					bad("v-differs-from-export", fmt.Sprintf("/V is /%s (Opt %q), export reports %q", s.VName, s.Opt, g.Str))
				}
			}
		case kCombo:
			v := ""
			if s.HasV && s.VKind == "string" {
				v = s.VStrings[0]
			} else if s.HasV {
				t.Count("strict_v_other_type", 1)
				continue
			}
			if strings.TrimSpace(v) != strings.TrimSpace(g.Str) {
				bad("v-differs-from-export", fmt.Sprintf("/V decodes to %q, export reports %q", v, g.Str))
			}
		case kList:
			var v []string
			if s.HasV && (s.VKind == "string" || s.VKind == "array") {
				v = s.VStrings
			} else if s.HasV {
				t.Count("strict_v_other_type", 1)
				continue
			}
			a, b := trimAll(v), trimAll(g.Vals) // empty strings dropped: CSV cannot express "no selection" other than by an empty cell
			if !sameSet(a, b) {
				bad("v-differs-from-export", fmt.Sprintf("/V decodes to %q, export reports %q", v, g.Vals))
			}
		}
	}
}

// decodeNameOnce resolves #xx sequences in a name that has already been decoded once.
func decodeNameOnce(s string) (string, bool) {
	var b []byte
	for i := 0; i < len(s); i++ {
		if s[i] != '#' {
			b = append(b, s[i])
			continue
		}
		if i+2 >= len(s) {
			return "", false
		}
		v, err := strconv.ParseUint(s[i+1:i+3], 16, 8)
		if err != nil {
			return "", false
		}
		b = append(b, byte(v))
		i += 2
	}
	return string(b), true
}

func trimAll(s []string) []string {
	var out []string
	for _, x := range s {
		if x = strings.TrimSpace(x); x != "" {
			out = append(out, x)
		}
	}
	return out
}

func shapeKey(parts ...string) string {
	h := sha256.Sum256([]byte(strings.Join(parts, "|")))
	return fmt.Sprintf("%x", h[:8])
}

func (p *plan) shape() string {
	var parts []string
	for _, it := range p.Items {
		parts = append(parts, fmt.Sprintf("%s:%s:%v:%v:%v:%s", it.Kind, it.Class, it.WasLock, it.JSONLock, it.Omitted, it.MatchBy))
	}
	sort.Strings(parts)
	return strings.Join(parts, ",")
}

// roundTripSame: property part (i).
func (rn *runner) roundTripSame(dir, pdf string, base *snapshot, rawJSON []byte, viaFile bool, cid caseID) {
	t := rn.t
	cid.Step = "same-fill"
	jf := filepath.Join(dir, "same.json")
	if err := os.WriteFile(jf, rawJSON, 0o644); err != nil {
		t.Broken("write: %v", err)
	}
	out := filepath.Join(dir, "same.pdf")
	err := fillForm(pdf, jf, out, viaFile)
	switch {
	case err == nil:
	case errors.Is(err, api.ErrNoFormFieldsAffected):
		// pdfcpu found nothing to change and wrote nothing: the values are trivially unchanged
		t.Count("samefill_nothing_to_do", 1)
		t.Eval("")
		return
	default:
		t.Violate("roundtrip/fill-error/"+errClass(err), fmt.Sprintf("filling %s with its own export fails: %v", filepath.Base(pdf), err), cid)
		t.Eval("")
		return
	}
	fg, _, err := exportForm(out, filepath.Join(dir, "same-exp.json"), viaFile)
	if err != nil {
		t.Violate("roundtrip/export-error/"+errClass(err), fmt.Sprintf("export after filling with the own export fails: %v", err), cid)
		return
	}
	got := flatten(fg)
	for _, k := range base.order {
		o := base.fields[k]
		g := got.fields[k]
		if g == nil {
			t.Violate("roundtrip/field="+o.kindKey()+"/class=field-missing-after-fill", fmt.Sprintf("field %q is gone after filling the form with its own export", k), cid)
			continue
		}
		if !sameValue(o, g) {
			t.Violate("roundtrip/field="+o.kindKey()+"/class=value-changed",
				fmt.Sprintf("field %q changed from %s to %s by filling the form with its own export", k, o.valueString(), g.valueString()), cid)
		}
		if o.Locked != g.Locked {
			t.Violate("roundtrip/field="+o.kindKey()+"/class=lock-changed",
				fmt.Sprintf("field %q: locked %v -> %v by filling the form with its own export", k, o.Locked, g.Locked), cid)
		}
	}
	rn.checkStrict("roundtrip/", out, got, cid)
	t.Count("samefill_written", 1)
	t.Eval("same:" + shapeKey(fmt.Sprint(len(base.order)), cid.Sample, fmt.Sprint(viaFile)))
}

// fillRounds: property part (ii).
func (rn *runner) fillRounds(r *rand.Rand, dir, pdf string, base *snapshot, rounds int, cid caseID) {
	t := rn.t
	cur, curSnap := pdf, base
	for round := 1; round <= rounds; round++ {
		viaFile := r.IntN(2) == 0
		p := makePlan(r, curSnap, "json")
		cid.Step = fmt.Sprintf("fill-round-%d", round)
		cid.Plan = p.Items
		fg := form.FormGroup{Header: form.Header{Source: filepath.Base(cur), Version: "verif"}, Forms: []form.Form{p.form()}}
		b, _ := json.MarshalIndent(fg, "", "\t")
		jf := filepath.Join(dir, fmt.Sprintf("fill%d.json", round))
		if err := os.WriteFile(jf, b, 0o644); err != nil {
			t.Broken("write: %v", err)
		}
		out := filepath.Join(dir, fmt.Sprintf("filled%d.pdf", round))
		err := fillForm(cur, jf, out, viaFile)
		if err != nil {
			if errors.Is(err, api.ErrNoFormFieldsAffected) && p.changes == 0 {
				t.Count("fill_nothing_to_do", 1)
				t.Eval("")
				continue
			}
			if errors.Is(err, api.ErrNoFormFieldsAffected) {
				t.Violate("fill/class=nothing-affected", fmt.Sprintf("fill reports that no field was affected although %d unlocked fields get new values", p.changes), cid)
			} else {
				t.Violate("fill-error/"+errClass(err), fmt.Sprintf("fill with valid values fails: %v", err), cid)
			}
			t.Eval("")
			return
		}
		efg, _, err := exportForm(out, filepath.Join(dir, fmt.Sprintf("exp%d.json", round)), viaFile)
		if err != nil {
			t.Violate("export-error/"+errClass(err), fmt.Sprintf("export after fill fails: %v", err), cid)
			t.Eval("")
			return
		}
		got := flatten(efg)
		rn.checkExport("", p, got, cid)
		rn.checkStrict("", out, got, cid)
		if round == 1 {
			t.Sample(map[string]any{"form": cid.Sample, "index": cid.Index, "step": cid.Step, "plan": firstN(p.Items, 4)})
		}
		t.Eval("fill:" + shapeKey(p.shape(), fmt.Sprint(viaFile)))
		cur, curSnap = out, got
	}
}

func firstN[T any](s []T, n int) []T {
	if len(s) > n {
		return s[:n]
	}
	return s
}

// multiFill: api.MultiFillFormFile (JSON group with several forms / CSV records).
func (rn *runner) multiFill(r *rand.Rand, dir, pdf string, base *snapshot, mode string, cid caseID) {
	t := rn.t
	n := 2 + r.IntN(2)
	var plans []*plan
	for len(plans) < n {
		p := makePlan(r, base, mode)
		if p.changes == 0 {
			// a record that changes nothing makes pdfcpu abort the whole run ("no form fields affected")
			usable := false
			for _, it := range p.Items {
				if !it.Omitted && !it.WasLock {
					usable = true
				}
			}
			if !usable && len(plans) == 0 {
				if mode == "json" {
					return
				}
				// CSV: maybe no usable column at all
				cnt := 0
				for _, k := range base.order {
					if f := base.fields[k]; csvUsable(f) && !f.Locked {
						cnt++
					}
				}
				if cnt == 0 {
					return
				}
			}
			continue
		}
		plans = append(plans, p)
	}
	outDir := filepath.Join(dir, "multi-"+mode)
	if err := os.MkdirAll(outDir, 0o755); err != nil {
		t.Broken("mkdir: %v", err)
	}
	var dataFile string
	var outs []string
	cid.Step = "multifill-" + mode
	switch mode {
	case "json":
		fg := form.FormGroup{Header: form.Header{Source: filepath.Base(pdf), Version: "verif"}}
		for i, p := range plans {
			f := p.form()
			if r.IntN(3) == 0 {
				f.FileName = fmt.Sprintf("named%d", i+1)
				outs = append(outs, filepath.Join(outDir, f.FileName+".pdf"))
			} else {
				outs = append(outs, filepath.Join(outDir, fmt.Sprintf("out_%02d.pdf", i+1)))
			}
			fg.Forms = append(fg.Forms, f)
		}
		b, _ := json.MarshalIndent(fg, "", "\t")
		dataFile = filepath.Join(dir, "multi.json")
		if err := os.WriteFile(dataFile, b, 0o644); err != nil {
			t.Broken("write: %v", err)
		}
	case "csv":
		// one header for all records: the union of the listed columns; a record that does not want to change a
		// listed field repeats its current value
		cols := map[string]bool{}
		for _, p := range plans {
			for _, it := range p.Items {
				if !it.Omitted {
					cols[it.Key] = true
				}
			}
		}
		var header []string
		for _, k := range base.order {
			if cols[k] {
				header = append(header, k)
			}
		}
		var buf bytes.Buffer
		w := csv.NewWriter(&buf)
		hdr := make([]string, len(header))
		for i, k := range header {
			hdr[i] = base.fields[k].Name
		}
		_ = w.Write(hdr)
		for i, p := range plans {
			byKey := map[string]*planned{}
			for _, it := range p.Items {
				byKey[it.Key] = it
			}
			rec := make([]string, len(header))
			for j, k := range header {
				it := byKey[k]
				if it.Omitted { // listed because of another record: keep the current value explicitly
					it.Omitted, it.Class = false, "keep"
				}
				rec[j] = csvCell(it.want)
			}
			_ = w.Write(rec)
			outs = append(outs, filepath.Join(outDir, fmt.Sprintf("out_%02d.pdf", i+1)))
		}
		w.Flush()
		dataFile = filepath.Join(dir, "multi.csv")
		if err := os.WriteFile(dataFile, buf.Bytes(), 0o644); err != nil {
			t.Broken("write: %v", err)
		}
		// CSV cells with an empty text value: "a,,b" — FieldMap yields [""] which clears the field: fine.
	}
	var planItems []any
	for _, p := range plans {
		planItems = append(planItems, p.Items)
	}
	cid.Plan = planItems
	err := guard(func() error { return api.MultiFillFormFile(pdf, dataFile, outDir, "out.pdf", false, newConf()) })
	if err != nil {
		t.Violate("multifill="+mode+"/fill-error/"+errClass(err), fmt.Sprintf("MultiFillFormFile(%s) with valid records fails: %v", mode, err), cid)
		t.Eval("")
		return
	}
	for i, p := range plans {
		efg, _, err := exportForm(outs[i], filepath.Join(dir, "multi-exp.json"), true)
		if err != nil {
			t.Violate("multifill="+mode+"/export-error/"+errClass(err), fmt.Sprintf("record %d: export of %s fails: %v", i+1, filepath.Base(outs[i]), err), cid)
			continue
		}
		got := flatten(efg)
		rn.checkExport("multifill="+mode+"/", p, got, cid)
		rn.checkStrict("multifill="+mode+"/", outs[i], got, cid)
		t.Count("multifill_outputs_"+mode, 1)
		t.Eval("multi:" + mode + ":" + shapeKey(p.shape()))
	}
}

func csvCell(w *fstate) string {
	switch w.Kind {
	case kCheck:
		if w.Bool {
			return "true"
		}
		return "false"
	case kList:
		return strings.Join(w.Vals, ",")
	}
	return w.Str
}

// ---- cases

func (rn *runner) genCase(i int) {
	t := rn.t
	r := t.RNGi("gen", i)
	gf := randomForm(r)
	dir := filepath.Join(rn.scratch, fmt.Sprintf("g%05d", i))
	if err := os.MkdirAll(dir, 0o755); err != nil {
		t.Broken("mkdir: %v", err)
	}
	defer cleanupDir(dir)
	cid := caseID{Mode: "gen", Index: i, Form: gf}
	def, _ := json.MarshalIndent(gf.createJSON(r), "", " ")
	defFile := filepath.Join(dir, "def.json")
	if err := os.WriteFile(defFile, def, 0o644); err != nil {
		t.Broken("write: %v", err)
	}
	pdf := filepath.Join(dir, "form.pdf")
	if err := guard(func() error { return api.CreateFile("", defFile, pdf, newConf()) }); err != nil {
		t.Count("create_failed", 1)
		rn.note("create-failed", fmt.Sprintf("case %d: %v | %s", i, err, string(def)))
		return
	}
	t.Count("forms_created", 1)
	viaFile := r.IntN(2) == 0
	fg, raw, err := exportForm(pdf, filepath.Join(dir, "exp0.json"), viaFile)
	if err != nil {
		t.Violate("export-error/"+errClass(err), fmt.Sprintf("export of a freshly created form fails: %v", err), cid)
		return
	}
	base := flatten(fg)
	rn.sanityAgainstSpec(gf, base, i)
	rn.checkStrict("created/", pdf, base, cid)
	rn.roundTripSame(dir, pdf, base, raw, viaFile, cid)
	rn.fillRounds(r, dir, pdf, base, 2, cid)
	switch i % 4 {
	case 0:
		rn.multiFill(r, dir, pdf, base, "json", cid)
	case 1:
		rn.multiFill(r, dir, pdf, base, "csv", cid)
	}
}

// sanityAgainstSpec: what the harness asked Create for vs the first export. Not part of the property (it is
// about fill/export); differences are counted and printed so a misunderstanding of the schema is visible.
func (rn *runner) sanityAgainstSpec(gf *genForm, base *snapshot, i int) {
	t := rn.t
	for _, g := range gf.Fields {
		f := base.fields[g.ID]
		if f == nil {
			t.Count("created_field_not_exported", 1)
			rn.note("created-field-not-exported", fmt.Sprintf("case %d field %q (%s)", i, g.ID, g.Kind))
			continue
		}
		ok := f.Kind == g.Kind && f.Locked == g.Locked
		// pdfcpu's Create initialises a field without value from its default
		switch g.Kind {
		case kText, kDate, kRadio, kCombo:
			ok = ok && (f.Str == g.Value || (g.Value == "" && f.Str == g.Default))
		case kCheck:
			ok = ok && (f.Bool == g.Checked || (!g.Checked && g.DefCheck))
		case kList:
			switch {
			case g.Multi && len(g.Values) > 0:
				ok = ok && sameSet(f.Vals, g.Values)
			case g.Multi:
				ok = ok && (len(f.Vals) == 0 || sameSet(f.Vals, g.Defaults))
			case g.Value != "":
				ok = ok && sameSet(f.Vals, []string{g.Value})
			default:
				ok = ok && (len(f.Vals) == 0 || sameSet(f.Vals, []string{g.Default}))
			}
		}
		if !ok {
			t.Count("created_vs_export_differs", 1)
			rn.note("created-vs-export", fmt.Sprintf("case %d field %q kind %s/%s locked %v/%v value %q/%v -> %s", i, g.ID, g.Kind, f.Kind, g.Locked, f.Locked, g.Value, g.Values, f.valueString()))
		}
	}
}

func (rn *runner) sampleCase(i int, path string, rep int) {
	t := rn.t
	r := t.RNGi("sample:"+filepath.Base(filepath.Dir(path))+"/"+filepath.Base(path), rep)
	dir := filepath.Join(rn.scratch, fmt.Sprintf("s%04d-%d", i, rep))
	if err := os.MkdirAll(dir, 0o755); err != nil {
		t.Broken("mkdir: %v", err)
	}
	defer cleanupDir(dir)
	rel, _ := filepath.Rel(vk.RepoDir(), path)
	cid := caseID{Mode: "sample", Index: rep, Sample: rel}
	pdf := filepath.Join(dir, "in.pdf")
	b, err := os.ReadFile(path)
	if err != nil {
		return
	}
	if err := os.WriteFile(pdf, b, 0o644); err != nil {
		t.Broken("write: %v", err)
	}
	viaFile := r.IntN(2) == 0
	fg, raw, err := exportForm(pdf, filepath.Join(dir, "exp0.json"), viaFile)
	if err != nil {
		t.Count("sample_without_exportable_form", 1)
		return
	}
	base := flatten(fg)
	if len(base.order) == 0 {
		t.Count("sample_without_exportable_form", 1)
		return
	}
	t.Count("sample_forms", 1)
	if rep == 0 {
		rn.roundTripSame(dir, pdf, base, raw, viaFile, cid)
	}
	rn.fillRounds(r, dir, pdf, base, 2, cid)
	if rep%3 == 1 {
		rn.multiFill(r, dir, pdf, base, "json", cid)
	}
	if rep%3 == 2 {
		rn.multiFill(r, dir, pdf, base, "csv", cid)
	}
}

func cleanupDir(dir string) {
	if os.Getenv("VERIF_KEEP") == "" {
		_ = os.RemoveAll(dir)
	}
}

func findSamples() []string {
	var out []string
	root := vk.RepoDir()
	_ = filepath.WalkDir(filepath.Join(root, "pkg", "samples", "form"), func(p string, d os.DirEntry, err error) error {
		if err == nil && !d.IsDir() && strings.HasSuffix(strings.ToLower(p), ".pdf") {
			out = append(out, p)
		}
		return nil
	})
	ents, _ := os.ReadDir(filepath.Join(root, "pkg", "testdata"))
	for _, e := range ents {
		if !e.IsDir() && strings.HasSuffix(strings.ToLower(e.Name()), ".pdf") {
			p := filepath.Join(root, "pkg", "testdata", e.Name())
			if b, err := os.ReadFile(p); err == nil && bytes.Contains(b, []byte("/AcroForm")) {
				out = append(out, p)
			}
		}
	}
	sort.Strings(out)
	return out
}

func main() {
	vk.Run("C37", "exploration", func(t *vk.T) {
		api.DisableConfigDir()
		scratch := t.Scratch()
		fontDir := filepath.Join(scratch, "fonts")
		if err := os.MkdirAll(fontDir, 0o755); err != nil {
			t.Broken("mkdir: %v", err)
		}
		font.UserFontDir = fontDir
		var ttfs []string
		for _, n := range []string{"Roboto-Regular.ttf"} { // the Unifont test fonts are empty files in this sandbox
			ttfs = append(ttfs, filepath.Join(vk.RepoDir(), "pkg", "testdata", "fonts", n))
		}
		if err := api.InstallFonts(ttfs); err != nil {
			t.Broken("install fonts: %v", err)
		}
		if err := font.LoadUserFonts(); err != nil {
			t.Broken("load fonts: %v", err)
		}
		rn := &runner{t: t, scratch: scratch, notes: map[string]int{}}

		if t.Replay != nil {
			var c caseID
			if err := json.Unmarshal(t.Replay.Case, &c); err != nil {
				t.Broken("replay case: %v", err)
			}
			switch c.Mode {
			case "gen":
				rn.genCase(c.Index)
			case "sample":
				rn.sampleCase(0, filepath.Join(vk.RepoDir(), c.Sample), c.Index)
			}
			return
		}

		nGen := t.Pick(600, 6000)
		reps := t.Pick(2, 16)
		samples := findSamples()
		t.Rule(fmt.Sprintf("%d generated forms (api.CreateFile from harness JSON: 5..14 fields over 1..3 pages, every field type at least once, fonts Helvetica/Courier/Times-Roman/Roboto-Regular, 25%% of the fields read-only, random defaults/options/date formats/maxlen/multiline/multi-select) "+
			"and %d sample PDFs x %d repetitions. Per form: fill with the own export (i); two consecutive rounds of fill-with-random-valid-values + export + pdfstrict view (ii); MultiFillFormFile JSON / CSV on a part of the forms (iii). "+
			"A case (one fill + export) is non-trivial when it is written by pdfcpu; distinct = distinct (field kinds x value classes x lock cases x match-by x API path) shapes", nGen, len(samples), reps))
		t.Assume("valid values: text = any Unicode scalar string (no NUL/CR; LF only in multiline fields; at most maxlen characters); date = a calendar date rendered in the field's declared format (or empty); choice fields = members of the exported option list (free text in editable combo boxes is not exercised); radio = an exported option")
		t.Assume("'locked fields keep their values' is checked for fields that are read-only in the PDF and stay read-only in the fill data; for an unlock request (read-only field, fill data says locked=false) the previous and the filled value are both accepted")
		t.Assume("multi-select values are compared as sets (the order of the selection is counted, not judged); combo/list values are compared after trimming blanks in the pdfstrict view because pdfcpu's export trims them")
		t.Assume("fill reporting 'no form fields affected' is accepted when no unlocked field gets a different value (nothing is written then)")
		t.Assume("CSV multi-fill: values without ',' and without leading '*' (documented separators), read-only fields are not listed (a listed column always carries a lock flag)")

		vk.Parallel(nGen, func(i int) { rn.genCase(i) })
		type sc struct {
			i, rep int
		}
		var scs []sc
		for i := range samples {
			for rep := 0; rep < reps; rep++ {
				scs = append(scs, sc{i, rep})
			}
		}
		vk.Parallel(len(scs), func(k int) { rn.sampleCase(scs[k].i, samples[scs[k].i], scs[k].rep) })

		created, failed := t.Counter("forms_created"), t.Counter("create_failed")
		if failed*5 > created+failed {
			t.Broken("api.CreateFile rejected %d of %d harness form definitions", failed, created+failed)
		}
		if t.Counter("strict_fields_compared") == 0 {
			t.Inconclusive("pdfstrict-view-never-compared")
		}
	})
}
