// Stand-alone reproducer for the C37 finding "read-only fields are filled"
// (run: $GO125 run ./cmd/c37/repro <scratch dir>).
package main

import (
	"encoding/json"
	"fmt"
	"os"
	"path/filepath"

	"github.com/pdfcpu/pdfcpu/pkg/api"
	"github.com/pdfcpu/pdfcpu/pkg/pdfcpu/form"
	"github.com/pdfcpu/pdfcpu/pkg/pdfcpu/model"
)

func conf() *model.Configuration { c := model.NewDefaultConfiguration(); c.Offline = true; return c }

func export(pdf string) *form.FormGroup {
	f, err := os.Open(pdf)
	if err != nil {
		panic(err)
	}
	defer f.Close()
	fg, err := api.ExportForm(f, pdf, conf())
	if err != nil {
		panic(err)
	}
	return fg
}

func show(tag string, fg *form.FormGroup) {
	f := fg.Forms[0]
	fmt.Printf("%-7s text=%q date=%q checkbox=%v radio=%q combo=%q listbox=%q (all locked=%v)\n", tag,
		f.TextFields[0].Value, f.DateFields[0].Value, f.CheckBoxes[0].Value, f.RadioButtonGroups[0].Value, f.ComboBoxes[0].Value, f.ListBoxes[0].Values,
		f.TextFields[0].Locked && f.DateFields[0].Locked && f.CheckBoxes[0].Locked && f.RadioButtonGroups[0].Locked && f.ComboBoxes[0].Locked && f.ListBoxes[0].Locked)
}

func main() {
	api.DisableConfigDir()
	dir := os.Args[1]
	_ = os.MkdirAll(dir, 0o755)
	font := map[string]any{"name": "Helvetica", "size": 12}
	def := map[string]any{"paper": "A4P", "origin": "LowerLeft", "fonts": map[string]any{"input": font, "label": font},
		"pages": map[string]any{"1": map[string]any{"content": map[string]any{
			"textfield":        []any{map[string]any{"id": "t", "value": "old", "locked": true, "pos": []int{100, 700}, "width": 200}},
			"datefield":        []any{map[string]any{"id": "d", "format": "yyyy-mm-dd", "value": "2000-01-02", "locked": true, "pos": []int{100, 670}, "width": 80}},
			"checkbox":         []any{map[string]any{"id": "c", "value": false, "locked": true, "pos": []int{100, 640}, "width": 12}},
			"radiobuttongroup": []any{map[string]any{"id": "r", "value": "a", "locked": true, "orientation": "hor", "pos": []int{100, 610}, "width": 12, "buttons": map[string]any{"values": []string{"a", "b"}, "label": map[string]any{"value": "x", "width": 40, "gap": 5, "pos": "right"}}}},
			"combobox":         []any{map[string]any{"id": "o", "value": "one", "locked": true, "options": []string{"one", "two"}, "pos": []int{100, 580}, "width": 100}},
			"listbox":          []any{map[string]any{"id": "l", "value": "x", "locked": true, "options": []string{"x", "y"}, "pos": []int{100, 520}, "width": 100, "height": 40}},
		}}}}
	b, _ := json.Marshal(def)
	defFile, pdf, out, data := filepath.Join(dir, "def.json"), filepath.Join(dir, "form.pdf"), filepath.Join(dir, "filled.pdf"), filepath.Join(dir, "fill.json")
	_ = os.WriteFile(defFile, b, 0o644)
	if err := api.CreateFile("", defFile, pdf, conf()); err != nil {
		panic(err)
	}
	fg := export(pdf)
	show("before:", fg)
	f := &fg.Forms[0]
	f.TextFields[0].Value = "NEW"
	f.DateFields[0].Value = "2024-12-31"
	f.CheckBoxes[0].Value = true
	f.RadioButtonGroups[0].Value = "b"
	f.ComboBoxes[0].Value = "two"
	f.ListBoxes[0].Values = []string{"y"}
	b, _ = json.Marshal(fg) // every field still says "locked": true
	_ = os.WriteFile(data, b, 0o644)
	fmt.Println("fill   :", api.FillFormFile(pdf, data, out, conf()))
	show("after:", export(out))
	fmt.Println("want   : every value as before (the fields are read-only in the PDF and in the fill data); only the list box keeps its value")
}
