package main

import (
	"bytes"
	"encoding/json"
	"fmt"
	"os"
	"path/filepath"

	"github.com/pdfcpu/pdfcpu/pkg/api"
	"github.com/pdfcpu/pdfcpu/pkg/font"
	"github.com/pdfcpu/pdfcpu/pkg/pdfcpu/model"
)

func conf() *model.Configuration {
	c := model.NewDefaultConfiguration()
	c.Offline = true
	return c
}

func main() {
	api.DisableConfigDir()
	dir := os.Args[1]
	os.MkdirAll(filepath.Join(dir, "fonts"), 0o755)
	font.UserFontDir = filepath.Join(dir, "fonts")
	if err := api.InstallFonts([]string{"/repo/pkg/testdata/fonts/Roboto-Regular.ttf"}); err != nil {
		fmt.Println("install:", err)
	}
	if err := font.LoadUserFonts(); err != nil {
		fmt.Println("load:", err)
	}
	fontName := os.Args[2]
	def := map[string]any{
		"paper": "A4P", "origin": "LowerLeft",
		"fonts": map[string]any{"input": map[string]any{"name": fontName, "size": 12}, "label": map[string]any{"name": fontName, "size": 12}},
		"pages": map[string]any{"1": map[string]any{"content": map[string]any{
			"textfield": []any{
				map[string]any{"id": "t1", "value": "hello", "default": "dflt", "pos": []int{100, 700}, "width": 200, "label": map[string]any{"value": "T1", "width": 50, "pos": "left"}},
				map[string]any{"id": "t2", "value": "locked", "locked": true, "pos": []int{100, 670}, "width": 200},
				map[string]any{"id": "t3", "multiline": true, "pos": []int{100, 600}, "width": 200, "height": 50},
			},
			"datefield": []any{
				map[string]any{"id": "d1", "format": "dd.mm.yyyy", "value": "31.12.1999", "pos": []int{100, 570}, "width": 80},
				map[string]any{"id": "d2", "format": "yyyy-m-d", "pos": []int{100, 550}, "width": 80, "locked": true, "value": "2000-1-2"},
			},
			"checkbox": []any{
				map[string]any{"id": "c1", "value": true, "pos": []int{100, 520}, "width": 12},
				map[string]any{"id": "c2", "value": false, "locked": true, "pos": []int{100, 500}, "width": 12},
			},
			"radiobuttongroup": []any{
				map[string]any{"id": "r1", "value": "b", "orientation": "hor", "pos": []int{100, 470}, "width": 12, "buttons": map[string]any{"values": []string{"a", "b", "c d"}, "label": map[string]any{"value": "x", "width": 40, "gap": 5, "pos": "right"}}},
				map[string]any{"id": "r2", "locked": true, "value": "a", "orientation": "hor", "pos": []int{100, 440}, "width": 12, "buttons": map[string]any{"values": []string{"a", "b"}, "label": map[string]any{"value": "x", "width": 40, "gap": 5, "pos": "right"}}},
			},
			"combobox": []any{
				map[string]any{"id": "cb1", "value": "two", "options": []string{"one", "two", "three (3)"}, "pos": []int{100, 400}, "width": 100},
				map[string]any{"id": "cb2", "locked": true, "value": "one", "options": []string{"one", "two"}, "pos": []int{100, 370}, "width": 100},
			},
			"listbox": []any{
				map[string]any{"id": "l1", "value": "b", "options": []string{"a", "b", "c"}, "pos": []int{100, 300}, "width": 100, "height": 50},
				map[string]any{"id": "l2", "multi": true, "values": []string{"a", "c"}, "options": []string{"a", "b", "c", "d"}, "pos": []int{100, 230}, "width": 100, "height": 60},
				map[string]any{"id": "l3", "multi": true, "locked": true, "values": []string{"b"}, "options": []string{"a", "b", "c", "d"}, "pos": []int{100, 160}, "width": 100, "height": 60},
			},
		}}},
	}
	b, _ := json.MarshalIndent(def, "", " ")
	os.WriteFile(filepath.Join(dir, "def.json"), b, 0o644)
	pdf := filepath.Join(dir, "form.pdf")
	if err := api.CreateFile("", filepath.Join(dir, "def.json"), pdf, conf()); err != nil {
		fmt.Println("create:", err)
		return
	}
	exp := filepath.Join(dir, "exp.json")
	if err := api.ExportFormFile(pdf, exp, conf()); err != nil {
		fmt.Println("export:", err)
		return
	}
	eb, _ := os.ReadFile(exp)
	fmt.Println(string(eb))
	// fill with exported
	err := api.FillFormFile(pdf, exp, filepath.Join(dir, "same.pdf"), conf())
	fmt.Println("fill same:", err)
	// modify
	if len(os.Args) > 3 {
		mod, _ := os.ReadFile(os.Args[3])
		var buf bytes.Buffer
		json.Indent(&buf, mod, "", " ")
		os.WriteFile(filepath.Join(dir, "mod.json"), mod, 0o644)
		err := api.FillFormFile(pdf, filepath.Join(dir, "mod.json"), filepath.Join(dir, "mod.pdf"), conf())
		fmt.Println("fill mod:", err)
		if err == nil {
			err = api.ExportFormFile(filepath.Join(dir, "mod.pdf"), filepath.Join(dir, "exp2.json"), conf())
			fmt.Println("export2:", err)
			eb, _ := os.ReadFile(filepath.Join(dir, "exp2.json"))
			fmt.Println(string(eb))
		}
	}
}
