package main

import (
	"math/rand/v2"
	"strings"
)

// textValue draws a valid text value; class names the character class (part of the violation key).
func textValue(r *rand.Rand, multiline bool, maxLen int, csv bool) (v, class string) {
	for {
		v, class = textValue1(r, multiline)
		v = clipRunes(v, maxLen)
		if csv {
			// CSV multi-fill: ',' separates values, a leading '*' locks, documented in form.FieldMap
			if strings.ContainsAny(v, ",") || strings.HasPrefix(v, "*") {
				continue
			}
		}
		return v, class
	}
}

func textValue1(r *rand.Rand, multiline bool) (string, string) {
	switch r.IntN(14) {
	case 0:
		return pick(r, wordsASCII) + " " + pick(r, wordsASCII), "ascii"
	case 1:
		return pick(r, wordsLatin1) + " " + pick(r, wordsASCII), "latin1"
	case 2:
		return pick(r, wordsCyrGreek) + " " + pick(r, wordsCyrGreek), "cyrgreek"
	case 3:
		return pick(r, wordsCJK) + pick(r, wordsCJK), "cjk"
	case 4:
		return pick(r, wordsOther) + " " + pick(r, wordsASCII), "other-script"
	case 5: // boundary code points of the BMP / the planes
		b := []string{"\uE000", "\uFFFF", "\uFFFE", "\uD7FF", "\uF8FF", "\uFFFD", "\u0100", "\u00FF", "\u007F", "\u0080", "\u2028", "\uFEFF"}
		return "x" + pick(r, b) + "y" + pick(r, b), "bmp-boundary"
	case 6:
		b := []string{"\uE000", "\uFFFF", "\uD7FF"}
		return pick(r, b), "bmp-boundary"
	case 7:
		a := []string{"\U00010000", "\U0001F600", "\U0010FFFF", "\U0001D11E", "\U00020000", "\U000E0001"}
		return pick(r, a) + "-" + pick(r, a) + pick(r, wordsASCII), "astral"
	case 8:
		p := []string{"(", ")", "((", "))", ")(", "\\", "\\\\", "\\(", "\\)", "a(b)c", "(unbalanced", "unbalanced)", "\\n", "\\053", "back\\"}
		return pick(r, p) + pick(r, wordsASCII) + pick(r, p), "parens-backslash"
	case 9:
		return pick(r, []string{" lead", "trail ", "  both  ", "in  ner"}), "whitespace"
	case 10:
		if multiline {
			return pick(r, wordsASCII) + "\n" + pick(r, wordsLatin1) + "\n\n" + pick(r, wordsCyrGreek), "newline"
		}
		return pick(r, wordsASCII), "ascii"
	case 11:
		// text that looks like another encoding's byte order mark / escape when mis-decoded
		return pick(r, []string{"þÿ", "ï»¿x", "ÿþ", "þÿ (1)"}), "bom-lookalike"
	case 12:
		return "", "empty"
	default:
		n := 1 + r.IntN(40)
		var sb strings.Builder
		for i := 0; i < n; i++ {
			switch r.IntN(5) {
			case 0:
				sb.WriteRune(rune(0x20 + r.IntN(0x5F)))
			case 1:
				sb.WriteRune(rune(0xA1 + r.IntN(0x5E)))
			case 2:
				sb.WriteRune(rune(0x400 + r.IntN(0x100)))
			case 3:
				sb.WriteRune(rune(0x4E00 + r.IntN(0x5000)))
			default:
				c := rune(0x10000 + r.IntN(0xFFFFF))
				sb.WriteRune(c)
			}
		}
		return sb.String(), "mixed"
	}
}
