package main

// Random form definitions for pdfcpu's own api.Create (the JSON schema of pkg/pdfcpu/primitives):
// every field type, random lock flags, defaults, Unicode labels / tips / values, 1..3 pages.

import (
	"fmt"
	"math/rand/v2"
	"strings"
	"time"
)

type kind int

const (
	kText kind = iota
	kDate
	kCheck
	kRadio
	kCombo
	kList
)

func (k kind) String() string {
	return [...]string{"text", "date", "checkbox", "radio", "combo", "listbox"}[k]
}

// genField is the harness' own record of a field it asked pdfcpu to create.
type genField struct {
	Kind      kind     `json:"kind"`
	ID        string   `json:"id"`
	Page      int      `json:"page"`
	Locked    bool     `json:"locked,omitempty"`
	Multiline bool     `json:"multiline,omitempty"`
	Multi     bool     `json:"multi,omitempty"`
	Edit      bool     `json:"edit,omitempty"`
	MaxLen    int      `json:"maxlen,omitempty"`
	Format    string   `json:"format,omitempty"`
	Options   []string `json:"options,omitempty"`
	Value     string   `json:"value,omitempty"`
	Values    []string `json:"values,omitempty"`
	Checked   bool     `json:"checked,omitempty"`
	Default   string   `json:"default,omitempty"`
	Defaults  []string `json:"defaults,omitempty"`
	DefCheck  bool     `json:"defcheck,omitempty"`
}

type genForm struct {
	Font    string      `json:"font"`
	Pages   int         `json:"pages"`
	CSVSafe bool        `json:"csvsafe"` // ids, options free of ',' '*' '@' (usable in CSV multi-fill)
	Fields  []*genField `json:"fields"`
}

// dateFormats are pdfcpu's external date formats (pkg/pdfcpu/primitives/date.go) with the Go layout
// the harness uses to produce valid values (kept here so the oracle does not ask pdfcpu what a valid date is).
var dateFormats = [][2]string{
	{"yyyy-m-d", "2006-1-2"}, {"yyyy-d-m", "2006-2-1"}, {"yyyy-mm-dd", "2006-01-02"}, {"yyyy-dd-mm", "2006-02-01"},
	{"dd-mm-yyyy", "02-01-2006"}, {"mm-dd-yyyy", "01-02-2006"}, {"d-m-yyyy", "2-1-2006"}, {"m-d-yyyy", "1-2-2006"},
	{"yyyy/m/d", "2006/1/2"}, {"yyyy/d/m", "2006/2/1"}, {"yyyy/mm/dd", "2006/01/02"}, {"yyyy/dd/mm", "2006/02/01"},
	{"dd/mm/yyyy", "02/01/2006"}, {"mm/dd/yyyy", "01/02/2006"}, {"d/m/yyyy", "2/1/2006"}, {"m/d/yyyy", "1/2/2006"},
	{"yyyy.m.d", "2006.1.2"}, {"yyyy.d.m", "2006.2.1"}, {"yyyy.mm.dd", "2006.01.02"}, {"yyyy.dd.mm", "2006.02.01"},
	{"dd.mm.yyyy", "02.01.2006"}, {"mm.dd.yyyy", "01.02.2006"}, {"d.m.yyyy", "2.1.2006"}, {"m.d.yyyy", "1.2.2006"},
}

func layoutFor(format string) string {
	f := strings.ToLower(format)
	for _, df := range dateFormats {
		if df[0] == f {
			return df[1]
		}
	}
	return ""
}

func randDate(r *rand.Rand, format string) string {
	lay := layoutFor(format)
	if lay == "" {
		return ""
	}
	y := 1900 + r.IntN(200)
	switch r.IntN(12) {
	case 0:
		y = 1000
	case 1:
		y = 9999
	case 2:
		y = 2000
	}
	m := 1 + r.IntN(12)
	d := 1 + r.IntN(28)
	switch r.IntN(6) {
	case 0:
		m, d = 12, 31
	case 1:
		m, d = 1, 1
	case 2:
		if y%4 == 0 && (y%100 != 0 || y%400 == 0) {
			m, d = 2, 29
		}
	}
	return time.Date(y, time.Month(m), d, 0, 0, 0, 0, time.UTC).Format(lay)
}

var wordsASCII = []string{"alpha", "Bravo", "charlie 7", "Delta-9", "echo_x", "fox", "G", "hotel & spa", "india.1", "J/K", "lima", "mike's", "no", "Oscar Wilde", "p q r", "x=y+z", "100%", "#tag", "a:b;c", "[box]", "{curly}", "<lt>", "tilde~", "q?"}
var wordsLatin1 = []string{"Zürich", "Ærø", "señor", "façade", "crème brûlée", "Ångström", "naïve", "Ñandú", "£5", "§ 7", "50 °C", "¿qué?", "Þór", "ÿ"}
var wordsCyrGreek = []string{"Привет", "Джекі", "ім'я", "Київ", "Ёлка", "жёлтый", "Ελλάδα", "αβγ", "Ωμέγα", "Ђорђе", "Њ", "Ўзбек"}
var wordsCJK = []string{"杰基", "出生日期", "日本語", "한국어", "默认名称", "名", "東京都"}
var wordsOther = []string{"جاكي", "שלום", "हिन्दी", "ไทย", "বাংলা", "Հայերեն"}

func pick[T any](r *rand.Rand, s []T) T { return s[r.IntN(len(s))] }

// fontScripts: what may appear in text that pdfcpu has to RENDER at creation time (labels, initial values).
// Fill values are not restricted by this (the value entry is independent of the appearance).
func renderWord(r *rand.Rand, font string) string {
	switch {
	case font == "Roboto-Regular":
		switch r.IntN(4) {
		case 0:
			return pick(r, wordsCyrGreek)
		case 1:
			return pick(r, wordsLatin1)
		}
		return pick(r, wordsASCII)
	default:
		if r.IntN(4) == 0 {
			return pick(r, wordsLatin1)
		}
		return pick(r, wordsASCII)
	}
}

func uniqueOptions(r *rand.Rand, n int, font string, csvSafe, special bool) []string {
	seen := map[string]bool{}
	var out []string
	for len(out) < n {
		w := renderWord(r, font)
		if special && r.IntN(5) == 0 {
			w = pick(r, []string{"three (3)", "a\\b", "(", ")", "x)(y", "back\\", "1", "0", "Off", "Yes", "A.B", "tab\there"})
		}
		if r.IntN(3) == 0 {
			w += fmt.Sprintf(" %d", r.IntN(50))
		}
		if csvSafe && strings.ContainsAny(w, ",*@\"\n\r") {
			continue
		}
		if strings.TrimSpace(w) == "" || seen[w] {
			continue
		}
		seen[w] = true
		out = append(out, w)
	}
	return out
}

func randomForm(r *rand.Rand) *genForm {
	f := &genForm{}
	f.Font = pick(r, []string{"Helvetica", "Courier", "Times-Roman", "Roboto-Regular", "Roboto-Regular", "Helvetica"})
	f.Pages = 1 + r.IntN(3)
	f.CSVSafe = true
	nf := 5 + r.IntN(10)
	ids := map[string]bool{}
	newID := func(k kind) string {
		for {
			var id string
			switch r.IntN(8) {
			case 0:
				id = renderWord(r, "Helvetica") // ids with blanks, punctuation, Latin-1
			case 1:
				if f.Font == "Roboto-Regular" {
					id = pick(r, wordsCyrGreek)
				} else {
					id = pick(r, wordsLatin1)
				}
			default:
				id = fmt.Sprintf("%s%d", [...]string{"tx", "dt", "cb", "rb", "co", "lb"}[k], r.IntN(1000))
			}
			id = strings.TrimSpace(id)
			// a '.' in a partial field name is not allowed by the spec (it separates the parts of a qualified name)
			if id == "" || ids[id] || strings.ContainsAny(id, ".,*@\"") {
				continue
			}
			ids[id] = true
			return id
		}
	}
	// every kind at least once, the rest random
	order := []kind{kText, kDate, kCheck, kRadio, kCombo, kList, kList, kText}
	for len(order) < nf {
		order = append(order, kind(r.IntN(6)))
	}
	r.Shuffle(len(order), func(i, j int) { order[i], order[j] = order[j], order[i] })
	order = order[:nf]
	for _, k := range order {
		g := &genField{Kind: k, ID: newID(k), Page: 1 + r.IntN(f.Pages)}
		g.Locked = r.IntN(4) == 0
		hasValue := r.IntN(3) != 0
		hasDefault := r.IntN(3) == 0
		switch k {
		case kText:
			g.Multiline = r.IntN(4) == 0
			if r.IntN(5) == 0 {
				g.MaxLen = 3 + r.IntN(20)
			}
			if hasValue {
				g.Value = clipBytes(renderWord(r, f.Font), g.MaxLen) // Create counts bytes ("field overflow")
			}
			if hasDefault {
				g.Default = clipBytes(renderWord(r, f.Font), g.MaxLen)
			}
		case kDate:
			g.Format = pick(r, dateFormats)[0]
			if hasValue {
				g.Value = randDate(r, g.Format)
			}
			if hasDefault {
				g.Default = randDate(r, g.Format)
			}
		case kCheck:
			g.Checked = r.IntN(2) == 0
			g.DefCheck = r.IntN(4) == 0
		case kRadio:
			g.Options = radioOptions(r, 2+r.IntN(3), f.Font)
			if hasValue {
				g.Value = pick(r, g.Options)
			}
			if hasDefault {
				g.Default = pick(r, g.Options)
			}
		case kCombo:
			g.Options = uniqueOptions(r, 2+r.IntN(5), f.Font, true, true)
			g.Edit = r.IntN(5) == 0
			if hasValue {
				g.Value = pick(r, g.Options)
			}
			if hasDefault {
				g.Default = pick(r, g.Options)
			}
		case kList:
			g.Options = uniqueOptions(r, 2+r.IntN(6), f.Font, true, true)
			g.Multi = r.IntN(2) == 0
			if g.Multi {
				if hasValue {
					g.Values = subset(r, g.Options, 1+r.IntN(len(g.Options)))
				}
				if hasDefault {
					g.Defaults = subset(r, g.Options, 1+r.IntN(2))
				}
			} else {
				if hasValue {
					g.Value = pick(r, g.Options)
				}
				if hasDefault {
					g.Default = pick(r, g.Options)
				}
			}
		}
		f.Fields = append(f.Fields, g)
	}
	return f
}

// radio button values become PDF names (appearance states) and the labels of the buttons.
func radioOptions(r *rand.Rand, n int, font string) []string {
	seen := map[string]bool{}
	var out []string
	for len(out) < n {
		var w string
		switch r.IntN(6) {
		case 0:
			w = pick(r, []string{"non-binary", "c d", "A B C", "x#y", "50%", "(p)", "sl/ash"})
		case 1:
			w = renderWord(r, font)
		default:
			w = pick(r, []string{"female", "male", "yes", "no", "maybe", "one", "two", "three", "red", "green", "blue", "S", "M", "L", "XL"})
		}
		if w == "Off" || strings.ContainsAny(w, ",*@\"") || seen[w] {
			continue
		}
		seen[w] = true
		out = append(out, w)
	}
	return out
}

func subset(r *rand.Rand, s []string, n int) []string {
	if n > len(s) {
		n = len(s)
	}
	p := r.Perm(len(s))[:n]
	out := make([]string, 0, n)
	for _, i := range p {
		out = append(out, s[i])
	}
	return out
}

// clipBytes cuts s at a rune boundary so that it has at most maxLen bytes.
func clipBytes(s string, maxLen int) string {
	if maxLen <= 0 {
		return s
	}
	for len(s) > maxLen {
		rs := []rune(s)
		s = string(rs[:len(rs)-1])
	}
	return s
}

func clipRunes(s string, maxLen int) string {
	if maxLen <= 0 {
		return s
	}
	rs := []rune(s)
	if len(rs) > maxLen {
		rs = rs[:maxLen]
	}
	return string(rs)
}

// createJSON renders the form definition in pdfcpu's create-JSON schema.
func (f *genForm) createJSON(r *rand.Rand) map[string]any {
	font := map[string]any{"name": f.Font, "size": 9 + r.IntN(4)}
	if f.Font == "Roboto-Regular" {
		font["lang"] = "uk"
		font["script"] = "Cyrl"
	}
	pages := map[string]any{}
	type cursor struct{ y [2]int }
	cur := make([]cursor, f.Pages+1)
	for i := range cur {
		cur[i].y = [2]int{780, 780}
	}
	content := make([]map[string][]any, f.Pages+1)
	for i := range content {
		content[i] = map[string][]any{}
	}
	for _, g := range f.Fields {
		col := 0
		if cur[g.Page].y[1] > cur[g.Page].y[0] {
			col = 1
		}
		h := 18
		switch {
		case g.Kind == kList:
			h = 14*min(len(g.Options), 5) + 8
		case g.Kind == kText && g.Multiline:
			h = 48
		}
		y := cur[g.Page].y[col] - h
		if y < 40 { // page full: stack anyway, overlapping widgets are legal
			y = 40
		}
		cur[g.Page].y[col] = y - 8
		x := 110 + col*280
		m := map[string]any{"id": g.ID, "pos": []int{x, y}, "width": 150}
		if r.IntN(2) == 0 {
			m["tip"] = renderWord(r, f.Font)
		}
		if r.IntN(2) == 0 {
			m["label"] = map[string]any{"value": renderWord(r, f.Font) + ":", "width": 90, "gap": 5, "pos": "left", "align": pick(r, []string{"left", "right"})}
		}
		if g.Locked {
			m["locked"] = true
		}
		if r.IntN(3) == 0 && g.Kind != kCheck && g.Kind != kRadio {
			m["border"] = map[string]any{"width": 1, "col": "Gray"}
		}
		var key string
		switch g.Kind {
		case kText:
			key = "textfield"
			if g.Multiline {
				m["multiline"] = true
				m["height"] = h
			}
			if g.MaxLen > 0 {
				m["maxlen"] = g.MaxLen
			}
			if g.Value != "" {
				m["value"] = g.Value
			}
			if g.Default != "" {
				m["default"] = g.Default
			}
			m["align"] = pick(r, []string{"left", "center", "right"})
		case kDate:
			key = "datefield"
			m["format"] = g.Format
			m["width"] = 80
			if g.Value != "" {
				m["value"] = g.Value
			}
			if g.Default != "" {
				m["default"] = g.Default
			}
		case kCheck:
			key = "checkbox"
			m["width"] = 12
			m["value"] = g.Checked
			if g.DefCheck {
				m["default"] = true
			}
		case kRadio:
			key = "radiobuttongroup"
			m["width"] = 12
			m["orientation"] = "hor"
			m["buttons"] = map[string]any{"values": g.Options, "label": map[string]any{"value": "x", "width": 45, "gap": 3, "pos": "right"}}
			if g.Value != "" {
				m["value"] = g.Value
			}
			if g.Default != "" {
				m["default"] = g.Default
			}
		case kCombo:
			key = "combobox"
			m["options"] = g.Options
			m["edit"] = g.Edit
			if g.Value != "" {
				m["value"] = g.Value
			}
			if g.Default != "" {
				m["default"] = g.Default
			}
		case kList:
			key = "listbox"
			m["options"] = g.Options
			m["height"] = h
			m["multi"] = g.Multi
			if g.Multi {
				if len(g.Values) > 0 {
					m["values"] = g.Values
				}
				if len(g.Defaults) > 0 {
					m["defaults"] = g.Defaults
				}
			} else {
				if g.Value != "" {
					m["value"] = g.Value
				}
				if g.Default != "" {
					m["default"] = g.Default
				}
			}
		}
		content[g.Page][key] = append(content[g.Page][key], m)
	}
	for p := 1; p <= f.Pages; p++ {
		c := map[string]any{}
		for k, v := range content[p] {
			c[k] = v
		}
		if len(c) == 0 || r.IntN(3) == 0 {
			c["text"] = []any{map[string]any{"value": fmt.Sprintf("page %d", p), "pos": []int{40, 810}, "font": map[string]any{"name": f.Font, "size": 10}}}
		}
		pages[fmt.Sprint(p)] = map[string]any{"content": c}
	}
	return map[string]any{
		"paper":  pick(r, []string{"A4P", "LetterP", "A4P"}),
		"origin": "LowerLeft",
		"fonts":  map[string]any{"input": font, "label": font},
		"pages":  pages,
	}
}
