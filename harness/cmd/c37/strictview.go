package main

// Independent view of a filled form: the AcroForm field tree read with pdfstrict (no pdfcpu code),
// text strings decoded here (UTF-16BE with BOM, UTF-8 with BOM, PDFDocEncoding).

import (
	"fmt"
	"strconv"
	"strings"
	"unicode/utf16"
	"unicode/utf8"

	"verif/harness/internal/pdfstrict"
)

// pdfDocHigh: PDFDocEncoding for 0x18..0x1F and 0x80..0xA0 (ISO 32000-1 Annex D.2); everything else = Latin-1.
var pdfDocLow = map[byte]rune{0x18: 0x02D8, 0x19: 0x02C7, 0x1A: 0x02C6, 0x1B: 0x02D9, 0x1C: 0x02DD, 0x1D: 0x02DB, 0x1E: 0x02DA, 0x1F: 0x02DC}
var pdfDocHigh = [...]rune{
	0x2022, 0x2020, 0x2021, 0x2026, 0x2014, 0x2013, 0x0192, 0x2044, 0x2039, 0x203A, 0x2212, 0x2030, 0x201E, 0x201C, 0x201D, 0x2018,
	0x2019, 0x201A, 0x2122, 0xFB01, 0xFB02, 0x0141, 0x0152, 0x0160, 0x0178, 0x017D, 0x0131, 0x0142, 0x0153, 0x0161, 0x017E, 0xFFFD,
	0x20AC,
}

// decodeTextString decodes a PDF text string. ok=false: not decodable as a text string (odd UTF-16 length,
// unpaired surrogate, invalid UTF-8).
func decodeTextString(b []byte) (string, bool) {
	switch {
	case len(b) >= 2 && b[0] == 0xFE && b[1] == 0xFF:
		b = b[2:]
		if len(b)%2 != 0 {
			return "", false
		}
		u := make([]uint16, len(b)/2)
		for i := range u {
			u[i] = uint16(b[2*i])<<8 | uint16(b[2*i+1])
		}
		var sb strings.Builder
		for i := 0; i < len(u); i++ {
			c := rune(u[i])
			switch {
			case c >= 0xD800 && c < 0xDC00:
				if i+1 >= len(u) || u[i+1] < 0xDC00 || u[i+1] > 0xDFFF {
					return "", false
				}
				sb.WriteRune(utf16.DecodeRune(c, rune(u[i+1])))
				i++
			case c >= 0xDC00 && c <= 0xDFFF:
				return "", false
			default:
				sb.WriteRune(c)
			}
		}
		return sb.String(), true
	case len(b) >= 3 && b[0] == 0xEF && b[1] == 0xBB && b[2] == 0xBF:
		if !utf8.Valid(b[3:]) {
			return "", false
		}
		return string(b[3:]), true
	}
	var sb strings.Builder
	for _, c := range b {
		switch {
		case c >= 0x18 && c <= 0x1F:
			sb.WriteRune(pdfDocLow[c])
		case c >= 0x80 && c <= 0xA0:
			sb.WriteRune(pdfDocHigh[c-0x80])
		case c == 0xAD:
			sb.WriteRune(0xFFFD) // undefined in PDFDocEncoding
		default:
			sb.WriteRune(rune(c))
		}
	}
	return sb.String(), true
}

// strictField is one terminal field as the file stores it.
type strictField struct {
	ObjNr    int
	FullName string
	FT       string
	Ff       int64
	HasV     bool
	VKind    string   // "string" | "name" | "array" | "other"
	VStrings []string // decoded text strings (string / array of strings)
	VName    string   // name value
	VBad     bool     // a string that is not a decodable text string
	Opt      []string // export values of /Opt (first element of pairs)
	NKids    int
}

type strictForm struct {
	byObj  map[int]*strictField
	byName map[string][]*strictField
	all    []*strictField
}

func readStrictForm(data []byte) (*strictForm, error) {
	d, err := pdfstrict.Open(data, pdfstrict.Options{})
	if err != nil {
		return nil, fmt.Errorf("pdfstrict open: %v", err)
	}
	root, ok := d.ResolveDict(d.Trailer()["Root"])
	if !ok {
		return nil, fmt.Errorf("no catalog")
	}
	af, ok := d.ResolveDict(root["AcroForm"])
	if !ok {
		return nil, fmt.Errorf("no AcroForm")
	}
	fields, _ := d.Resolve(af["Fields"]).(pdfstrict.Array)
	sf := &strictForm{byObj: map[int]*strictField{}, byName: map[string][]*strictField{}}
	type inh struct {
		name  string
		ft    string
		ff    int64
		hasFf bool
		v     pdfstrict.Object
		opt   pdfstrict.Object
	}
	seen := map[int]bool{}
	var walk func(o pdfstrict.Object, in inh, depth int)
	walk = func(o pdfstrict.Object, in inh, depth int) {
		if depth > 40 {
			return
		}
		nr := -1
		if r, isRef := o.(pdfstrict.Ref); isRef {
			nr = r.Num
			if seen[nr] {
				return
			}
			seen[nr] = true
		}
		dict, ok := d.ResolveDict(o)
		if !ok {
			return
		}
		if t, ok := d.Resolve(dict["T"]).(pdfstrict.String); ok {
			part, _ := decodeTextString(t)
			if in.name == "" {
				in.name = part
			} else {
				in.name += "." + part
			}
		}
		if n, ok := d.Resolve(dict["FT"]).(pdfstrict.Name); ok {
			in.ft = string(n)
		}
		if n, ok := d.Resolve(dict["Ff"]).(pdfstrict.Int); ok {
			in.ff, in.hasFf = int64(n), true
		}
		if v, has := dict["V"]; has && !pdfstrict.IsNull(d.Resolve(v)) {
			in.v = v
		}
		if v, has := dict["Opt"]; has && !pdfstrict.IsNull(d.Resolve(v)) {
			in.opt = v
		}
		kids, _ := d.Resolve(dict["Kids"]).(pdfstrict.Array)
		// a kid with /T is a field of its own; kids without /T are widgets of this field
		fieldKids := 0
		for _, k := range kids {
			if kd, ok := d.ResolveDict(k); ok {
				if _, hasT := kd["T"]; hasT {
					fieldKids++
				}
			}
		}
		if fieldKids > 0 {
			for _, k := range kids {
				walk(k, in, depth+1)
			}
			return
		}
		if _, hasT := dict["T"]; !hasT {
			return
		}
		f := &strictField{ObjNr: nr, FullName: in.name, FT: in.ft, Ff: in.ff, NKids: len(kids)}
		if in.opt != nil {
			if arr, ok := d.Resolve(in.opt).(pdfstrict.Array); ok {
				for _, e := range arr {
					switch x := d.Resolve(e).(type) {
					case pdfstrict.String:
						s, _ := decodeTextString(x)
						f.Opt = append(f.Opt, s)
					case pdfstrict.Array:
						if len(x) > 0 {
							if xs, ok := d.Resolve(x[0]).(pdfstrict.String); ok {
								s, _ := decodeTextString(xs)
								f.Opt = append(f.Opt, s)
							}
						}
					}
				}
			}
		}
		if in.v != nil {
			f.HasV = true
			switch x := d.Resolve(in.v).(type) {
			case pdfstrict.String:
				f.VKind = "string"
				s, ok := decodeTextString(x)
				f.VBad = !ok
				f.VStrings = []string{s}
			case pdfstrict.Name:
				f.VKind = "name"
				f.VName = string(x)
			case pdfstrict.Array:
				f.VKind = "array"
				for _, e := range x {
					if xs, ok := d.Resolve(e).(pdfstrict.String); ok {
						s, ok := decodeTextString(xs)
						if !ok {
							f.VBad = true
						}
						f.VStrings = append(f.VStrings, s)
					} else {
						f.VKind = "other"
					}
				}
			case *pdfstrict.Stream:
				f.VKind = "other" // rich text / long text streams: not produced by pdfcpu, not compared
			default:
				f.VKind = "other"
			}
		}
		sf.all = append(sf.all, f)
		if nr >= 0 {
			sf.byObj[nr] = f
		}
		sf.byName[f.FullName] = append(sf.byName[f.FullName], f)
	}
	for _, o := range fields {
		walk(o, inh{}, 0)
	}
	return sf, nil
}

// lookup finds the stored field for an exported (id, name): id is the object number pdfcpu reports.
func (sf *strictForm) lookup(id, name string) *strictField {
	if nr, err := strconv.Atoi(id); err == nil {
		if f := sf.byObj[nr]; f != nil && (name == "" || f.FullName == name) {
			return f
		}
	}
	if l := sf.byName[name]; len(l) == 1 {
		return l[0]
	}
	return nil
}
