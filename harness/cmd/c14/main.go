// C14 — dates written by pdfcpu are valid and read back to the same instant.
//
// Oracle, per time t (year 0..9999, UTC offset a whole number of minutes in [-23:59, +23:59]):
//
//	s = types.DateString(t) is accepted by the worker's own recogniser of ISO 32000-1 7.9.4
//	    (D:YYYYMMDDHHmmSSOHH'mm', all field widths and ranges, day valid for month and year)
//	    and the fields it carries denote t's instant and offset;
//	types.DateTime(s, false) returns ok and a time with the same Unix second and zone offset.
//
// Workload: years 0..9999 (all) x {Jan 1, Feb 28, Feb 29 if leap, Dec 31, one random day} x
// {offset 0, a random positive, a random negative offset}; all 2 879 whole-minute offsets x
// sampled dates; random times.
package main

import (
	"fmt"
	"strconv"
	"sync/atomic"
	"time"

	"github.com/pdfcpu/pdfcpu/pkg/pdfcpu/types"
	"verif/harness/internal/vk"
)

// ---- independent reference for ISO 32000-1 7.9.4

func isLeap(y int) bool { return y%4 == 0 && (y%100 != 0 || y%400 == 0) }

func daysIn(y, m int) int {
	switch m {
	case 4, 6, 9, 11:
		return 30
	case 2:
		if isLeap(y) {
			return 29
		}
		return 28
	}
	return 31
}

// daysFromCivil: days since 1970-01-01 in the proleptic Gregorian calendar.
func daysFromCivil(y, m, d int) int64 {
	if m <= 2 {
		y--
	}
	var era int
	if y >= 0 {
		era = y / 400
	} else {
		era = (y - 399) / 400
	}
	yoe := y - era*400
	mp := (m + 9) % 12
	doy := (153*mp+2)/5 + d - 1
	doe := yoe*365 + yoe/4 - yoe/100 + doy
	return int64(era)*146097 + int64(doe) - 719468
}

type isoDate struct {
	Y, M, D, H, Mi, S int
	O                 byte // '+', '-', 'Z' or 0 if absent
	OH, OM            int
}

func (d isoDate) offsetSeconds() int {
	o := d.OH*3600 + d.OM*60
	if d.O == '-' {
		return -o
	}
	return o
}

func (d isoDate) unix() int64 {
	return daysFromCivil(d.Y, d.M, d.D)*86400 + int64(d.H*3600+d.Mi*60+d.S) - int64(d.offsetSeconds())
}

func twoDigits(s string, i int) (int, bool) {
	if i+2 > len(s) || s[i] < '0' || s[i] > '9' || s[i+1] < '0' || s[i+1] > '9' {
		return 0, false
	}
	return int(s[i]-'0')*10 + int(s[i+1]-'0'), true
}

// recognise accepts exactly the date strings of ISO 32000-1 7.9.4: D:YYYY followed by optional
// MM DD HH mm SS (each only if its predecessors are present), then optionally O and
// HH' and optionally mm with an optional closing apostrophe (ISO 32000-1 writes it, ISO 32000-2
// omits it). Returns the field that is wrong ("" if the string is valid).
func recognise(s string) (isoDate, string) {
	d := isoDate{M: 1, D: 1}
	if len(s) < 2 || s[0] != 'D' || s[1] != ':' {
		return d, "prefix"
	}
	s = s[2:]
	if len(s) < 4 {
		return d, "year"
	}
	for i := 0; i < 4; i++ {
		if s[i] < '0' || s[i] > '9' {
			return d, "year"
		}
		d.Y = d.Y*10 + int(s[i]-'0')
	}
	i := 4
	type fld struct {
		name   string
		dst    *int
		lo, hi int
	}
	for _, f := range []fld{{"month", &d.M, 1, 12}, {"day", &d.D, 1, 31}, {"hour", &d.H, 0, 23}, {"minute", &d.Mi, 0, 59}, {"second", &d.S, 0, 59}} {
		if i == len(s) {
			return d, ""
		}
		if s[i] == '+' || s[i] == '-' || s[i] == 'Z' {
			// The standard's own example (D:199812231952-08'00') puts O after a shortened time:
			// the offset is accepted after any complete field.
			break
		}
		v, ok := twoDigits(s, i)
		if !ok || v < f.lo || v > f.hi {
			return d, f.name
		}
		if f.name == "day" && v > daysIn(d.Y, d.M) {
			return d, "day"
		}
		*f.dst = v
		i += 2
	}
	if i == len(s) {
		return d, ""
	}
	switch s[i] {
	case '+', '-', 'Z':
		d.O = s[i]
	default:
		return d, "offset-sign"
	}
	i++
	if i == len(s) {
		if d.O == 'Z' {
			return d, ""
		}
		return d, "offset-hours"
	}
	v, ok := twoDigits(s, i)
	if !ok || v > 23 || (d.O == 'Z' && v != 0) {
		return d, "offset-hours"
	}
	d.OH = v
	i += 2
	if i == len(s) {
		return d, "apostrophe" // the apostrophe after the hour offset shall be present if HH is
	}
	if s[i] != '\'' {
		return d, "apostrophe"
	}
	i++
	if i == len(s) {
		return d, ""
	}
	v, ok = twoDigits(s, i)
	if !ok || v > 59 || (d.O == 'Z' && v != 0) {
		return d, "offset-minutes"
	}
	d.OM = v
	i += 2
	if i < len(s) && s[i] == '\'' {
		i++
	}
	if i != len(s) {
		return d, "trailing"
	}
	return d, ""
}

// reference rendering, used only to classify a rejected string.
func refString(y, mo, d, h, mi, s, offMin int) string {
	sign := "+"
	if offMin < 0 {
		sign, offMin = "-", -offMin
	}
	return fmt.Sprintf("D:%04d%02d%02d%02d%02d%02d%s%02d'%02d'", y, mo, d, h, mi, s, sign, offMin/60, offMin%60)
}

// ---- the check

type dcase struct {
	Y, Mo, D, H, Mi, S, Nsec, OffMin int
}

type counters struct {
	n, nontrivial, invalid, parsed, leapDays, negMinOffsets, yearLT1000 int64
}

func offClass(offMin int) string {
	sign := "zero"
	if offMin > 0 {
		sign = "pos"
	} else if offMin < 0 {
		sign = "neg"
	}
	m := "zero"
	if offMin%60 != 0 {
		m = "nonzero"
	}
	return "sign=" + sign + "/minutes=" + m
}

func yearClass(y int) string {
	if y < 1000 {
		return fmt.Sprintf("year-digits=%d", len(strconv.Itoa(y)))
	}
	return "year>=1000"
}

func (c dcase) time() time.Time {
	return time.Date(c.Y, time.Month(c.Mo), c.D, c.H, c.Mi, c.S, c.Nsec, time.FixedZone("", c.OffMin*60))
}

// evaluate runs the oracle on one case. kind "" = holds; final = the kind is already a complete key.
func evaluate(c dcase) (kind, what string, final, parsed bool) {
	tm := c.time()
	var s string
	var pv any
	func() {
		defer func() { pv = recover() }()
		s = types.DateString(tm)
	}()
	if pv != nil {
		return "datestring/panic", fmt.Sprintf("DateString(%s) panics: %v", tm.Format(time.RFC3339), pv), false, false
	}
	ref := refString(c.Y, c.Mo, c.D, c.H, c.Mi, c.S, c.OffMin)
	iso, bad := recognise(s)
	otherTime := bad == "" && (iso.unix() != tm.Unix() || iso.offsetSeconds() != c.OffMin*60)
	if bad != "" || otherTime {
		verdict := fmt.Sprintf("is not a valid ISO 32000-1 7.9.4 date (field: %s)", bad)
		if otherTime {
			verdict = fmt.Sprintf("reads per ISO 32000-1 7.9.4 as unix second %d offset %ds instead of %d offset %ds", iso.unix(), iso.offsetSeconds(), tm.Unix(), c.OffMin*60)
		}
		// classification only: is the string the reference rendering with a shortened year?
		if ys := strconv.Itoa(c.Y); c.Y < 1000 && s == "D:"+ys+ref[6:] {
			return fmt.Sprintf("datestring/year-width/%d-digit", len(ys)),
				fmt.Sprintf("DateString(%s) = %q: the year is written with %d digit(s) instead of YYYY (expected %q); the string %s", tm.Format(time.RFC3339), s, len(ys), ref, verdict), true, false
		}
		k := "datestring/invalid" // which field the recogniser stumbles over depends on the data: text only
		if otherTime {
			k = "datestring/denotes-other-time"
		}
		return k, fmt.Sprintf("DateString(%s) = %q %s (reference rendering %q)", tm.Format(time.RFC3339), s, verdict, ref), false, false
	}
	var got time.Time
	var ok bool
	func() {
		defer func() { pv = recover() }()
		got, ok = types.DateTime(s, false)
	}()
	if pv != nil {
		return "datetime/panic", fmt.Sprintf("DateTime(%q,false) panics: %v", s, pv), false, false
	}
	if !ok {
		return "datetime/rejected", fmt.Sprintf("DateTime(%q,false) rejects the string DateString wrote for %s", s, tm.Format(time.RFC3339)), false, true
	}
	if _, goff := got.Zone(); goff != c.OffMin*60 {
		return "datetime/offset-differs", fmt.Sprintf("DateTime(%q,false) has zone offset %ds, written for %s (offset %ds); the instants differ by %ds",
			s, goff, tm.Format(time.RFC3339), c.OffMin*60, got.Unix()-tm.Unix()), false, true
	}
	if got.Unix() != tm.Unix() || !got.Equal(tm.Truncate(time.Second)) {
		return "datetime/instant-differs", fmt.Sprintf("DateTime(%q,false) = %s, written for %s", s, got.Format(time.RFC3339), tm.Format(time.RFC3339)), false, true
	}
	return "", "", false, true
}

func check(t *vk.T, c dcase, ct *counters) {
	ct.n++
	nontrivial := c.OffMin != 0 || c.Y < 1000 || (c.Mo == 2 && c.D >= 28) || (c.Mo == 12 && c.D == 31)
	if nontrivial {
		ct.nontrivial++
	}
	if c.Mo == 2 && c.D == 29 {
		ct.leapDays++
	}
	if c.OffMin < 0 && c.OffMin%60 != 0 {
		ct.negMinOffsets++
	}
	if c.Y < 1000 {
		ct.yearLT1000++
	}
	kind, what, final, parsed := evaluate(c)
	if parsed {
		ct.parsed++
	}
	if kind == "" {
		return
	}
	if !parsed {
		ct.invalid++
	}
	key := kind
	if !final {
		// Which input dimension matters? Re-run with the year, then the offset, neutralised; a
		// dimension is part of the key only if neutralising it makes this failure disappear.
		cy := c
		cy.Y, cy.Mo, cy.D = 2000, 1, 1
		co := c
		co.OffMin = 0
		ky, _, _, _ := evaluate(cy)
		ko, _, _, _ := evaluate(co)
		if ky != kind {
			key += "/" + yearClass(c.Y)
		}
		if ko != kind {
			key += "/" + offClass(c.OffMin)
		}
		if ky == kind && ko == kind {
			key += "/any-date-and-offset"
		}
	}
	t.Violate(key, what, c)
}

func (ct *counters) addTo(d *counters) {
	atomic.AddInt64(&d.n, ct.n)
	atomic.AddInt64(&d.nontrivial, ct.nontrivial)
	atomic.AddInt64(&d.invalid, ct.invalid)
	atomic.AddInt64(&d.parsed, ct.parsed)
	atomic.AddInt64(&d.leapDays, ct.leapDays)
	atomic.AddInt64(&d.negMinOffsets, ct.negMinOffsets)
	atomic.AddInt64(&d.yearLT1000, ct.yearLT1000)
}

type rsrc interface{ IntN(n int) int }

func randTOD(r rsrc, c *dcase) {
	switch r.IntN(6) {
	case 0:
		c.H, c.Mi, c.S = 0, 0, 0
	case 1:
		c.H, c.Mi, c.S = 23, 59, 59
	default:
		c.H, c.Mi, c.S = r.IntN(24), r.IntN(60), r.IntN(60)
	}
	if r.IntN(2) == 0 {
		c.Nsec = r.IntN(1_000_000_000)
	}
}

func main() {
	vk.Run("C14", "exploration", func(t *vk.T) {
		t.Rule("(a) every year 0..9999 x {Jan 1, Feb 28, Feb 29 if leap, Dec 31, one random day} x {offset 0, random positive, random negative whole-minute offset}, random time of day; (b) every whole-minute offset -1439..+1439 x sampled dates; (c) seeded random times. Cases of (a) and (b) are distinct by construction; non-trivial = offset != 0, or year < 1000, or the day is Feb 28/29 or Dec 31")
		t.Assume("reference: own recogniser of ISO 32000-1 7.9.4 (accepts the ISO 32000-2 form without the closing apostrophe too) and own proleptic-Gregorian day count; Go's time package supplies t's fields and Unix second")
		t.Assume("sub-second parts are outside the format: equality is to the second")
		t.Extra("exhaustive_axes", []string{"year 0..9999", "UTC offset -1439..+1439 minutes"})

		// self-check of the reference against a second implementation of the calendar (Go's), so
		// that a slip in the worker cannot show up as a pdfcpu violation.
		for _, p := range [][3]int{{0, 1, 1}, {0, 2, 29}, {1, 1, 1}, {999, 12, 31}, {1582, 10, 10}, {1900, 2, 28}, {1970, 1, 1}, {2000, 2, 29}, {2024, 2, 29}, {9999, 12, 31}} {
			if want := time.Date(p[0], time.Month(p[1]), p[2], 0, 0, 0, 0, time.UTC).Unix() / 86400; daysFromCivil(p[0], p[1], p[2]) != want {
				t.Broken("reference day count wrong for %v: %d, Go says %d", p, daysFromCivil(p[0], p[1], p[2]), want)
			}
		}
		for _, v := range []struct {
			s   string
			bad string
		}{{"D:19981223195200-08'00'", ""}, {"D:1998", ""}, {"D:199812231952-08'00'", ""}, {"D:19981223195200Z", ""}, {"D:19981223195200+05'30", ""},
			{"D:9981223195200+00'00'", "month"}, {"D:99a1223195200+00'00'", "year"}, {"D:19980229000000+00'00'", "day"}, {"D:19981223245200+00'00'", "hour"}, {"D:19981223195200+24'00'", "offset-hours"},
			{"D:19981223195200+0000", "apostrophe"}, {"19981223", "prefix"}} {
			if _, bad := recognise(v.s); bad != v.bad {
				t.Broken("reference recogniser: %q gives %q, expected %q", v.s, bad, v.bad)
			}
		}

		var tot counters

		// (a) years exhaustive
		vk.Parallel(100, func(ch int) {
			var ct counters
			for y := ch * 100; y < (ch+1)*100; y++ {
				r := t.RNGi("years", y)
				days := [][2]int{{1, 1}, {2, 28}, {12, 31}}
				if isLeap(y) {
					days = append(days, [2]int{2, 29})
				}
				mo := 1 + r.IntN(12)
				days = append(days, [2]int{mo, 1 + r.IntN(daysIn(y, mo))})
				for _, md := range days {
					for _, off := range []int{0, 1 + r.IntN(1439), -(1 + r.IntN(1439))} {
						c := dcase{Y: y, Mo: md[0], D: md[1], OffMin: off}
						randTOD(r, &c)
						check(t, c, &ct)
					}
				}
			}
			ct.addTo(&tot)
		})
		t.Count("years_enumerated", 10000)
		nA := tot.n

		// (b) offsets exhaustive x sampled dates
		nd := t.Pick(40, 900)
		dates := make([]dcase, nd)
		rd := t.RNG("dates")
		for i := range dates {
			y := rd.IntN(10000)
			if i%8 == 0 {
				y = []int{0, 1, 9, 10, 99, 100, 999, 1000, 1970, 2000, 2024, 9999}[rd.IntN(12)]
			}
			mo := 1 + rd.IntN(12)
			dates[i] = dcase{Y: y, Mo: mo, D: 1 + rd.IntN(daysIn(y, mo))}
			randTOD(rd, &dates[i])
		}
		vk.Parallel(2879, func(i int) {
			var ct counters
			off := i - 1439
			for _, d := range dates {
				d.OffMin = off
				check(t, d, &ct)
			}
			ct.addTo(&tot)
		})
		t.Count("offsets_enumerated", 2879)
		t.Count("dates_per_offset", int64(nd))
		t.EvalBulk(tot.n, tot.nontrivial)
		t.Count("cases_years_axis", nA)
		t.Count("cases_offsets_axis", tot.n-nA)
		t.Sample(map[string]any{"case": dates[0], "written": types.DateString(time.Date(dates[0].Y, time.Month(dates[0].Mo), dates[0].D, dates[0].H, dates[0].Mi, dates[0].S, 0, time.FixedZone("", 330*60)))})

		// (c) random times
		R := t.Pick(300_000, 2_000_000)
		const chunks = 64
		var rnd counters
		vk.Parallel(chunks, func(ch int) {
			r := t.RNGi("random", ch)
			var ct counters
			for i := 0; i < R/chunks; i++ {
				y := r.IntN(10000)
				mo := 1 + r.IntN(12)
				c := dcase{Y: y, Mo: mo, D: 1 + r.IntN(daysIn(y, mo)), OffMin: r.IntN(2879) - 1439}
				if r.IntN(4) == 0 {
					c.OffMin = (r.IntN(47) - 23) * 60
				}
				randTOD(r, &c)
				check(t, c, &ct)
				if ch == 0 && i < 3 {
					tm := time.Date(c.Y, time.Month(c.Mo), c.D, c.H, c.Mi, c.S, c.Nsec, time.FixedZone("", c.OffMin*60))
					t.Sample(map[string]any{"case": c, "written": types.DateString(tm)})
				}
			}
			ct.addTo(&rnd)
		})
		t.EvalBulk(rnd.n, 0) // random cases may repeat: not counted as distinct
		t.Count("cases_random", rnd.n)
		t.Count("random_nontrivial_not_counted_distinct", rnd.nontrivial)
		t.Count("strings_rejected_by_reference_recogniser", tot.invalid+rnd.invalid)
		t.Count("strings_valid_and_parsed_back", tot.parsed+rnd.parsed)
		t.Count("leap_day_cases", tot.leapDays+rnd.leapDays)
		t.Count("negative_offset_with_minutes_cases", tot.negMinOffsets+rnd.negMinOffsets)
		t.Count("year_below_1000_cases", tot.yearLT1000+rnd.yearLT1000)
	})
}
