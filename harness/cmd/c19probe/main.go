package main

import (
	"bytes"
	"fmt"
	"math/rand/v2"
	"os"
	"strings"

	"github.com/pdfcpu/pdfcpu/pkg/api"
	"github.com/pdfcpu/pdfcpu/pkg/pdfcpu/model"
	"verif/harness/internal/pdfgen"
	"verif/harness/internal/pdfstrict"
)

func plain(in []byte, validate bool) ([]byte, error) {
	conf := model.NewDefaultConfiguration()
	conf.Offline = true
	conf.Optimize = false
	conf.OptimizeBeforeWriting = false
	var ctx *model.Context
	var err error
	if validate {
		ctx, err = api.ReadAndValidate(bytes.NewReader(in), conf)
	} else {
		ctx, err = api.ReadContext(bytes.NewReader(in), conf)
	}
	if err != nil {
		return nil, err
	}
	var out bytes.Buffer
	if err := api.WriteContext(ctx, &out); err != nil {
		return nil, err
	}
	return out.Bytes(), nil
}

func opt(in []byte) ([]byte, error) {
	conf := model.NewDefaultConfiguration()
	conf.Offline = true
	var out bytes.Buffer
	err := api.Optimize(bytes.NewReader(in), &out, conf)
	return out.Bytes(), err
}

var drop = pdfstrict.CanonOpts{DropKeys: map[string]bool{"ID": true, "Producer": true, "ModDate": true, "Size": true, "Prev": true, "XRefStm": true, "W": true, "Index": true}}

func canon(b []byte) (string, *pdfstrict.Doc, error) {
	d, err := pdfstrict.Open(b, pdfstrict.Options{})
	if err != nil {
		return "", d, err
	}
	tr := d.Trailer()
	top := pdfstrict.Dict{"Root": tr["Root"], "Info": tr["Info"]}
	return d.Canonical(top, drop), d, nil
}

func firstDiff(a, b string) string {
	la, lb := strings.Split(a, "\n"), strings.Split(b, "\n")
	for i := 0; i < len(la) && i < len(lb); i++ {
		if la[i] != lb[i] {
			x, y := la[i], lb[i]
			if len(x) > 700 {
				x = x[:700]
			}
			if len(y) > 700 {
				y = y[:700]
			}
			return fmt.Sprintf("line %d:\n  A: %s\n  B: %s", i, x, y)
		}
	}
	return fmt.Sprintf("len %d vs %d", len(la), len(lb))
}

func main() {
	api.DisableConfigDir()
	n := 40
	diffs := map[string]int{}
	for i := 0; i < n; i++ {
		rng := rand.New(rand.NewPCG(uint64(i), 77))
		spec := pdfgen.RandomSpec(rng, 6)
		spec.Updates = 0
		bt := pdfgen.Build(spec)
		ca, da, err := canon(bt.Bytes)
		if err != nil {
			fmt.Println(i, "orig unreadable", err)
			continue
		}
		if len(da.Defects) > 0 {
			fmt.Println(i, "orig defects", da.DefectKinds())
		}
		for _, mode := range []string{"raw", "validated", "opt"} {
			var out []byte
			switch mode {
			case "raw":
				out, err = plain(bt.Bytes, false)
			case "validated":
				out, err = plain(bt.Bytes, true)
			default:
				out, err = opt(bt.Bytes)
			}
			if err != nil {
				fmt.Println(i, mode, "ERR", err)
				continue
			}
			cb, _, err := canon(out)
			if err != nil {
				fmt.Println(i, mode, "out unreadable", err)
				continue
			}
			if ca != cb {
				diffs[mode]++
				if diffs[mode] <= 4 {
					fmt.Printf("doc %d mode %s DIFF %s\n", i, mode, firstDiff(ca, cb))
					if len(os.Args) > 1 {
						os.WriteFile(fmt.Sprintf("/verif/.cache/run/p19-%d-in.pdf", i), bt.Bytes, 0o644)
						os.WriteFile(fmt.Sprintf("/verif/.cache/run/p19-%d-%s.pdf", i, mode), out, 0o644)
					}
				}
			}
		}
	}
	fmt.Println("diffs", diffs, "of", n)
}
