package main

import (
	"bytes"
	"fmt"
	"math/rand/v2"

	"github.com/pdfcpu/pdfcpu/pkg/api"
	"github.com/pdfcpu/pdfcpu/pkg/pdfcpu/model"
	"verif/harness/internal/pdfgen"
	"verif/harness/internal/pdfstrict"
)

func main() {
	api.DisableConfigDir()
	for si, s := range pdfgen.OptScenarios {
		for k := 0; k < 4; k++ {
			rng := rand.New(rand.NewPCG(uint64(si*10+k), 9))
			bt := pdfgen.BuildOpt(rng, 1, s)
			d, err := pdfstrict.Open(bt.Bytes, pdfstrict.Options{})
			if err != nil {
				fmt.Println(s, k, "pdfstrict:", err)
				continue
			}
			pg, perr := d.Pages()
			if len(d.Defects) > 0 || perr != nil {
				fmt.Println(s, k, "defects", d.DefectKinds(), perr)
			}
			for i, p := range pg {
				if p.ContentErr != nil || !bytes.Contains(p.Content, []byte(bt.Pages[i].Marker)) {
					fmt.Println(s, k, "page", i, "content problem", p.ContentErr)
				}
			}
			for _, mode := range []int{model.ValidationRelaxed, model.ValidationStrict} {
				c := model.NewDefaultConfiguration()
				c.Offline = true
				c.ValidationMode = mode
				if err := api.Validate(bytes.NewReader(bt.Bytes), c); err != nil {
					fmt.Println(s, k, "pdfcpu validate mode", mode, ":", err)
				}
			}
			c := model.NewDefaultConfiguration()
			c.Offline = true
			var out bytes.Buffer
			if err := api.Optimize(bytes.NewReader(bt.Bytes), &out, c); err != nil {
				fmt.Println(s, k, "pdfcpu optimize:", err)
			}
		}
	}
}
