//go:build verifshadow

// osmonprobe: self-test of the shadow GOROOT interposer (run by setup.sh).
package main

import (
	"errors"
	"fmt"
	"io"
	"os"
	"path/filepath"
	"syscall"

	"verif/harness/internal/osmon"
)

func main() {
	dir, err := os.MkdirTemp(os.Getenv("VERIF_CACHE")+"/run", "probe-")
	if err != nil {
		panic(err)
	}
	defer os.RemoveAll(dir)
	m := &osmon.Mon{Scope: dir, Record: true}
	m.Run(func() {
		os.WriteFile(filepath.Join(dir, "a"), []byte("hello"), 0o644)
		src, _ := os.Open(filepath.Join(dir, "a"))
		dst, _ := os.Create(filepath.Join(dir, "b"))
		io.Copy(dst, src)
		dst.Sync()
		dst.Close()
		src.Close()
		os.Rename(filepath.Join(dir, "b"), filepath.Join(dir, "c"))
		os.Stat("/etc/passwd") // out of scope
	})
	ops := ""
	for _, e := range m.Events() {
		ops += e.Op + " "
	}
	fmt.Println(ops)
	want := "openfile write close openfile openfile read write read sync close close rename lstat "
	if ops != want {
		fmt.Println("UNEXPECTED trace, want:", want)
		os.Exit(1)
	}
	m2 := &osmon.Mon{Scope: dir, Faults: []*osmon.Fault{{At: 2, Kind: osmon.Errno, Errno: syscall.EIO}}}
	var werr error
	m2.Run(func() { werr = os.WriteFile(filepath.Join(dir, "d"), []byte("x"), 0o644) })
	if !errors.Is(werr, syscall.EIO) {
		fmt.Println("fault not injected:", werr)
		os.Exit(1)
	}
	fmt.Println("osmonprobe: ok", werr)
}
