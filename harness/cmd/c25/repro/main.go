// Stand-alone reproducer for the C25 triage (run: cd /verif/harness && $GO125 run -tags verif ./cmd/c25/repro).
// (A) user password offered where the owner password is required, all algorithms: every change must fail.
// (B) the firing history: upw = opw, change-user with an EMPTY owner-password field (R 2-4): pdfcpu
// recomputes /O with Algorithm 3 step (a) (no owner password => use the user password), i.e. from the
// NEW user password; the old password no longer opens, the new one is user and owner password.
package main

import (
	"fmt"
	"os"
	"path/filepath"

	"github.com/pdfcpu/pdfcpu/pkg/api"
	"github.com/pdfcpu/pdfcpu/pkg/pdfcpu/model"
)

func conf(aes bool, kl int, u, o string) *model.Configuration {
	var c *model.Configuration
	if aes {
		c = model.NewAESConfiguration(u, o, kl)
	} else {
		c = model.NewRC4Configuration(u, o, kl)
	}
	c.Offline = true
	return c
}

func opens(f, u, o string) string {
	c := model.NewDefaultConfiguration()
	c.Offline, c.UserPW, c.OwnerPW = true, u, o
	r, err := os.Open(f)
	if err != nil {
		return err.Error()
	}
	defer r.Close()
	if _, err := api.ReadContext(r, c); err != nil {
		return "REJECTED"
	}
	return "opens"
}

func main() {
	api.DisableConfigDir()
	repo := os.Getenv("VERIF_REPO")
	if repo == "" {
		repo = "/repo"
	}
	dir, _ := os.MkdirTemp("/verif/.cache/run", "c25-repro-")
	defer os.RemoveAll(dir)
	src, _ := os.ReadFile(filepath.Join(repo, "pkg/testdata/test.pdf"))
	for _, a := range []struct {
		n   string
		aes bool
		kl  int
	}{{"RC4-40", false, 40}, {"RC4-128", false, 128}, {"AES-128", true, 128}, {"AES-256", true, 256}} {
		f := filepath.Join(dir, a.n+".pdf")
		os.WriteFile(f, src, 0o644)
		if err := api.EncryptFile(f, "", conf(a.aes, a.kl, "u", "o")); err != nil {
			fmt.Println("encrypt", err)
			return
		}
		fmt.Printf("== (A) %s upw=u opw=o\n", a.n)
		for _, cr := range [][2]string{{"u", "u"}, {"u", ""}, {"", "u"}} {
			fmt.Printf("  creds user=%q owner=%q: open=%s", cr[0], cr[1], opens(f, cr[0], cr[1]))
			fmt.Printf(" | changeupw: %v", api.ChangeUserPasswordFile(f, "", cr[0], "x", conf(a.aes, a.kl, cr[0], cr[1])))
			fmt.Printf(" | changeopw: %v", api.ChangeOwnerPasswordFile(f, "", cr[1], "x", conf(a.aes, a.kl, cr[0], cr[1])))
			c := conf(a.aes, a.kl, cr[0], cr[1])
			c.Permissions = model.PermissionsAll
			fmt.Printf(" | setperm: %v\n", api.SetPermissionsFile(f, "", c))
		}
		fmt.Printf("  afterwards: (u,-)=%s (-,o)=%s (x,-)=%s (-,x)=%s\n", opens(f, "u", ""), opens(f, "", "o"), opens(f, "x", ""), opens(f, "", "x"))

		g := filepath.Join(dir, a.n+"-b.pdf")
		os.WriteFile(g, src, 0o644)
		api.EncryptFile(g, "", conf(a.aes, a.kl, "same", "same"))
		err := api.ChangeUserPasswordFile(g, "", "same", "new", conf(a.aes, a.kl, "same", ""))
		fmt.Printf("== (B) %s upw=opw=same; changeupw same->new with owner field EMPTY: %v\n", a.n, err)
		fmt.Printf("  (new,-)=%s (-,new)=%s (same,-)=%s (-,same)=%s\n", opens(g, "new", ""), opens(g, "", "new"), opens(g, "same", ""), opens(g, "", "same"))
		os.WriteFile(g, src, 0o644)
		api.EncryptFile(g, "", conf(a.aes, a.kl, "same", "same"))
		err = api.ChangeUserPasswordFile(g, "", "same", "new", conf(a.aes, a.kl, "same", "same"))
		fmt.Printf("   same, owner field = same: %v\n", err)
		fmt.Printf("  (new,-)=%s (-,new)=%s (same,-)=%s (-,same)=%s\n", opens(g, "new", ""), opens(g, "", "new"), opens(g, "same", ""), opens(g, "", "same"))
	}
}
