// C25 — wrong passwords are rejected and password changes take effect.
// Random histories of encrypt / change owner pw / change user pw / set permissions / decrypt with
// right and wrong credentials against a reference model (upw, opw, P, alg | not encrypted); after
// every step every password ever used plus two fresh ones is offered as user and as owner
// password: exactly the model's current passwords open the file, everything else gives
// ErrWrongPassword and no context.
package main

import (
	"bytes"
	"errors"
	"fmt"
	"math/rand/v2"
	"os"
	"path/filepath"
	"regexp"
	"sort"
	"strings"

	"github.com/pdfcpu/pdfcpu/pkg/api"
	"github.com/pdfcpu/pdfcpu/pkg/pdfcpu"
	"github.com/pdfcpu/pdfcpu/pkg/pdfcpu/model"
	"verif/harness/internal/vk"
)

type algo struct {
	Name   string
	AES    bool
	KeyLen int
}

var algos = []algo{{"RC4-40", false, 40}, {"RC4-128", false, 128}, {"AES-128", true, 128}, {"AES-256", true, 256}}

func (a algo) conf(upw, opw string) *model.Configuration {
	var c *model.Configuration
	if a.AES {
		c = model.NewAESConfiguration(upw, opw, a.KeyLen)
	} else {
		c = model.NewRC4Configuration(upw, opw, a.KeyLen)
	}
	c.Offline = true
	return c
}

// state is the reference model; Enc false = not encrypted.
type state struct {
	Enc      bool
	UPW, OPW string
	Perm     model.PermissionFlags
	Alg      algo
}

// ownerOK / userOK: what supplying (U, O) authenticates, as the standard security handler
// defines it and pdfcpu documents it: an empty owner-password field falls back to the user
// password field for revisions 2-4 (Algorithm 3 step (a)); revisions 5/6 have no fallback.
func (s state) ownerOK(u, o string) bool {
	if s.Alg.KeyLen == 256 {
		return o != "" && o == s.OPW
	}
	if o == "" {
		o = u
	}
	return o == s.OPW
}
func (s state) userOK(u string) bool { return u == s.UPW }

// opens: does supplying (U, O) open the document for reading?
func (s state) opens(u, o string) bool { return !s.Enc || s.ownerOK(u, o) || s.userOK(u) }

// changeOK: may a password/permission change proceed? pdfcpu documents that it needs both
// current passwords; the property demands at least the owner password.
func (s state) changeOK(u, o string) bool { return s.Enc && s.ownerOK(u, o) && s.userOK(u) }

type step struct {
	Op     string `json:"op"`
	Alg    string `json:"alg,omitempty"`
	U      string `json:"conf_user_pw"`
	O      string `json:"conf_owner_pw"`
	New    string `json:"new_pw,omitempty"`
	Perm   string `json:"perm,omitempty"`
	Cred   string `json:"cred_class"`
	WantOK bool   `json:"model_predicts_success"`
	Got    string `json:"got"`
}

type history struct {
	Doc   string `json:"doc"`
	Steps []step `json:"steps"`
	Probe string `json:"probe,omitempty"`
}

func errClass(err error) string {
	if err == nil {
		return "ok"
	}
	for _, c := range []struct {
		e error
		n string
	}{{pdfcpu.ErrWrongPassword, "ErrWrongPassword"}, {pdfcpu.ErrOwnerPasswordRequired, "ErrOwnerPasswordRequired"}, {pdfcpu.ErrPermissionDenied, "ErrPermissionDenied"},
		{pdfcpu.ErrNotEncrypted, "ErrNotEncrypted"}, {pdfcpu.ErrEncrypted, "ErrEncrypted"}, {pdfcpu.ErrUnsupportedEncryptionFeature, "ErrUnsupportedEncryptionFeature"},
		{pdfcpu.ErrMalformedEncryption, "ErrMalformedEncryption"}} {
		if errors.Is(err, c.e) {
			return c.n
		}
	}
	s := err.Error()
	if strings.Contains(s, "panic") {
		return "panic"
	}
	s = regexp.MustCompile(`[0-9]+`).ReplaceAllString(s, "N")
	if i := strings.LastIndex(s, ": "); i >= 0 {
		s = s[i+2:]
	}
	if len(s) > 50 {
		s = s[:50]
	}
	return strings.ReplaceAll(s, " ", "-")
}

func safely(f func() error) (err error) {
	defer func() {
		if r := recover(); r != nil {
			err = fmt.Errorf("panic: %v", r)
		}
	}()
	return f()
}

const alnum = "abcdefghijklmnopqrstuvwxyzABCDEFGHIJKLMNOPQRSTUVWXYZ0123456789"

func randPW(r *rand.Rand) string {
	b := make([]byte, 1+r.IntN(10))
	for i := range b {
		b[i] = alnum[r.IntN(len(alnum))]
	}
	return string(b)
}

func randPerm(r *rand.Rand) model.PermissionFlags {
	return model.PermissionsNone | model.PermissionFlags(r.IntN(1<<12)&0x0F3C)
}

// open offers (u, o) to the file and returns the context and error.
func open(file, u, o string) (*model.Context, error) {
	var ctx *model.Context
	err := safely(func() error {
		f, err := os.Open(file)
		if err != nil {
			return err
		}
		defer f.Close()
		conf := model.NewDefaultConfiguration()
		conf.Offline = true
		conf.UserPW, conf.OwnerPW = u, o
		var e error
		ctx, e = api.ReadContext(f, conf)
		return e
	})
	return ctx, err
}

func runSequence(t *vk.T, idx int, dir string, docs []string) {
	rng := t.RNGi("seq", idx)
	doc := docs[0]
	pdf20 := false
	if rng.IntN(4) == 0 {
		doc, pdf20 = docs[1], true
	}
	file := filepath.Join(dir, fmt.Sprintf("seq-%d.pdf", idx))
	raw, err := os.ReadFile(doc)
	if err != nil {
		t.Broken("%v", err)
	}
	if err := os.WriteFile(file, raw, 0o644); err != nil {
		t.Broken("%v", err)
	}
	defer os.Remove(file)

	// a small pool so that equal passwords (user = owner, reuse of old passwords) happen often
	pool := []string{randPW(rng), randPW(rng), randPW(rng), randPW(rng)}
	pw := func() string { return pool[rng.IntN(len(pool))] }
	used := map[string]string{} // password -> how it was last used
	note := func(p, how string) {
		if _, ok := used[p]; !ok || how != "wrong-credential" {
			used[p] = how
		}
	}
	var st state
	h := history{Doc: filepath.Base(doc)}
	n := 1 + rng.IntN(8)
	for k := 0; k < n; k++ {
		// choose the operation
		ops := []string{"encrypt", "change-owner", "change-user", "set-permissions", "decrypt"}
		op := ops[rng.IntN(len(ops))]
		if !st.Enc && rng.IntN(10) < 7 {
			op = "encrypt"
		}
		if st.Enc && op == "encrypt" && rng.IntN(3) > 0 {
			op = ops[1+rng.IntN(4)]
		}
		// credentials
		var u, o, cred string
		switch c := rng.IntN(20); {
		case c < 10 || !st.Enc:
			u, o, cred = st.UPW, st.OPW, "both-right"
		case c < 12:
			u, o, cred = st.UPW, pw(), "owner-from-pool"
		case c < 14:
			u, o, cred = pw(), st.OPW, "user-from-pool"
		case c < 16:
			u, o, cred = st.UPW, "", "owner-empty"
		case c < 17:
			u, o, cred = "", st.OPW, "user-empty"
		case c < 18:
			u, o, cred = st.OPW, st.UPW, "swapped"
		default:
			u, o, cred = randPW(rng), randPW(rng), "both-fresh"
		}
		s := step{Op: op, U: u, O: o, Cred: cred}
		before, _ := os.ReadFile(file)
		next := st
		var want bool
		var err error
		switch op {
		case "encrypt":
			a := algos[rng.IntN(len(algos))]
			if pdf20 && rng.IntN(3) > 0 {
				a = algos[3]
			}
			nu, no := pw(), pw()
			switch rng.IntN(10) {
			case 0:
				nu = ""
			case 1:
				no = ""
			case 2, 3:
				no = nu
			}
			perm := randPerm(rng)
			s.Alg, s.U, s.O, s.Cred, s.Perm = a.Name, nu, no, "new", fmt.Sprintf("%04X", uint16(perm))
			conf := a.conf(nu, no)
			conf.Permissions = perm
			// documented: encryption needs an owner password; PDF 2.0 needs AES-256; encrypted input is refused
			want = !st.Enc && no != "" && (!pdf20 || a.KeyLen == 256)
			next = state{Enc: true, UPW: nu, OPW: no, Perm: perm, Alg: a}
			err = safely(func() error { return api.EncryptFile(file, "", conf) })
			if want {
				note(nu, "user")
				note(no, "owner")
			}
		case "change-owner":
			np := pw()
			if rng.IntN(10) == 0 {
				np = ""
			}
			s.New = np
			want = st.changeOK(u, o) && np != ""
			next.OPW = np
			conf := st.Alg.conf(u, o)
			err = safely(func() error { return api.ChangeOwnerPasswordFile(file, "", o, np, conf) })
			note(o, "wrong-credential")
			note(u, "wrong-credential")
			if want {
				note(np, "owner")
			}
		case "change-user":
			np := pw()
			if rng.IntN(8) == 0 {
				np = ""
			}
			s.New = np
			want = st.changeOK(u, o)
			next.UPW = np
			conf := st.Alg.conf(u, o)
			err = safely(func() error { return api.ChangeUserPasswordFile(file, "", u, np, conf) })
			note(o, "wrong-credential")
			note(u, "wrong-credential")
			if want {
				note(np, "user")
			}
		case "set-permissions":
			perm := randPerm(rng)
			s.Perm = fmt.Sprintf("%04X", uint16(perm))
			want = st.changeOK(u, o)
			next.Perm = perm
			conf := st.Alg.conf(u, o)
			conf.Permissions = perm
			err = safely(func() error { return api.SetPermissionsFile(file, "", conf) })
			note(o, "wrong-credential")
			note(u, "wrong-credential")
		case "decrypt":
			want = st.Enc && st.opens(u, o)
			next = state{}
			conf := st.Alg.conf(u, o)
			err = safely(func() error { return api.DecryptFile(file, "", conf) })
			note(o, "wrong-credential")
			note(u, "wrong-credential")
		}
		s.WantOK, s.Got = want, errClass(err)
		h.Steps = append(h.Steps, s)
		algName := revGroup(st.Enc, st.Alg)
		if op == "encrypt" {
			algName = "new:" + revGroup(true, next.Alg)
			if st.Enc {
				algName = "already-encrypted"
			}
		}
		t.Eval(fmt.Sprintf("%d/%d|%s|%s|%s|%v", idx, k, op, algName, cred, want))
		t.Count("steps/"+op+"/"+ifs(want, "model-ok", "model-fail"), 1)
		t.Count("step_outcomes/"+s.Got, 1)
		after, _ := os.ReadFile(file)
		switch {
		case want && err != nil:
			t.Violate(fmt.Sprintf("step/op=%s/rev=%s/cred=%s/want=ok/got=%s", op, algName, cred, s.Got), fmt.Sprintf("model predicts success: %v", err), h)
			return
		case !want && err == nil:
			t.Violate(fmt.Sprintf("step/op=%s/rev=%s/cred=%s/want=fail/got=ok", op, algName, cred), "operation succeeded although the model (credentials/state) predicts failure", h)
			return
		case !want && !bytes.Equal(before, after):
			t.Violate(fmt.Sprintf("step/op=%s/failed-but-file-changed", op), "the operation failed but the file is not byte-identical to before", h)
			return
		}
		if want {
			st = next
		}
		// the changed permissions must be in effect
		if want && st.Enc {
			var p *int16
			e := safely(func() error { var e error; p, e = api.GetPermissionsFile(file, st.Alg.conf(st.UPW, st.OPW)); return e })
			if e != nil || p == nil || uint16(*p) != uint16(st.Perm) {
				t.Violate(fmt.Sprintf("after/op=%s/rev=%s/permissions-not-in-effect", op, revGroup(true, st.Alg)), fmt.Sprintf("GetPermissionsFile: %v %v, model %04X", p, e, uint16(st.Perm)), h)
				return
			}
		}
		// probe every password ever used plus two fresh ones, in both slots
		probes := map[string]string{}
		for p, how := range used {
			probes[p] = "previously:" + how
		}
		probes[randPW(rng)+"~"] = "fresh"
		probes[randPW(rng)+"^"] = "fresh"
		if st.Enc {
			probes[st.UPW] = "current-user"
			if st.OPW == st.UPW {
				probes[st.OPW] = "current-user=owner"
			} else {
				probes[st.OPW] = "current-owner"
			}
		}
		order := make([]string, 0, len(probes))
		for p := range probes {
			order = append(order, p)
		}
		sort.Strings(order)
		for _, p := range order {
			rel := probes[p]
			if p == "" {
				rel = "empty(" + rel + ")"
			}
			for _, slot := range []string{"user", "owner"} {
				pu, po := p, ""
				if slot == "owner" {
					pu, po = "", p
				}
				want := st.opens(pu, po)
				ctx, err := open(file, pu, po)
				t.Eval("")
				t.Count("probes/"+ifs(want, "must-open", "must-reject"), 1)
				alg := revGroup(st.Enc, st.Alg)
				hh := h
				hh.Probe = fmt.Sprintf("after step %d: password %q (%s) as %s password: %s", k, p, rel, slot, errClass(err))
				key := fmt.Sprintf("probe/rev=%s/pw=%s/slot=%s", alg, rel, slot)
				switch {
				case want && err != nil:
					t.Violate(key+"/want=open/got="+errClass(err), hh.Probe+": "+err.Error(), hh)
					return
				case !want && err == nil:
					t.Violate(key+"/want=reject/got=open", hh.Probe, hh)
					return
				case !want && !errors.Is(err, pdfcpu.ErrWrongPassword):
					t.Violate(key+"/rejected-with="+errClass(err), hh.Probe+": not ErrWrongPassword: "+err.Error(), hh)
					return
				case !want && ctx != nil:
					t.Violate(key+"/context-returned-with-error", hh.Probe, hh)
					return
				}
			}
		}
	}
	if idx < 3 {
		t.Sample(h)
	}
}

// revGroup names the password rules in force: revisions 2-4 (RC4-40/128, AES-128) or 5/6 (AES-256).
func revGroup(enc bool, a algo) string {
	switch {
	case !enc:
		return "none"
	case a.KeyLen == 256:
		return "R5-6"
	}
	return "R2-4"
}

func ifs(c bool, a, b string) string {
	if c {
		return a
	}
	return b
}

func main() {
	vk.Run("C25", "exploration", func(t *vk.T) {
		api.DisableConfigDir()
		t.Rule("random histories (1-8 steps) over encrypt/change-owner/change-user/set-permissions/decrypt x 4 algorithms x right/wrong/empty/swapped credentials from a 4-password pool (so equal and recycled passwords are frequent), on a PDF 1.7 and a PDF 2.0 corpus document; after every step each password ever used + 2 fresh ones is offered as user and as owner password; non-trivial = distinct (sequence, step, op, alg, credential class, predicted outcome)")
		t.Assume("pdfcpu documents: encryption needs a non-empty owner password (ErrOwnerPasswordRequired; the spec would fall back to the user password), the new owner password of a change must be non-empty, PDF 2.0 needs AES-256, an already encrypted file cannot be encrypted again")
		t.Assume("pdfcpu documents that changing passwords or permissions needs BOTH current passwords (property: at least the owner password); the model predicts success only then")
		t.Assume("decrypting needs any password that opens the document (user or owner); the property does not restrict it further")
		t.Assume("for revisions 2-4 an empty owner-password field falls back to the user-password field (Algorithm 3 step (a)); passwords are ASCII alphanumerics of 1-10 bytes so that string equality is password equality under every revision")
		docs := []string{filepath.Join(vk.RepoDir(), "pkg", "testdata", "test.pdf"), filepath.Join(vk.RepoDir(), "pkg", "testdata", "pdf20", "SimplePDF2.0.pdf")}
		for _, d := range docs {
			c := model.NewDefaultConfiguration()
			c.Offline = true
			if err := api.ValidateFile(d, c); err != nil {
				t.Broken("corpus document %s does not validate: %v", d, err)
			}
		}
		dir := t.Scratch()
		n := t.Pick(150, 3000)
		vk.Parallel(n, func(i int) { runSequence(t, i, dir, docs) })
		t.Count("sequences", int64(n))
	})
}
