// C25 — wrong passwords are rejected and password changes take effect.
//
// Layer 1 (owner clause, deterministic matrix): for every algorithm (RC4-40, RC4-128, AES-128,
// AES-256 on a PDF 1.7 document, AES-256 on a PDF 2.0 document) a document with distinct user and
// owner passwords (and one with an empty user password); change-user / change-owner /
// set-permissions are attempted with the USER password in both slots, in the user slot only and in
// the owner slot only: every attempt must fail, leave the file byte-identical and leave passwords
// and permissions as they were; then each change is made with the right credentials and must take
// effect (new password opens in its slot, the replaced one is rejected in both slots).
//
// Layer 2 (histories): random histories of encrypt / change owner pw / change user pw / set
// permissions / decrypt with right and wrong credentials against a reference model
// (upw, opw, P, alg | not encrypted); after every step every password ever used plus two fresh
// ones is offered as user and as owner password.
//
// The oracle is three-valued and demands exactly what the property says:
//
//	must-fail   a change without the current owner password in either slot; an open / decrypt
//	            with neither current password in either slot (ErrWrongPassword, no context)
//	must-succeed fully right credentials in the right slots (a current password opens in its slot)
//	unconstrained everything in between (owner password present but user password wrong, a current
//	            password in the other slot, operations on a document that is not encrypted):
//	            observed and counted, a failed operation must leave the file unchanged
package main

import (
	"bytes"
	"errors"
	"fmt"
	"math/rand/v2"
	"os"
	"path/filepath"
	"regexp"
	"sort"
	"strings"

	"github.com/pdfcpu/pdfcpu/pkg/api"
	"github.com/pdfcpu/pdfcpu/pkg/pdfcpu"
	"github.com/pdfcpu/pdfcpu/pkg/pdfcpu/model"
	"verif/harness/internal/vk"
)

type algo struct {
	Name   string
	AES    bool
	KeyLen int
}

var algos = []algo{{"RC4-40", false, 40}, {"RC4-128", false, 128}, {"AES-128", true, 128}, {"AES-256", true, 256}}

func (a algo) conf(upw, opw string) *model.Configuration {
	var c *model.Configuration
	if a.AES {
		c = model.NewAESConfiguration(upw, opw, a.KeyLen)
	} else {
		c = model.NewRC4Configuration(upw, opw, a.KeyLen)
	}
	c.Offline = true
	return c
}

// state is the reference model; Enc false = not encrypted.
type state struct {
	Enc      bool
	UPW, OPW string
	Perm     model.PermissionFlags
	Alg      algo
}

// expectation of one operation / one open
type exp int

const (
	mustFail exp = iota
	mustOK
	unconstrained
)

func (e exp) String() string { return [...]string{"must-fail", "must-succeed", "unconstrained"}[e] }

func (s state) fallback() bool { return s.Alg.KeyLen != 256 }

// ownerOK / userOK: what supplying (U, O) authenticates in the slots' own meaning, as the standard
// security handler defines it and pdfcpu documents it ("opw ... required unless = \"\""): for
// revisions 2-4 an empty owner-password field means "no owner password", for which Algorithm 3
// step (a) uses the user password; revisions 5/6 have no fallback.
func (s state) ownerOK(u, o string) bool {
	if !s.fallback() {
		return o != "" && o == s.OPW
	}
	if o == "" {
		o = u
	}
	return o == s.OPW
}
func (s state) userOK(u string) bool { return u == s.UPW }

// anyCurrent: one of the two offered strings IS the current user or owner password (in whatever
// slot). The property's "neither its user nor its owner password" is the negation.
func (s state) anyCurrent(u, o string) bool {
	return u == s.UPW || u == s.OPW || o == s.UPW || o == s.OPW
}

// hasOwner: the current owner password was offered (in whatever slot).
func (s state) hasOwner(u, o string) bool { return u == s.OPW || o == s.OPW }

// expectOpen: opening / decrypting with (U, O).
func (s state) expectOpen(u, o string) exp {
	switch {
	case !s.Enc:
		return mustOK
	case s.userOK(u) || (o != "" && o == s.OPW):
		return mustOK // a current password in its own slot
	case !s.anyCurrent(u, o):
		return mustFail // neither password
	}
	return unconstrained // a current password in the other slot (revisions 2-4: the documented fallback)
}

// expectChange: a password / permission change with (U, O). pdfcpu documents that it needs both
// current passwords; the property demands the owner password.
func (s state) expectChange(u, o string) exp {
	switch {
	case !s.Enc:
		return unconstrained
	case !s.hasOwner(u, o):
		return mustFail
	case s.ownerOK(u, o) && s.userOK(u):
		return mustOK
	}
	return unconstrained
}

// effectiveOwner: the owner password a rewrite of the encryption dictionary stores when the
// owner-password field holds o and the user password (after the change) is u.
func (s state) effectiveOwner(u, o string) string {
	if o == "" && s.fallback() {
		return u
	}
	return o
}

type step struct {
	Op     string `json:"op"`
	Alg    string `json:"alg,omitempty"`
	U      string `json:"conf_user_pw"`
	O      string `json:"conf_owner_pw"`
	New    string `json:"new_pw,omitempty"`
	Perm   string `json:"perm,omitempty"`
	Cred   string `json:"cred_class"`
	Expect string `json:"expectation"`
	Got    string `json:"got"`
}

type history struct {
	Doc   string `json:"doc"`
	Steps []step `json:"steps"`
	Probe string `json:"probe,omitempty"`
}

func errClass(err error) string {
	if err == nil {
		return "ok"
	}
	for _, c := range []struct {
		e error
		n string
	}{{pdfcpu.ErrWrongPassword, "ErrWrongPassword"}, {pdfcpu.ErrOwnerPasswordRequired, "ErrOwnerPasswordRequired"}, {pdfcpu.ErrPermissionDenied, "ErrPermissionDenied"},
		{pdfcpu.ErrNotEncrypted, "ErrNotEncrypted"}, {pdfcpu.ErrEncrypted, "ErrEncrypted"}, {pdfcpu.ErrUnsupportedEncryptionFeature, "ErrUnsupportedEncryptionFeature"},
		{pdfcpu.ErrMalformedEncryption, "ErrMalformedEncryption"}} {
		if errors.Is(err, c.e) {
			return c.n
		}
	}
	s := err.Error()
	if strings.Contains(s, "panic") {
		return "panic"
	}
	s = regexp.MustCompile(`[0-9]+`).ReplaceAllString(s, "N")
	if i := strings.LastIndex(s, ": "); i >= 0 {
		s = s[i+2:]
	}
	if len(s) > 50 {
		s = s[:50]
	}
	return strings.ReplaceAll(s, " ", "-")
}

func safely(f func() error) (err error) {
	defer func() {
		if r := recover(); r != nil {
			err = fmt.Errorf("panic: %v", r)
		}
	}()
	return f()
}

const alnum = "abcdefghijklmnopqrstuvwxyzABCDEFGHIJKLMNOPQRSTUVWXYZ0123456789"

func randPW(r *rand.Rand) string {
	b := make([]byte, 1+r.IntN(10))
	for i := range b {
		b[i] = alnum[r.IntN(len(alnum))]
	}
	return string(b)
}

func randPerm(r *rand.Rand) model.PermissionFlags {
	return model.PermissionsNone | model.PermissionFlags(r.IntN(1<<12)&0x0F3C)
}

// open offers (u, o) to the file and returns the context and error.
func open(file, u, o string) (*model.Context, error) {
	var ctx *model.Context
	err := safely(func() error {
		f, err := os.Open(file)
		if err != nil {
			return err
		}
		defer f.Close()
		conf := model.NewDefaultConfiguration()
		conf.Offline = true
		conf.UserPW, conf.OwnerPW = u, o
		var e error
		ctx, e = api.ReadContext(f, conf)
		return e
	})
	return ctx, err
}

func changeUser(file string, a algo, u, o, np string) error {
	return safely(func() error { return api.ChangeUserPasswordFile(file, "", u, np, a.conf(u, o)) })
}

func changeOwner(file string, a algo, u, o, np string) error {
	return safely(func() error { return api.ChangeOwnerPasswordFile(file, "", o, np, a.conf(u, o)) })
}

func setPerm(file string, a algo, u, o string, p model.PermissionFlags) error {
	conf := a.conf(u, o)
	conf.Permissions = p
	return safely(func() error { return api.SetPermissionsFile(file, "", conf) })
}

func getPerm(file string, a algo, u, o string) (uint16, error) {
	var p *int16
	err := safely(func() error { var e error; p, e = api.GetPermissionsFile(file, a.conf(u, o)); return e })
	if err != nil {
		return 0, err
	}
	if p == nil {
		return 0, errors.New("no permissions reported")
	}
	return uint16(*p), nil
}

// ---- layer 1: the owner clause, user password in every slot, every algorithm -----------------

type matrixCase struct {
	Doc, Alg, Shape string
	UPW, OPW        string
	Op, Cred, U, O  string
	Got             string
}

func ownerClause(t *vk.T, unit int, dir string, docs []string) {
	type cfg struct {
		a     algo
		doc   string
		label string
	}
	cfgs := []cfg{}
	for _, a := range algos {
		cfgs = append(cfgs, cfg{a, docs[0], a.Name})
	}
	cfgs = append(cfgs, cfg{algos[3], docs[1], "AES-256/pdf20"})
	c := cfgs[unit/2]
	shape := []string{"distinct", "empty-user"}[unit%2]
	rng := t.RNGi("owner-clause", unit)
	upw, opw := "u"+randPW(rng), "o"+randPW(rng)
	if shape == "empty-user" {
		upw = ""
	}
	perm := randPerm(rng)
	file := filepath.Join(dir, fmt.Sprintf("oc-%d.pdf", unit))
	raw, err := os.ReadFile(c.doc)
	if err != nil {
		t.Broken("%v", err)
	}
	if err := os.WriteFile(file, raw, 0o644); err != nil {
		t.Broken("%v", err)
	}
	defer os.Remove(file)
	mc := matrixCase{Doc: filepath.Base(c.doc), Alg: c.label, Shape: shape, UPW: upw, OPW: opw}
	conf := c.a.conf(upw, opw)
	conf.Permissions = perm
	if err := safely(func() error { return api.EncryptFile(file, "", conf) }); err != nil {
		mc.Got = errClass(err)
		t.Violate(fmt.Sprintf("owner-clause/setup/encrypt/alg=%s/got=%s", c.label, mc.Got), "encrypting with a user and an owner password failed: "+err.Error(), mc)
		return
	}
	encrypted, _ := os.ReadFile(file)

	// unchanged: the passwords and permissions are those of the encryption
	unchanged := func(after string) bool {
		for _, pr := range []struct {
			u, o string
			want bool
			what string
		}{{upw, "", true, "user-pw"}, {"", opw, true, "owner-pw"}, {"N1x", "", false, "new-pw-as-user"}, {"", "N1x", false, "new-pw-as-owner"}} {
			if !pr.want && upw == "" {
				continue // the other slot holds the (empty) user password: not "neither", unconstrained
			}
			ctx, err := open(file, pr.u, pr.o)
			t.Eval("")
			if (err == nil) != pr.want || (err != nil && ctx != nil) {
				mc.Got = errClass(err)
				t.Violate(fmt.Sprintf("owner-clause/alg=%s/after=%s/%s/got=%s", c.label, after, pr.what, mc.Got), fmt.Sprintf("after %s: opening with (%q,%q): %v", after, pr.u, pr.o, err), mc)
				return false
			}
		}
		p, err := getPerm(file, c.a, upw, opw)
		if err != nil || p != uint16(perm) {
			t.Violate(fmt.Sprintf("owner-clause/alg=%s/after=%s/permissions-changed", c.label, after), fmt.Sprintf("after %s: permissions %04X (%v), set %04X", after, p, err, uint16(perm)), mc)
			return false
		}
		return true
	}

	creds := []struct{ name, u, o string }{{"user-pw-in-both-slots", upw, upw}, {"user-pw-in-user-slot", upw, ""}, {"user-pw-in-owner-slot", "", upw}}
	if shape == "empty-user" {
		creds = creds[:1] // all three are ("", "")
	}
	for _, op := range []string{"change-user", "change-owner", "set-permissions"} {
		for _, cr := range creds {
			var err error
			switch op {
			case "change-user":
				err = changeUser(file, c.a, cr.u, cr.o, "N1x")
			case "change-owner":
				err = changeOwner(file, c.a, cr.u, cr.o, "N1x")
			case "set-permissions":
				err = setPerm(file, c.a, cr.u, cr.o, perm^0x0F3C)
			}
			mc.Op, mc.Cred, mc.U, mc.O, mc.Got = op, cr.name, cr.u, cr.o, errClass(err)
			t.Eval(fmt.Sprintf("oc|%s|%s|%s|%s", c.label, shape, op, cr.name))
			t.Count("owner_clause/refusals/"+mc.Got, 1)
			key := fmt.Sprintf("owner-clause/op=%s/alg=%s/upw=%s/cred=%s", op, c.label, shape, cr.name)
			after, _ := os.ReadFile(file)
			switch {
			case err == nil:
				t.Violate(key+"/got=ok", "the change succeeded although only the user password was supplied (the current owner password is required)", mc)
				return
			case !bytes.Equal(after, encrypted):
				t.Violate(key+"/refused-but-file-changed", "the change was refused ("+mc.Got+") but the file is not byte-identical to before", mc)
				return
			}
		}
	}
	if !unchanged("refused-changes") {
		return
	}

	// positive control: with the right credentials every change takes effect and only the new password works
	mc.Cred, mc.U, mc.O = "both-right", upw, opw
	fail := func(op string, err error) {
		mc.Op, mc.Got = op, errClass(err)
		t.Violate(fmt.Sprintf("owner-clause/op=%s/alg=%s/upw=%s/cred=both-right/got=%s", op, c.label, shape, mc.Got), "the change failed although both current passwords were supplied: "+err.Error(), mc)
	}
	opened := func(what, u, o string, want bool) bool {
		ctx, err := open(file, u, o)
		t.Eval("")
		if (err == nil) == want && (err == nil || (ctx == nil && errors.Is(err, pdfcpu.ErrWrongPassword))) {
			return true
		}
		mc.Got = errClass(err)
		t.Violate(fmt.Sprintf("owner-clause/alg=%s/upw=%s/after=%s/want-open=%v/got=%s", c.label, shape, what, want, mc.Got), fmt.Sprintf("%s: opening with (%q,%q): %v", what, u, o, err), mc)
		return false
	}
	perm2 := perm ^ 0x0804
	if err := setPerm(file, c.a, upw, opw, perm2); err != nil {
		fail("set-permissions", err)
		return
	}
	t.Eval(fmt.Sprintf("oc|%s|%s|set-permissions|both-right", c.label, shape))
	if p, err := getPerm(file, c.a, upw, opw); err != nil || p != uint16(perm2) {
		t.Violate(fmt.Sprintf("owner-clause/alg=%s/after=set-permissions/permissions-not-in-effect", c.label), fmt.Sprintf("permissions %04X (%v), set %04X", p, err, uint16(perm2)), mc)
		return
	}
	if err := changeUser(file, c.a, upw, opw, "N2u"); err != nil {
		fail("change-user", err)
		return
	}
	t.Eval(fmt.Sprintf("oc|%s|%s|change-user|both-right", c.label, shape))
	mc.Op = "change-user"
	if !opened("change-user/new-user-pw", "N2u", "", true) || !opened("change-user/owner-pw", "", opw, true) ||
		!opened("change-user/old-user-pw-as-user", upw, "", false) || (upw != "" && !opened("change-user/old-user-pw-as-owner", "", upw, false)) {
		return
	}
	if err := changeOwner(file, c.a, "N2u", opw, "N3o"); err != nil {
		fail("change-owner", err)
		return
	}
	t.Eval(fmt.Sprintf("oc|%s|%s|change-owner|both-right", c.label, shape))
	mc.Op = "change-owner"
	if !opened("change-owner/new-owner-pw", "", "N3o", true) || !opened("change-owner/user-pw", "N2u", "", true) ||
		!opened("change-owner/old-owner-pw-as-owner", "", opw, false) || !opened("change-owner/old-owner-pw-as-user", opw, "", false) {
		return
	}
	if unit < 2 {
		t.Sample(mc)
	}
}

// ---- layer 2: histories --------------------------------------------------------------------------

func runSequence(t *vk.T, idx int, dir string, docs []string) {
	rng := t.RNGi("seq", idx)
	doc := docs[0]
	pdf20 := false
	if rng.IntN(4) == 0 {
		doc, pdf20 = docs[1], true
	}
	file := filepath.Join(dir, fmt.Sprintf("seq-%d.pdf", idx))
	raw, err := os.ReadFile(doc)
	if err != nil {
		t.Broken("%v", err)
	}
	if err := os.WriteFile(file, raw, 0o644); err != nil {
		t.Broken("%v", err)
	}
	defer os.Remove(file)

	// a small pool so that equal passwords (user = owner, reuse of old passwords) happen often
	pool := []string{randPW(rng), randPW(rng), randPW(rng), randPW(rng)}
	pw := func() string { return pool[rng.IntN(len(pool))] }
	used := map[string]string{} // password -> how it was last used
	note := func(p, how string) {
		if _, ok := used[p]; !ok || how != "wrong-credential" {
			used[p] = how
		}
	}
	var st state
	h := history{Doc: filepath.Base(doc)}
	n := 1 + rng.IntN(8)
	for k := 0; k < n; k++ {
		// choose the operation
		ops := []string{"encrypt", "change-owner", "change-user", "set-permissions", "decrypt"}
		op := ops[rng.IntN(len(ops))]
		if !st.Enc && rng.IntN(10) < 7 {
			op = "encrypt"
		}
		if st.Enc && op == "encrypt" && rng.IntN(3) > 0 {
			op = ops[1+rng.IntN(4)]
		}
		// credentials
		var u, o, cred string
		switch c := rng.IntN(24); {
		case c < 10 || !st.Enc:
			u, o, cred = st.UPW, st.OPW, "both-right"
		case c < 12:
			u, o, cred = st.UPW, pw(), "owner-from-pool"
		case c < 14:
			u, o, cred = pw(), st.OPW, "user-from-pool"
		case c < 16:
			u, o, cred = st.UPW, "", "owner-empty"
		case c < 17:
			u, o, cred = "", st.OPW, "user-empty"
		case c < 18:
			u, o, cred = st.OPW, st.UPW, "swapped"
		case c < 20:
			u, o, cred = st.UPW, st.UPW, "user-pw-in-both-slots"
		case c < 22:
			u, o, cred = "", st.UPW, "user-pw-in-owner-slot"
		default:
			u, o, cred = randPW(rng), randPW(rng), "both-fresh"
		}
		s := step{Op: op, U: u, O: o, Cred: cred}
		before, _ := os.ReadFile(file)
		next := st
		var want exp
		var err error
		switch op {
		case "encrypt":
			a := algos[rng.IntN(len(algos))]
			if pdf20 && rng.IntN(3) > 0 {
				a = algos[3]
			}
			nu, no := pw(), pw()
			switch rng.IntN(10) {
			case 0:
				nu = ""
			case 1:
				no = ""
			case 2, 3:
				no = nu
			}
			perm := randPerm(rng)
			s.Alg, s.U, s.O, s.Cred, s.Perm = a.Name, nu, no, "new", fmt.Sprintf("%04X", uint16(perm))
			conf := a.conf(nu, no)
			conf.Permissions = perm
			// documented: encryption needs an owner password; PDF 2.0 needs AES-256; encrypted input is refused
			want = mustFail
			if !st.Enc && no != "" && (!pdf20 || a.KeyLen == 256) {
				want = mustOK
			}
			next = state{Enc: true, UPW: nu, OPW: no, Perm: perm, Alg: a}
			err = safely(func() error { return api.EncryptFile(file, "", conf) })
			if want == mustOK {
				note(nu, "user")
				note(no, "owner")
			}
		case "change-owner":
			np := pw()
			if rng.IntN(10) == 0 {
				np = ""
			}
			s.New = np
			want = st.expectChange(u, o)
			if np == "" && want == mustOK {
				want = unconstrained // pdfcpu documents a non-empty new owner password; the property is silent
			}
			next.OPW = np
			err = changeOwner(file, st.Alg, u, o, np)
			note(o, "wrong-credential")
			note(u, "wrong-credential")
			if err == nil {
				note(np, "owner")
			}
		case "change-user":
			np := pw()
			if rng.IntN(8) == 0 {
				np = ""
			}
			s.New = np
			want = st.expectChange(u, o)
			next.UPW = np
			// the rewrite stores the owner password of the owner-password field; an empty field
			// (revisions 2-4, only authorised when user pw = owner pw) means "no owner password":
			// Algorithm 3 (a) then uses the (new) user password
			next.OPW = st.effectiveOwner(np, o)
			err = changeUser(file, st.Alg, u, o, np)
			note(o, "wrong-credential")
			note(u, "wrong-credential")
			if err == nil {
				note(np, "user")
			}
		case "set-permissions":
			perm := randPerm(rng)
			s.Perm = fmt.Sprintf("%04X", uint16(perm))
			want = st.expectChange(u, o)
			next.Perm = perm
			next.OPW = st.effectiveOwner(u, o)
			err = setPerm(file, st.Alg, u, o, perm)
			note(o, "wrong-credential")
			note(u, "wrong-credential")
		case "decrypt":
			want = st.expectOpen(u, o)
			if !st.Enc {
				want = unconstrained // pdfcpu documents ErrNotEncrypted; the property is silent
			}
			next = state{}
			conf := st.Alg.conf(u, o)
			err = safely(func() error { return api.DecryptFile(file, "", conf) })
			note(o, "wrong-credential")
			note(u, "wrong-credential")
		}
		s.Expect, s.Got = want.String(), errClass(err)
		h.Steps = append(h.Steps, s)
		algName := revGroup(st.Enc, st.Alg)
		if op == "encrypt" {
			algName = "new:" + revGroup(true, next.Alg)
			if st.Enc {
				algName = "already-encrypted"
			}
		}
		t.Eval(fmt.Sprintf("%d/%d|%s|%s|%s|%v", idx, k, op, algName, cred, want))
		t.Count("steps/"+op+"/"+want.String(), 1)
		t.Count("step_outcomes/"+s.Got, 1)
		after, _ := os.ReadFile(file)
		switch {
		case want == mustOK && err != nil:
			t.Violate(fmt.Sprintf("step/op=%s/rev=%s/cred=%s/want=ok/got=%s", op, algName, cred, s.Got), fmt.Sprintf("right credentials, the operation must succeed: %v", err), h)
			return
		case want == mustFail && err == nil:
			t.Violate(fmt.Sprintf("step/op=%s/rev=%s/cred=%s/want=fail/got=ok", op, algName, cred), "operation succeeded although it must fail (change: no slot holds the current owner password; decrypt: no slot holds a current password; encrypt: documented precondition not met)", h)
			return
		case err != nil && !bytes.Equal(before, after):
			t.Violate(fmt.Sprintf("step/op=%s/failed-but-file-changed", op), "the operation failed but the file is not byte-identical to before", h)
			return
		}
		if want == unconstrained {
			t.Count(fmt.Sprintf("unconstrained_steps/op=%s/rev=%s/cred=%s/%s", op, algName, cred, ifs(err == nil, "succeeded", "failed")), 1)
			if err == nil && st.Enc && op != "decrypt" {
				// a change the property neither demands nor forbids went through with credentials the
				// model has no documented semantics for: the resulting passwords are not predictable
				t.Count("sequences_ended_at_unconstrained_success", 1)
				return
			}
			if err == nil && !st.Enc {
				next = st // must still be a document without encryption (the probes below check that)
			}
		}
		if err == nil {
			st = next
		}
		// the changed permissions must be in effect
		if err == nil && st.Enc {
			p, e := getPerm(file, st.Alg, st.UPW, st.OPW)
			if e != nil || p != uint16(st.Perm) {
				t.Violate(fmt.Sprintf("after/op=%s/rev=%s/permissions-not-in-effect", op, revGroup(true, st.Alg)), fmt.Sprintf("GetPermissionsFile: %04X %v, model %04X", p, e, uint16(st.Perm)), h)
				return
			}
		}
		// probe every password ever used plus two fresh ones, in both slots
		probes := map[string]string{}
		for p, how := range used {
			probes[p] = "previously:" + how
		}
		probes[randPW(rng)+"~"] = "fresh"
		probes[randPW(rng)+"^"] = "fresh"
		if st.Enc {
			probes[st.UPW] = "current-user"
			if st.OPW == st.UPW {
				probes[st.OPW] = "current-user=owner"
			} else {
				probes[st.OPW] = "current-owner"
			}
		}
		order := make([]string, 0, len(probes))
		for p := range probes {
			order = append(order, p)
		}
		sort.Strings(order)
		for _, p := range order {
			rel := probes[p]
			if p == "" {
				rel = "empty(" + rel + ")"
			}
			for _, slot := range []string{"user", "owner"} {
				pu, po := p, ""
				if slot == "owner" {
					pu, po = "", p
				}
				want := st.expectOpen(pu, po)
				ctx, err := open(file, pu, po)
				t.Eval("")
				t.Count("probes/"+want.String(), 1)
				alg := revGroup(st.Enc, st.Alg)
				hh := h
				hh.Probe = fmt.Sprintf("after step %d: password %q (%s) as %s password: %s", k, p, rel, slot, errClass(err))
				key := fmt.Sprintf("probe/rev=%s/pw=%s/slot=%s", alg, rel, slot)
				switch {
				case want == mustOK && err != nil:
					t.Violate(key+"/want=open/got="+errClass(err), hh.Probe+": "+err.Error(), hh)
					return
				case want == mustFail && err == nil:
					t.Violate(key+"/want=reject/got=open", hh.Probe, hh)
					return
				case want == mustFail && !errors.Is(err, pdfcpu.ErrWrongPassword):
					t.Violate(key+"/rejected-with="+errClass(err), hh.Probe+": not ErrWrongPassword: "+err.Error(), hh)
					return
				case err != nil && ctx != nil:
					t.Violate(key+"/context-returned-with-error", hh.Probe, hh)
					return
				}
				if want == unconstrained {
					t.Count(fmt.Sprintf("unconstrained_probes/rev=%s/pw=%s/slot=%s/%s", alg, rel, slot, ifs(err == nil, "opened", "rejected")), 1)
				}
			}
		}
	}
	if idx < 3 {
		t.Sample(h)
	}
}

// revGroup names the password rules in force: revisions 2-4 (RC4-40/128, AES-128) or 5/6 (AES-256).
func revGroup(enc bool, a algo) string {
	switch {
	case !enc:
		return "none"
	case a.KeyLen == 256:
		return "R5-6"
	}
	return "R2-4"
}

func ifs(c bool, a, b string) string {
	if c {
		return a
	}
	return b
}

func main() {
	vk.Run("C25", "exploration", func(t *vk.T) {
		api.DisableConfigDir()
		t.Rule("(1) owner clause: 5 algorithm/version configurations x {distinct passwords, empty user password} x {change-user, change-owner, set-permissions} x user password in {both slots, user slot, owner slot}: refused, file and passwords unchanged; then the same changes with both right passwords take effect. (2) random histories (1-8 steps) over encrypt/change-owner/change-user/set-permissions/decrypt x 4 algorithms x right/wrong/empty/swapped/user-pw-as-owner credentials from a 4-password pool (so equal and recycled passwords are frequent), on a PDF 1.7 and a PDF 2.0 corpus document; after every step each password ever used + 2 fresh ones is offered as user and as owner password; non-trivial = distinct (sequence, step, op, alg, credential class, expectation)")
		t.Assume("three-valued oracle: must-fail = the property's clauses (change without the current owner password in any slot; open/decrypt with neither current password in any slot); must-succeed = both right passwords in their own slots (open: a current password in its own slot); everything else is unconstrained (observed, counted under unconstrained_*; a sequence whose unconstrained change succeeds ends there)")
		t.Assume("pdfcpu documents: encryption needs a non-empty owner password (ErrOwnerPasswordRequired), PDF 2.0 needs AES-256, an already encrypted file cannot be encrypted again; these three decide whether an encrypt step is expected to succeed")
		t.Assume("for revisions 2-4 an empty owner-password field means 'no owner password' and Algorithm 3 step (a) substitutes the user password, when authenticating AND when /O is rewritten: change-user with an empty owner field (authorised only if user pw = owner pw) leaves a document whose owner password is the new user password (CLI help: 'opw ... required unless = \"\"')")
		t.Assume("passwords are ASCII alphanumerics of 1-10 bytes (+ one marker byte) so that string equality is password equality under every revision")
		docs := []string{filepath.Join(vk.RepoDir(), "pkg", "testdata", "test.pdf"), filepath.Join(vk.RepoDir(), "pkg", "testdata", "pdf20", "SimplePDF2.0.pdf")}
		for _, d := range docs {
			c := model.NewDefaultConfiguration()
			c.Offline = true
			if err := api.ValidateFile(d, c); err != nil {
				t.Broken("corpus document %s does not validate: %v", d, err)
			}
		}
		dir := t.Scratch()
		vk.Parallel(10, func(i int) { ownerClause(t, i, dir, docs) })
		t.Count("owner_clause/units", 10)
		n := t.Pick(150, 3000)
		vk.Parallel(n, func(i int) { runSequence(t, i, dir, docs) })
		t.Count("sequences", int64(n))
	})
}
