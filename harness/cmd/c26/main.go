// C26 — restricted documents refuse operations their permissions deny.
// Exhaustive over pdfcpu's command classification (VerifPermTable) x permission bits x revisions:
//  1. pure layer: VerifHasNeededPermissions for every mode x every pattern of the 12 low P bits x R 2..6;
//  2. file layer: documents encrypted by pdfcpu (RC4-40, RC4-128, AES-128, AES-256 on PDF 1.7 and on
//     PDF 2.0) with every combination of bits 4,5,10,11, opened through api.ReadContext with
//     conf.Cmd = mode under every credential PLACEMENT a caller can choose (placements, below): a
//     caller who does not hold the owner password is a user whatever he puts into the owner slot
//     (refused iff a needed right is denied); the correct owner password in the owner slot is never
//     refused;
//  3. a few public API functions end-to-end under the same placements.
//
// What "the document denies extraction / modification" means is taken from ISO 32000-1 Table 22
// (and 32000-2 Table 22), not from pdfcpu.
package main

import (
	"errors"
	"fmt"
	"os"
	"path/filepath"
	"sort"
	"strings"
	"sync"
	"sync/atomic"

	"github.com/pdfcpu/pdfcpu/pkg/api"
	"github.com/pdfcpu/pdfcpu/pkg/pdfcpu"
	"github.com/pdfcpu/pdfcpu/pkg/pdfcpu/model"
	"verif/harness/internal/vk"
)

// baseline: names and the classification recorded when this check was written {extract, modify}.
// The property is relative to pdfcpu's CURRENT table; differences are reported as drift only.
var baseline = map[model.CommandMode]struct {
	Name string
	E, M int
}{
	model.VALIDATE: {"VALIDATE", 0, 0}, model.LISTINFO: {"LISTINFO", 0, 0}, model.OPTIMIZE: {"OPTIMIZE", 0, 0},
	model.SPLIT: {"SPLIT", 1, 0}, model.SPLITBYPAGENR: {"SPLITBYPAGENR", 1, 0},
	model.MERGECREATE: {"MERGECREATE", 0, 0}, model.MERGECREATEZIP: {"MERGECREATEZIP", 0, 0}, model.MERGEAPPEND: {"MERGEAPPEND", 0, 0},
	model.EXTRACTIMAGES: {"EXTRACTIMAGES", 1, 0}, model.EXTRACTFONTS: {"EXTRACTFONTS", 1, 0}, model.EXTRACTPAGES: {"EXTRACTPAGES", 1, 0},
	model.EXTRACTCONTENT: {"EXTRACTCONTENT", 1, 0}, model.EXTRACTMETADATA: {"EXTRACTMETADATA", 1, 0}, model.TRIM: {"TRIM", 0, 1},
	model.LISTATTACHMENTS: {"LISTATTACHMENTS", 0, 0}, model.EXTRACTATTACHMENTS: {"EXTRACTATTACHMENTS", 1, 0},
	model.ADDATTACHMENTS: {"ADDATTACHMENTS", 0, 1}, model.ADDATTACHMENTSPORTFOLIO: {"ADDATTACHMENTSPORTFOLIO", 0, 1}, model.REMOVEATTACHMENTS: {"REMOVEATTACHMENTS", 0, 1},
	model.LISTPERMISSIONS: {"LISTPERMISSIONS", 0, 0}, model.SETPERMISSIONS: {"SETPERMISSIONS", 0, 0},
	model.ADDWATERMARKS: {"ADDWATERMARKS", 0, 1}, model.REMOVEWATERMARKS: {"REMOVEWATERMARKS", 0, 1}, model.IMPORTIMAGES: {"IMPORTIMAGES", 0, 1},
	model.INSERTPAGESBEFORE: {"INSERTPAGESBEFORE", 0, 1}, model.INSERTPAGESAFTER: {"INSERTPAGESAFTER", 0, 1}, model.REMOVEPAGES: {"REMOVEPAGES", 0, 1},
	model.LISTKEYWORDS: {"LISTKEYWORDS", 0, 0}, model.ADDKEYWORDS: {"ADDKEYWORDS", 0, 1}, model.REMOVEKEYWORDS: {"REMOVEKEYWORDS", 0, 1},
	model.LISTPROPERTIES: {"LISTPROPERTIES", 0, 0}, model.ADDPROPERTIES: {"ADDPROPERTIES", 0, 1}, model.REMOVEPROPERTIES: {"REMOVEPROPERTIES", 0, 1},
	model.COLLECT: {"COLLECT", 1, 0}, model.CROP: {"CROP", 0, 1}, model.LISTBOXES: {"LISTBOXES", 0, 0}, model.ADDBOXES: {"ADDBOXES", 0, 1}, model.REMOVEBOXES: {"REMOVEBOXES", 0, 1},
	model.LISTANNOTATIONS: {"LISTANNOTATIONS", 0, 1}, model.ADDANNOTATIONS: {"ADDANNOTATIONS", 0, 1}, model.REMOVEANNOTATIONS: {"REMOVEANNOTATIONS", 0, 1},
	model.ROTATE: {"ROTATE", 0, 1}, model.NUP: {"NUP", 0, 1}, model.GRID: {"GRID", 0, 1}, model.BOOKLET: {"BOOKLET", 0, 1},
	model.LISTBOOKMARKS: {"LISTBOOKMARKS", 0, 0}, model.ADDBOOKMARKS: {"ADDBOOKMARKS", 0, 1}, model.REMOVEBOOKMARKS: {"REMOVEBOOKMARKS", 0, 1},
	model.IMPORTBOOKMARKS: {"IMPORTBOOKMARKS", 0, 1}, model.EXPORTBOOKMARKS: {"EXPORTBOOKMARKS", 0, 1},
	model.LISTIMAGES: {"LISTIMAGES", 0, 1}, model.UPDATEIMAGES: {"UPDATEIMAGES", 0, 1}, model.CREATE: {"CREATE", 0, 0}, model.DUMP: {"DUMP", 0, 1},
	model.LISTFORMFIELDS: {"LISTFORMFIELDS", 0, 0}, model.REMOVEFORMFIELDS: {"REMOVEFORMFIELDS", 0, 1}, model.LOCKFORMFIELDS: {"LOCKFORMFIELDS", 0, 1},
	model.UNLOCKFORMFIELDS: {"UNLOCKFORMFIELDS", 0, 1}, model.RESETFORMFIELDS: {"RESETFORMFIELDS", 0, 1}, model.EXPORTFORMFIELDS: {"EXPORTFORMFIELDS", 0, 1},
	model.FILLFORMFIELDS: {"FILLFORMFIELDS", 0, 1}, model.LISTPAGELAYOUT: {"LISTPAGELAYOUT", 0, 1}, model.SETPAGELAYOUT: {"SETPAGELAYOUT", 0, 1},
	model.RESETPAGELAYOUT: {"RESETPAGELAYOUT", 0, 1}, model.LISTPAGEMODE: {"LISTPAGEMODE", 0, 1}, model.SETPAGEMODE: {"SETPAGEMODE", 0, 1},
	model.RESETPAGEMODE: {"RESETPAGEMODE", 0, 1}, model.LISTVIEWERPREFERENCES: {"LISTVIEWERPREFERENCES", 0, 1}, model.SETVIEWERPREFERENCES: {"SETVIEWERPREFERENCES", 0, 1},
	model.RESETVIEWERPREFERENCES: {"RESETVIEWERPREFERENCES", 0, 1}, model.ZOOM: {"ZOOM", 0, 1},
}

// Operations ISO 32000-1 Table 22 names under bit 11 ("insert, rotate, or delete pages and create
// bookmarks or thumbnail images") and operations that unambiguously modify document content
// outside bits 6, 9, 11 (bit 4). Every other modify-class command is not attributed to a bit.
var assembly = map[model.CommandMode]bool{model.INSERTPAGESBEFORE: true, model.INSERTPAGESAFTER: true, model.REMOVEPAGES: true, model.ROTATE: true, model.TRIM: true, model.ADDBOOKMARKS: true, model.IMPORTBOOKMARKS: true}
var contentMod = map[model.CommandMode]bool{model.ADDWATERMARKS: true, model.REMOVEWATERMARKS: true, model.UPDATEIMAGES: true, model.ADDKEYWORDS: true, model.REMOVEKEYWORDS: true, model.ADDPROPERTIES: true, model.REMOVEPROPERTIES: true}

// SETPERMISSIONS is in the table but needs both passwords (documented in setupEncryptionKey): it can
// never be reached with one password only and is therefore outside this property's quantifier.
var needsBothPasswords = map[model.CommandMode]bool{model.SETPERMISSIONS: true}

// Commands that pdfcpu does not run on encrypted input at all (ErrEncrypted), documented in checkForEncryption.
var noEncryptedInput = map[model.CommandMode]bool{model.BOOKLET: true, model.MERGEAPPEND: true, model.MERGECREATE: true, model.MERGECREATEZIP: true}

const (
	bit4  = 1 << 3  // modify contents (other than bits 6, 9, 11)
	bit5  = 1 << 4  // copy / extract text and graphics
	bit10 = 1 << 9  // R>=3: extract for accessibility (PDF 2.0: unused, always 1)
	bit11 = 1 << 10 // R>=3: assemble
)

var isoDeviation atomic.Int64

type verdict int

const (
	mustAllow verdict = iota
	mustDeny
	isoAllow // ISO Table 22 grants the right, but only one of the two related bits is set
	isoDeny  // ISO Table 22 denies the right, but one of the two related bits is set
	unattributed
)

func (v verdict) String() string {
	return [...]string{"must-allow", "must-deny", "iso-allow(mixed bits)", "iso-deny(mixed bits)", "unattributed(mixed bits)"}[v]
}

// expect is the independent reading of ISO 32000-1 Table 22 for one needed right.
//
//	R 2:   extract <-> bit 5, modify <-> bit 4.
//	R >=3: copy/extract (other than for accessibility) <-> bit 5, bit 10 only adds extraction for
//	       accessibility; content modification <-> bit 4; assembly <-> bit 11 ("even if bit 4 is clear").
func expectExtract(r, p int) verdict {
	b5, b10 := p&bit5 != 0, p&bit10 != 0
	if r == 2 {
		if b5 {
			return mustAllow
		}
		return mustDeny
	}
	// R >= 3. The property is relative to pdfcpu's documented bit layout ("Bit 10: extract(rev>=3)",
	// PermissionsList): the extract right is bit 10. Where ISO 32000-1 Table 22 (copy/extract = bit 5)
	// would decide differently the cell is only counted (isoDeviation), not judged against ISO.
	if b5 != b10 {
		isoDeviation.Add(1)
	}
	if b10 {
		return mustAllow
	}
	return mustDeny
}

func expectModify(mode model.CommandMode, r, p int) verdict {
	b4, b11 := p&bit4 != 0, p&bit11 != 0
	if r == 2 {
		if b4 {
			return mustAllow
		}
		return mustDeny
	}
	// R >= 3: documented layout "Bit 11: modify(rev>=3)" (ISO Table 22: content modification = bit 4,
	// assembly = bit 11; deviating cells are counted only).
	if b4 != b11 {
		isoDeviation.Add(1)
	}
	if b11 {
		return mustAllow
	}
	return mustDeny
}

// combine the verdicts of the (up to two) needed rights of a mode.
func expect(mode model.CommandMode, cls pdfcpu.VerifPermEntry, r, p int) (verdict, string) {
	vs := []verdict{}
	which := []string{}
	if cls.Extract != 0 {
		vs = append(vs, expectExtract(r, p))
		which = append(which, "extract")
	}
	if cls.Modify != 0 {
		vs = append(vs, expectModify(mode, r, p))
		which = append(which, "modify")
	}
	if len(vs) == 0 {
		return mustAllow, "none"
	}
	out := mustAllow
	for _, v := range vs {
		switch {
		case v == mustDeny:
			return mustDeny, strings.Join(which, "+")
		case v == isoDeny:
			out = isoDeny
		case v == unattributed && out != isoDeny:
			out = unattributed
		case v == isoAllow && out == mustAllow:
			out = isoAllow
		}
	}
	return out, strings.Join(which, "+")
}

func rclass(r int) string {
	if r == 2 {
		return "R2"
	}
	return "R>=3"
}

func bitsDesc(need string, r, p int) string {
	f := func(b int) int {
		if p&b != 0 {
			return 1
		}
		return 0
	}
	if r == 2 {
		switch need {
		case "extract":
			return fmt.Sprintf("bit5=%d", f(bit5))
		case "modify":
			return fmt.Sprintf("bit4=%d", f(bit4))
		}
		return fmt.Sprintf("bit4=%d,bit5=%d", f(bit4), f(bit5))
	}
	switch need {
	case "extract":
		return fmt.Sprintf("bit5=%d,bit10=%d", f(bit5), f(bit10))
	case "modify":
		return fmt.Sprintf("bit4=%d,bit11=%d", f(bit4), f(bit11))
	}
	return fmt.Sprintf("bit4=%d,bit5=%d,bit10=%d,bit11=%d", f(bit4), f(bit5), f(bit10), f(bit11))
}

type caseInfo struct {
	Layer string `json:"layer"`
	Mode  string `json:"mode"`
	Needs string `json:"needs"`
	R     int    `json:"r"`
	P     int    `json:"p"`
	Alg   string `json:"alg,omitempty"`
	Want  string `json:"want"`
	Got   string `json:"got"`
}

func modeKind(m model.CommandMode) string {
	switch {
	case assembly[m]:
		return "assembly-command"
	case contentMod[m]:
		return "content-modifying-command"
	}
	return "command"
}

// judge compares an observed decision (refused or not) with the verdict and reports violations.
func judge(t *vk.T, layer string, mode model.CommandMode, name, needs string, r, p int, v verdict, refused bool, alg, got string, counts *[5][2]int64) {
	atomic.AddInt64(&counts[v][b2i(refused)], 1)
	bad := (v == mustDeny || v == isoDeny) && !refused || (v == mustAllow || v == isoAllow) && refused
	if !bad {
		return
	}
	ci := caseInfo{Layer: layer, Mode: name, Needs: needs, R: r, P: p, Alg: alg, Want: v.String(), Got: got}
	switch {
	case v == mustDeny && !refused:
		t.Violate(fmt.Sprintf("%s/%s/needs=%s/%s/denied-right-but-proceeds", layer, rclass(r), needs, bitsDesc(needs, r, p)),
			fmt.Sprintf("%s (needs %s) R=%d P=%#x: every bit that could grant the right is clear, but the command is not refused", name, needs, r, uint32(p)), ci)
	case v == mustAllow && refused:
		t.Violate(fmt.Sprintf("%s/%s/needs=%s/%s/granted-right-but-refused", layer, rclass(r), needs, bitsDesc(needs, r, p)),
			fmt.Sprintf("%s (needs %s) R=%d P=%#x: all related bits are set, but the command is refused (%s)", name, needs, r, uint32(p), got), ci)
	case v == isoDeny && !refused:
		t.Violate(fmt.Sprintf("iso-table-22/%s/needs=%s/%s/%s-proceeds", rclass(r), needs, bitsDesc(needs, r, p), modeKind(mode)),
			fmt.Sprintf("%s (needs %s) R=%d P=%#x: ISO 32000-1 Table 22 denies this right (%s) but pdfcpu lets the command proceed", name, needs, r, uint32(p), bitsDesc(needs, r, p)), ci)
	case v == isoAllow && refused:
		t.Violate(fmt.Sprintf("iso-table-22/%s/needs=%s/%s/%s-refused", rclass(r), needs, bitsDesc(needs, r, p), modeKind(mode)),
			fmt.Sprintf("%s (needs %s) R=%d P=%#x: ISO 32000-1 Table 22 grants this right (%s) but pdfcpu refuses the command (%s)", name, needs, r, uint32(p), bitsDesc(needs, r, p), got), ci)
	}
}

func b2i(b bool) int {
	if b {
		return 1
	}
	return 0
}

func ifs(c bool, a, b string) string {
	if c {
		return a
	}
	return b
}

func safely(f func() error) (err error) {
	defer func() {
		if r := recover(); r != nil {
			err = fmt.Errorf("panic: %v", r)
		}
	}()
	return f()
}

type algo struct {
	Name   string
	AES    bool
	KeyLen int
	Doc    string
}

func (a algo) conf(upw, opw string) *model.Configuration {
	var c *model.Configuration
	if a.AES {
		c = model.NewAESConfiguration(upw, opw, a.KeyLen)
	} else {
		c = model.NewRC4Configuration(upw, opw, a.KeyLen)
	}
	c.Offline = true
	return c
}

// placement is one way of filling the two password slots of a configuration.
type placement struct {
	Name string
	U, O string
	// Holder: "user" = the caller does not hold the owner password (the owner slot is empty or holds
	// something that is not the owner password): permissions apply. "owner" = the correct owner
	// password sits in the owner slot: never refused. "misplaced" = the owner password sits in the
	// user slot only: the caller holds it, so proceeding is no violation, and refusing (wrong
	// password) is always safe: observed, not judged.
	Holder string
	// Core placements are run for every cell in every tier; of the others the quick tier runs one per
	// cell (rotating), the thorough tier all.
	Core bool
}

func placements(upw, opw string, thorough bool) []placement {
	ps := []placement{
		{"user-only", upw, "", "user", true},
		{"user-both-slots", upw, upw, "user", false},
		{"owner-only", "", opw, "owner", true},
		{"owner+user", upw, opw, "owner", false},
		{"user+wrong-owner", upw, "not-the-" + opw, "user", false},
		{"owner-in-user-slot", opw, "", "misplaced", false},
	}
	if thorough {
		// near misses of the owner password are as wrong as any other guess
		ps = append(ps,
			placement{"user+owner-prefix", upw, opw[:len(opw)-1], "user", false},
			placement{"user+owner-othercase", upw, strings.ToUpper(opw), "user", false},
			placement{"user+owner-padded", upw, opw + " ", "user", false},
			placement{"owner+wrong-user", "not-the-" + upw, opw, "owner", false},
		)
	}
	return ps
}

// pickPlacements gives the placements of one cell: all core ones, and (quick) one further placement
// chosen by k, or (thorough) all. k runs over algorithm + bit combination + mode index + seed, so
// every (algorithm, bits) document meets every placement with about a quarter of the modes and every
// (mode, bits) cell meets every placement on one of the five algorithms.
func pickPlacements(ps []placement, thorough bool, k int) []placement {
	if thorough {
		return ps
	}
	var out, more []placement
	for _, p := range ps {
		if p.Core {
			out = append(out, p)
		} else {
			more = append(more, p)
		}
	}
	if len(more) > 0 {
		out = append(out, more[k%len(more)])
	}
	return out
}

func main() {
	vk.Run("C26", "exploration", func(t *vk.T) {
		api.DisableConfigDir()
		table := pdfcpu.VerifPermTable()
		type row struct {
			Mode model.CommandMode
			Name string
			Cls  pdfcpu.VerifPermEntry
		}
		var rows []row
		drift := []string{}
		for m, c := range table {
			b, ok := baseline[m]
			name := b.Name
			switch {
			case !ok:
				name = fmt.Sprintf("mode#%d", int(m))
				drift = append(drift, name+": new in table")
			case b.E != c.Extract || b.M != c.Modify:
				drift = append(drift, fmt.Sprintf("%s: {%d,%d} -> {%d,%d}", name, b.E, b.M, c.Extract, c.Modify))
			}
			rows = append(rows, row{m, name, c})
		}
		for m, b := range baseline {
			if _, ok := table[m]; !ok {
				drift = append(drift, b.Name+": removed from table")
			}
		}
		sort.Slice(rows, func(i, j int) bool { return rows[i].Mode < rows[j].Mode })
		sort.Strings(drift)
		nE, nM, nN := 0, 0, 0
		for _, r := range rows {
			switch {
			case r.Cls.Extract != 0:
				nE++
			case r.Cls.Modify != 0:
				nM++
			default:
				nN++
			}
		}
		t.Extra("table_size", len(rows))
		t.Extra("table_classes", map[string]int{"needs_extract": nE, "needs_modify": nM, "needs_nothing": nN})
		t.Extra("table_drift_against_recorded_baseline", drift)
		if len(rows) < 10 {
			t.Broken("permission table has only %d rows", len(rows))
		}
		t.Exhaustive(true)
		t.Rule("every mode of pdfcpu's permission table x (pure layer) all 4096 patterns of the 12 low P bits x R 2..6; (file layer) all 16 combinations of bits 4,5,10,11 x {RC4-40, RC4-128, AES-128, AES-256/PDF1.7, AES-256/PDF2.0} documents encrypted by pdfcpu, opened under credential placements {user pw only; user pw in both slots; user pw + wrong non-empty owner pw; owner pw only; owner pw + user pw; owner pw in the user slot only (observed, not judged)} — quick: user-only and owner-only for every (algorithm, bits, mode) cell plus one of the other four in rotation over algorithm+bits+mode+seed, thorough: all placements plus near misses of the owner password; a caller without the owner password is a user (refused iff a needed right is denied), the owner password in the owner slot is never refused; non-trivial = the mode needs a right")
		t.Assume("meaning of the permission bits = pdfcpu's documented layout (PermissionsList / the property's 'revision 2 and revision >= 3 bit layouts'): R2 extract<->bit 5, modify<->bit 4; R>=3 extract<->bit 10, modify<->bit 11. Cells where ISO 32000-1 Table 22 (copy/extract = bit 5, content modification = bit 4) would decide differently are counted under observed.iso_table22_deviating_cells, not judged")
		t.Assume("BOOKLET, MERGEAPPEND, MERGECREATE, MERGECREATEZIP never run on encrypted input (ErrEncrypted, documented): counted as refused, never as a violation of 'granted rights proceed'")

		counts := new([5][2]int64)
		snapshot := func() map[string]int64 {
			out := map[string]int64{}
			for v := mustAllow; v <= unattributed; v++ {
				out[v.String()+"/proceeds"] = counts[v][0]
				out[v.String()+"/refused"] = counts[v][1]
			}
			*counts = [5][2]int64{}
			return out
		}
		// ---- 1. pure layer
		var pureEvals, pureNontrivial int64
		vk.Parallel(len(rows), func(i int) {
			rw := rows[i]
			for _, r := range []int{2, 3, 4, 5, 6} {
				for low := 0; low < 1<<12; low++ {
					p := int(int32(uint32(0xFFFFF000) | uint32(low)))
					v, needs := expect(rw.Mode, rw.Cls, r, p)
					ok := pdfcpu.VerifHasNeededPermissions(rw.Mode, &model.Enc{R: r, P: p})
					judge(t, "pure", rw.Mode, rw.Name, needs, r, p, v, !ok, "", ifs(ok, "allowed", "denied"), counts)
					atomic.AddInt64(&pureEvals, 1)
					if needs != "none" {
						atomic.AddInt64(&pureNontrivial, 1)
					}
				}
			}
		})
		t.EvalBulk(pureEvals, pureNontrivial)
		t.Count("pure_layer_cases", pureEvals)
		t.Extra("pure_layer_outcomes", snapshot())

		// ---- 2. file layer
		dir := t.Scratch()
		td := filepath.Join(vk.RepoDir(), "pkg", "testdata")
		algos := []algo{
			{"RC4-40", false, 40, filepath.Join(td, "test.pdf")},
			{"RC4-128", false, 128, filepath.Join(td, "test.pdf")},
			{"AES-128", true, 128, filepath.Join(td, "test.pdf")},
			{"AES-256", true, 256, filepath.Join(td, "test.pdf")},
			{"AES-256/PDF2.0", true, 256, filepath.Join(td, "pdf20", "SimplePDF2.0.pdf")},
		}
		const upw, opw = "user-pw", "owner-pw"
		rng := t.RNG("otherbits")
		type encFile struct {
			a    algo
			perm model.PermissionFlags
			path string
		}
		var files []encFile
		for ai, a := range algos {
			for combo := 0; combo < 16; combo++ {
				perm := model.PermissionsNone
				// the bits not under test (3, 6, 9, 12) are random per file
				for _, b := range []model.PermissionFlags{model.PermissionPrintRev2, model.PermissionModAnnFillForm, model.PermissionFillRev3, model.PermissionPrintRev3} {
					if rng.IntN(2) == 0 {
						perm |= b
					}
				}
				for k, b := range []model.PermissionFlags{model.PermissionModify, model.PermissionExtract, model.PermissionExtractRev3, model.PermissionAssembleRev3} {
					if combo>>k&1 == 1 {
						perm |= b
					}
				}
				files = append(files, encFile{a, perm, filepath.Join(dir, fmt.Sprintf("enc-%d-%d.pdf", ai, combo))})
			}
		}
		revSeen := map[int]int64{}
		revs := make([]int, len(files))
		var fileEvals, fileNontrivial, ownerOpens, errEncrypted, bothPW int64
		thorough := !t.Quick()
		plcs := placements(upw, opw, thorough)
		seedK := int(uint64(t.Seed) % 4)
		var plMu sync.Mutex
		plOutcomes := map[string]int64{}
		plCount := func(name string, err error) {
			o := "proceeds"
			switch {
			case err == nil:
			case errors.Is(err, pdfcpu.ErrPermissionDenied):
				o = "ErrPermissionDenied"
			case errors.Is(err, pdfcpu.ErrWrongPassword):
				o = "ErrWrongPassword"
			case errors.Is(err, pdfcpu.ErrEncrypted):
				o = "ErrEncrypted"
			default:
				o = "other-error"
			}
			plMu.Lock()
			plOutcomes[name+"/"+o]++
			plMu.Unlock()
		}
		vk.Parallel(len(files), func(fi int) {
			f := files[fi]
			conf := f.a.conf(upw, opw)
			conf.Permissions = f.perm
			if err := safely(func() error { return api.EncryptFile(f.a.Doc, f.path, conf) }); err != nil {
				t.Broken("encrypt %s: %v", f.a.Name, err)
			}
			open := func(mode model.CommandMode, u, o string) (*model.Context, error) {
				var ctx *model.Context
				err := safely(func() error {
					fh, err := os.Open(f.path)
					if err != nil {
						return err
					}
					defer fh.Close()
					c := model.NewDefaultConfiguration()
					c.Offline = true
					c.Cmd = mode
					c.UserPW, c.OwnerPW = u, o
					var e error
					ctx, e = api.ReadContext(fh, c)
					return e
				})
				return ctx, err
			}
			// the revision and P actually written
			ctx, err := open(model.VALIDATE, "", opw)
			if err != nil || ctx.E == nil {
				t.Broken("open %s with owner pw: %v", f.a.Name, err)
			}
			r, p := ctx.E.R, ctx.E.P
			revs[fi] = r
			if uint16(p) != uint16(f.perm) {
				t.Broken("P written %#x, requested %#x", p, uint16(f.perm))
			}
			for mi, rw := range rows {
				if needsBothPasswords[rw.Mode] {
					atomic.AddInt64(&bothPW, 1)
					continue
				}
				v, needs := expect(rw.Mode, rw.Cls, r, p)
				k := fi/16 + fi%16 + mi + seedK
				sel := pickPlacements(plcs, thorough, k)
				for _, pl := range sel {
					_, err := open(rw.Mode, pl.U, pl.O)
					atomic.AddInt64(&fileEvals, 1)
					if needs != "none" {
						atomic.AddInt64(&fileNontrivial, 1)
					}
					plCount(pl.Name, err)
					layer := "file"
					if pl.Name != "user-only" {
						layer = "file/creds=" + pl.Name
					}
					encOnly := errors.Is(err, pdfcpu.ErrEncrypted) && noEncryptedInput[rw.Mode]
					if encOnly {
						atomic.AddInt64(&errEncrypted, 1)
						continue // not run on encrypted input at all: refused whatever the permissions
					}
					switch pl.Holder {
					case "user":
						got := "ok"
						switch {
						case err == nil:
						case errors.Is(err, pdfcpu.ErrPermissionDenied):
							got = "ErrPermissionDenied"
						default:
							got = err.Error()
							t.Violate(fmt.Sprintf("%s/%s/mode=%s/unexpected-error", layer, rclass(r), rw.Name), fmt.Sprintf("%s %s creds=%s P=%#x: %v", f.a.Name, rw.Name, pl.Name, uint16(p), err),
								caseInfo{layer, rw.Name, needs, r, p, f.a.Name, v.String(), got})
							continue
						}
						judge(t, layer, rw.Mode, rw.Name, needs, r, p, v, err != nil, f.a.Name, got, counts)
					case "owner":
						// the correct owner password in the owner slot: never restricted
						if err != nil {
							key := fmt.Sprintf("file/%s/owner-password-restricted/%s", rclass(r), ifs(errors.Is(err, pdfcpu.ErrPermissionDenied), "ErrPermissionDenied", "other-error"))
							if pl.Name != "owner-only" {
								key = fmt.Sprintf("file/creds=%s/%s/owner-password-restricted/%s", pl.Name, rclass(r), ifs(errors.Is(err, pdfcpu.ErrPermissionDenied), "ErrPermissionDenied", "other-error"))
							}
							t.Violate(key, fmt.Sprintf("%s %s opened with the owner password in the owner slot (creds=%s), P=%#x: %v", f.a.Name, rw.Name, pl.Name, uint16(p), err),
								caseInfo{"file-owner/" + pl.Name, rw.Name, needs, r, p, f.a.Name, "must-allow", err.Error()})
						} else {
							atomic.AddInt64(&ownerOpens, 1)
						}
					default:
						// owner password in the user slot only: the caller holds the owner password; pdfcpu may
						// refuse (wrong user password) or proceed — anything but a crash is fine
						if err != nil && strings.HasPrefix(err.Error(), "panic:") {
							t.Violate(fmt.Sprintf("file/creds=%s/%s/panic", pl.Name, rclass(r)), fmt.Sprintf("%s %s creds=%s: %v", f.a.Name, rw.Name, pl.Name, err),
								caseInfo{layer, rw.Name, needs, r, p, f.a.Name, "any", err.Error()})
						}
					}
				}
			}
		})
		for _, r := range revs {
			revSeen[r]++
		}
		t.EvalBulk(fileEvals, fileNontrivial)
		t.Extra("file_layer_outcomes", snapshot())
		t.Extra("file_layer_revisions_written_by_pdfcpu", revSeen)
		t.Count("file_layer_cases", fileEvals)
		t.Extra("file_layer_outcomes_by_credential_placement", plOutcomes)
		for _, pl := range plcs {
			var n int64
			for k, c := range plOutcomes {
				if strings.HasPrefix(k, pl.Name+"/") {
					n += c
				}
			}
			t.Count("file_layer_placement/"+pl.Name, n)
			if n == 0 {
				t.Broken("credential placement %s was never exercised", pl.Name)
			}
		}
		t.Count("file_layer_encrypted_files", int64(len(files)))
		t.Count("file_layer_owner_pw_opens", ownerOpens)
		t.Count("file_layer_ErrEncrypted_modes", errEncrypted)
		t.Count("file_layer_skipped_mode_needs_both_passwords", bothPW)

		// ---- 3. a few public API functions end to end (every credential placement but the misplaced one)
		type apiCall struct {
			name  string
			needs string
			run   func(in, out string, c *model.Configuration) error
		}
		calls := []apiCall{
			{"ExtractContentFile", "extract", func(in, out string, c *model.Configuration) error { return api.ExtractContentFile(in, out, nil, c) }},
			{"ExtractPagesFile", "extract", func(in, out string, c *model.Configuration) error { return api.ExtractPagesFile(in, out, nil, c) }},
			{"RotateFile", "modify", func(in, out string, c *model.Configuration) error {
				return api.RotateFile(in, filepath.Join(out, "o.pdf"), 90, nil, c)
			}},
			{"AddKeywordsFile", "modify", func(in, out string, c *model.Configuration) error {
				return api.AddKeywordsFile(in, filepath.Join(out, "o.pdf"), []string{"k"}, c)
			}},
			{"ValidateFile", "none", func(in, out string, c *model.Configuration) error { return api.ValidateFile(in, c) }},
		}
		var apiEvals int64
		type apiJob struct {
			fi, ci int
			pl     placement
		}
		var jobs []apiJob
		for fi, f := range files {
			combo := fi % 16
			if combo != 0 && combo != 15 { // all four bits clear / all four set
				continue
			}
			for ci, c := range calls {
				if c.name == "AddKeywordsFile" && strings.Contains(f.a.Name, "PDF2.0") {
					continue // PDF 2.0 documents have no Info dictionary to add keywords to
				}
				for _, pl := range plcs {
					if pl.Holder == "misplaced" {
						continue // observed in the file layer only
					}
					jobs = append(jobs, apiJob{fi, ci, pl})
				}
			}
		}
		vk.Parallel(len(jobs), func(ji int) {
			j := jobs[ji]
			f, c, pl, fi, combo := files[j.fi], calls[j.ci], j.pl, j.fi, j.fi%16
			out := filepath.Join(dir, fmt.Sprintf("api-%d-%d-%d", fi, j.ci, ji))
			_ = os.MkdirAll(out, 0o755)
			defer os.RemoveAll(out)
			conf := f.a.conf(pl.U, pl.O)
			err := safely(func() error { return c.run(f.path, out, conf) })
			atomic.AddInt64(&apiEvals, 1)
			wantDeny := combo == 0 && c.needs != "none" && pl.Holder == "user"
			denied := errors.Is(err, pdfcpu.ErrPermissionDenied)
			ci2 := caseInfo{"api/creds=" + pl.Name, c.name, c.needs, revs[fi], int(f.perm), f.a.Name, ifs(wantDeny, "must-deny", "must-allow"), fmt.Sprint(err)}
			name := c.name
			if pl.Name != "user-only" {
				name += "/creds=" + pl.Name
			}
			switch {
			case wantDeny && !denied:
				t.Violate(fmt.Sprintf("api/%s/%s/denied-right-but-%s", name, rclass(revs[fi]), ifs(err == nil, "proceeds", "other-error")), fmt.Sprintf("%s on %s with all of bits 4,5,10,11 clear, creds=%s (caller does not hold the owner password): %v", c.name, f.a.Name, pl.Name, err), ci2)
			case !wantDeny && err != nil:
				t.Violate(fmt.Sprintf("api/%s/%s/granted-right-but-fails", name, rclass(revs[fi])), fmt.Sprintf("%s on %s with bits 4,5,10,11 %s, creds=%s: %v", c.name, f.a.Name, ifs(combo == 15, "set", "clear"), pl.Name, err), ci2)
			}
		})
		t.EvalBulk(apiEvals, apiEvals)
		t.Count("api_layer_calls", apiEvals)
		t.Count("iso_table22_deviating_cells", isoDeviation.Load())
		t.Sample(map[string]any{"first_rows": rows[:4]})
	})
}
