// C28 — a signature is reported as covering the document only if it covers every byte.
//
// Oracle (computed by the harness from the file bytes; pdfcpu is not asked): for a signature
// whose newest dictionary has /ByteRange [a b c d] and whose /Contents hex string occupies
// [cs, ce) in the file,  full(file, sig)  :=  a = 0  and  b = cs  and  c = ce  and  c+d = size.
// Checked implication, for every signature of every manipulated file:
//
//	result.DocModified = False  or  result.Reason = DocNotModified   ==>   full(file, sig)
//
// (Status is not part of this property's text: a Valid status next to DocModified Unknown is
// counted as an observation, never judged here.)
//
// Workload: documents signed by the harness (internal/sigkit; all five sub filters, RSA and ECDSA,
// one and two signed revisions, with and without an unsigned /DSS revision) validated in
// internal/sigenv's environment, and the shipped samples. Manipulations: appended bytes (1..16 and
// more), appended valid incremental updates (hand-written: new object / replaced Info, table or
// stream form; and pdfcpu's own AddAnnotationsAsIncrement), /ByteRange values shifted by ±1..±16
// singly and in compensating pairs, the gap widened / narrowed / moved around /Contents, a first
// offset ≠ 0, overlapping ranges, ranges running past the end, and a second, /Contents-like hole
// (the excluded gap encloses a decoy hex string carrying the same digits while the signature
// dictionary lies behind the signed ranges). Every /ByteRange manipulation comes twice: "stale"
// (old signature value: the digest no longer matches) and "resigned" — the harness, which owns the
// signing key, computes a cryptographically correct signature over exactly the claimed ranges, so
// that only pdfcpu's range / gap / revision-boundary checks stand between the manipulation and an
// "unmodified" verdict.
//
// H. Later incremental updates that REDEFINE signature objects (sigkit.AppendRedefinition), for
// every signature of every target (all kinds the harness signs, every shipped sample): a copy of
// the signature dictionary — all entries kept, /Contents digit for digit — is written either
// under the same object number or as a new object that the redefined signature field's /V is
// rebound to, with the entries that select pdfcpu's code paths enumerated in full product:
// /Type absent | Sig | DocTimeStamp | other value, /SubFilter each of the five sub filters,
// /ByteRange copied verbatim | adjusted to enclose the new /Contents | old gap with the second
// range stretched to the new end of file; plus the field alone redefined unchanged. "stale" keeps
// the old signature value; "resigned" (harness-signed targets) writes a fresh value of the NEW
// sub filter's kind over exactly the claimed ranges (for a verbatim range into the old gap as well
// as into the new dictionary, so that gap check and digest both hold). For these cases the oracle
// reads /ByteRange and /Contents of the NEWEST dictionary the field refers to: positions known from
// construction, cross-checked against sigkit.LocateSignatures (pdfstrict) on the manipulated file.
package main

import (
	"fmt"
	"os"
	"path/filepath"
	"sort"
	"strings"
	"time"

	"github.com/pdfcpu/pdfcpu/pkg/api"
	"github.com/pdfcpu/pdfcpu/pkg/pdfcpu/color"
	"github.com/pdfcpu/pdfcpu/pkg/pdfcpu/model"
	"github.com/pdfcpu/pdfcpu/pkg/pdfcpu/types"
	"verif/harness/internal/pdfstrict"
	"verif/harness/internal/sigenv"
	"verif/harness/internal/sigkit"
	"verif/harness/internal/vk"
)

type target struct {
	Name    string
	File    []byte
	Sigs    []sigkit.SigInfo
	Harness bool
	PKI     *sigkit.PKI
	Opts    sigkit.DocOptions
}

type mcase struct {
	T     int
	Manip string // key component
	// redefinitions: the violation key names the sub filter WRITTEN (what pdfcpu dispatches on) and
	// the manipulation without it and without stale/resigned (one defect = few keys)
	VSub, VManip string
	Note         string
	// false: manipulation not constructible for this target. ov: signatures (index into the
	// target's Sigs) whose newest dictionary the manipulation moved (redefinitions).
	Make func() (b []byte, ov map[int]sigkit.SigInfo, ok bool)
}

func main() { vk.Run("C28", "exploration", run) }

func unmod(r *model.SignatureValidationResult) bool {
	return r != nil && (r.DocModified == model.False || r.Reason == model.SignatureReasonDocNotModified)
}

func run(t *vk.T) {
	t.Rule("one case = one manipulated copy of a signed file (append, incremental update, /ByteRange and gap manipulation stale or re-signed, decoy hole), judged for every signature in it: reported unmodified ==> byte ranges cover the whole file except exactly <Contents>; non-trivial = distinct (file, manipulation kind incl. shift amount)")
	env, err := sigenv.Start(t.Scratch())
	if err != nil {
		t.Broken("sigenv: %v", err)
	}
	defer env.Close()
	now := time.Now() // certificate validity / signing-time only

	pkis := map[string]*sigkit.PKI{}
	for _, alg := range []string{"rsa", "ecdsa"} {
		p, err := sigkit.NewPKI(sigkit.PKIOptions{Alg: alg, CRLURL: env.Base + "/" + alg + ".crl", Name: alg}, now)
		if err != nil {
			t.Broken("pki: %v", err)
		}
		env.Serve("/"+alg+".crl", p.CRL)
		if err := env.Trust("ca-"+alg, p.CAPEM()); err != nil {
			t.Broken("trust: %v", err)
		}
		pkis[alg] = p
	}

	var targets []*target
	addHarness := func(name string, pki *sigkit.PKI, o sigkit.DocOptions) {
		s, err := sigkit.BuildSigned(pki, o, now)
		if err != nil {
			t.Broken("build %s: %v", name, err)
		}
		targets = append(targets, &target{Name: name, File: s.Bytes, Sigs: s.Sigs, Harness: true, PKI: pki, Opts: o})
	}
	sfs := append(append([]string(nil), sigkit.AllSubFilters...), sigkit.SFDTS)
	for _, alg := range []string{"rsa", "ecdsa"} {
		for _, sf := range sfs {
			if sf == sigkit.SFX509 && alg != "rsa" {
				continue
			}
			for k := 0; k < t.Pick(1, 3); k++ {
				o := sigkit.RandomDocOptions(t.RNG(fmt.Sprintf("doc/%s/%s/%d", alg, sf, k)), sf)
				addHarness(fmt.Sprintf("harness/%s/%s/%d", alg, sf, k), pkis[alg], o)
			}
		}
	}
	addHarness("harness/rsa/detached+cades", pkis["rsa"], sigkit.DocOptions{SubFilters: []string{sigkit.SFDetached, sigkit.SFCAdES}, Pages: 2})
	addHarness("harness/ecdsa/cades+dts", pkis["ecdsa"], sigkit.DocOptions{SubFilters: []string{sigkit.SFCAdES, sigkit.SFDTS}, XRefStream: true})
	addHarness("harness/rsa/dts+dts", pkis["rsa"], sigkit.DocOptions{SubFilters: []string{sigkit.SFDTS, sigkit.SFDTS}})
	addHarness("harness/rsa/detached+dss", pkis["rsa"], sigkit.DocOptions{SubFilters: []string{sigkit.SFDetached}, DSS: true})
	addHarness("harness/rsa/dts+dss", pkis["rsa"], sigkit.DocOptions{SubFilters: []string{sigkit.SFDTS}, DSS: true, XRefStream: true})
	for _, sf := range []string{sigkit.SFDetached, sigkit.SFDTS, sigkit.SFCAdES} {
		for _, xs := range []bool{false, true} {
			s, err := sigkit.BuildDecoy(pkis["rsa"], sf, xs, now)
			if err != nil {
				t.Broken("decoy: %v", err)
			}
			targets = append(targets, &target{Name: fmt.Sprintf("decoy/rsa/%s/xs=%v", sf, xs), File: s.Bytes, Sigs: s.Sigs, Harness: true, PKI: pkis["rsa"]})
		}
	}
	files, _ := filepath.Glob(filepath.Join(vk.RepoDir(), "pkg/samples/signatures/*/*.pdf"))
	sort.Strings(files)
	for _, f := range files {
		b, err := os.ReadFile(f)
		if err != nil {
			continue
		}
		locs, _, err := sigkit.LocateSignatures(b)
		if err != nil || len(locs) == 0 {
			t.Inconclusive("sample-not-located/" + filepath.Base(f))
			continue
		}
		tg := &target{Name: "sample/" + filepath.Base(filepath.Dir(f)) + "/" + filepath.Base(f), File: b}
		for _, l := range locs {
			if l.HasBR {
				tg.Sigs = append(tg.Sigs, sigkit.SigInfo{SubFilter: l.SubFilter, FieldObj: l.FieldObj, SigObj: l.SigObj, BR: l.BR,
					BRStart: l.BRStart, BREnd: l.BREnd, CStart: l.CStart, CEnd: l.CEnd})
			}
		}
		if len(tg.Sigs) > 0 {
			targets = append(targets, tg)
		}
	}

	t.Assume("Status Valid needs a CRL fetched at validation time (pdfcpu never concludes 'good' from /DSS): harness documents are validated with conf.Offline=false against a CRL served on 127.0.0.1 (allow-listed literal host, DNS disabled); samples with conf.Offline=true")
	t.Assume("the harness knows where /ByteRange and /Contents of the newest dictionary of every signature are (manipulations A-G never move a signature dictionary; redefinitions H write it themselves); pdfstrict re-derives the same facts from the manipulated file as a cross-check (disagreement = inconclusive)")

	// baselines: which signatures CAN be reported unmodified at all
	seenInc := map[string]bool{}
	for _, tg := range targets {
		o := env.Validate(tg.File, tg.Harness)
		for i := range tg.Sigs {
			s := &tg.Sigs[i]
			r := o.Find(s.FieldObj)
			full := fullTracked(tg.File, s)
			switch {
			case unmod(r) && full:
				t.Count("baseline_full_and_reported_unmodified", 1)
				t.Count("baseline_reported_unmodified/"+tg.Name, 1)
			case full:
				t.Count("baseline_full_but_not_reported_unmodified", 1)
				if strings.HasPrefix(tg.Name, "harness/") {
					k := "baseline-not-unmodified/subfilter=" + s.SubFilter
					if !seenInc[k] {
						seenInc[k] = true
						t.Inconclusive(k)
						t.Extra("first_"+k, tg.Name+": "+sigenv.Describe(r))
					}
				}
			default:
				t.Count("baseline_not_full", 1)
			}
		}
	}

	var cases []mcase
	for ti, tg := range targets {
		cases = append(cases, makeCases(t, env, ti, tg, now)...)
	}
	t.Count("cases", int64(len(cases)))

	vk.Parallel(len(cases), func(i int) {
		c := cases[i]
		tg := targets[c.T]
		b, ov, ok := c.Make()
		if !ok {
			t.Count("not_constructible/"+countKey(c.Manip), 1)
			return
		}
		o := env.Validate(b, tg.Harness)
		if o.Panic != "" {
			t.Count("pdfcpu_panics", 1)
		}
		var d *pdfstrict.Doc
		var locs []sigkit.SigLoc
		if len(ov) > 0 {
			// redefinition: follow the field tree of the manipulated file to the newest dictionary
			locs, d, _ = sigkit.LocateSignatures(b)
		} else if dd, err := pdfstrict.Open(b, pdfstrict.Options{}); err == nil {
			d = dd
		}
		for si := range tg.Sigs {
			s := &tg.Sigs[si]
			if sv, ok := ov[si]; ok {
				s = &sv
			}
			full := fullTracked(b, s)
			if _, redefined := ov[si]; redefined {
				agreed := false
				for _, l := range locs {
					if l.FieldObj == s.FieldObj && l.SigObj == s.SigObj && l.BRStart == s.BRStart && l.CStart == s.CStart && l.CEnd == s.CEnd {
						agreed = l.FullCoverage(int64(len(b))) == full
					}
				}
				if !agreed {
					t.Inconclusive("oracle-disagreement/" + c.Manip)
					continue
				}
				t.Count("oracle_crosschecked_by_pdfstrict", 1)
				t.Count("redefinitions_located_through_field_tree", 1)
			} else if d != nil {
				if l, err := sigkit.LocateSigDict(d, s.SigObj); err == nil {
					if l.FullCoverage(int64(len(b))) != full {
						t.Inconclusive("oracle-disagreement/" + c.Manip)
						continue
					}
					t.Count("oracle_crosschecked_by_pdfstrict", 1)
				}
			}
			r := o.Find(s.FieldObj)
			u := o.Err == nil && unmod(r)
			t.Eval(tg.Name + "/" + c.Manip + "/" + c.Note)
			out := "not-unmodified"
			switch {
			case o.Err != nil:
				out = "error"
			case u && full:
				out = "UNMODIFIED-and-full"
			case u:
				out = "UNMODIFIED-NOT-FULL"
			case r != nil && r.Status == model.SignatureStatusValid:
				out = "status-valid-docmodified-unknown"
			case r != nil && (r.Status == model.SignatureStatusInvalid || r.DocModified == model.True):
				out = "invalid-or-modified"
			}
			fk := "full"
			if !full {
				fk = "notfull"
			}
			t.Count("manip/"+countKey(c.Manip)+"/"+fk+"/"+out, 1)
			if !full {
				t.Count("not_full_cases", 1)
				if r != nil && o.Err == nil && r.Status == model.SignatureStatusValid {
					t.Count("observed_status_valid_without_full_coverage", 1)
				}
			}
			if u && !full {
				vsub, vmanip := tg.Sigs[si].SubFilter, c.Manip
				if _, redefined := ov[si]; redefined && c.VManip != "" {
					vsub, vmanip = c.VSub, c.VManip
				} else if len(ov) > 0 {
					// an untouched signature of a document in which ANOTHER signature was redefined
					vmanip = "append-increment-redefining-other-signature"
				}
				t.Violate(fmt.Sprintf("subfilter=%s/manip=%s/class=reported-unmodified", vsub, vmanip),
					fmt.Sprintf("%s sig#%d (%s): byte range %s, /Contents at [%d,%d), file size %d: not full coverage, yet reported %s",
						tg.Name, si, c.Note, string(b[s.BRStart:s.BREnd]), s.CStart, s.CEnd, len(b), sigenv.Describe(r)),
					map[string]any{"target": tg.Name, "manip": c.Manip, "note": c.Note, "sig": si})
			}
			if i%211 == 0 {
				t.Sample(map[string]any{"target": tg.Name, "manip": c.Manip, "note": c.Note, "full": full, "result": sigenv.Describe(r)})
			}
		}
	})
}

// fullTracked evaluates the oracle from the bytes at the positions the harness knows.
func fullTracked(b []byte, s *sigkit.SigInfo) bool {
	if s.BREnd > int64(len(b)) || s.BREnd <= s.BRStart {
		return false
	}
	br, ok := sigkit.ParseByteRangeText(b[s.BRStart:s.BREnd])
	return ok && br[0] == 0 && br[1] == s.CStart && br[2] == s.CEnd && br[2]+br[3] == int64(len(b))
}

// countKey: redefinitions are counted per (stale|resigned, mode, byte range treatment), not per
// /Type x /SubFilter combination (those are in the evaluation keys).
func countKey(manip string) string {
	if !strings.HasPrefix(manip, "redef-") {
		return manip
	}
	p := strings.Split(manip, "/")
	if len(p) < 5 {
		return manip
	}
	return p[0] + "/" + p[1] + "/" + p[4]
}

func clone(b []byte) []byte { return append([]byte(nil), b...) }

func makeCases(t *vk.T, env *sigenv.Env, ti int, tg *target, now time.Time) []mcase {
	var out []mcase
	add := func(manip, note string, f func() ([]byte, bool)) {
		out = append(out, mcase{T: ti, Manip: manip, Note: note, Make: func() ([]byte, map[int]sigkit.SigInfo, bool) {
			b, ok := f()
			return b, nil, ok
		}})
	}
	addRedefinitions(&out, ti, tg, now)
	add("none", "untampered", func() ([]byte, bool) { return clone(tg.File), true })

	// A. appended bytes
	pat := []byte(" \n%A\x00\r")
	for n := 1; n <= 16; n++ {
		tail := make([]byte, n)
		for i := range tail {
			tail[i] = pat[(n+i)%len(pat)]
		}
		add("append-bytes", fmt.Sprintf("n=%d", n), func() ([]byte, bool) { return append(clone(tg.File), tail...), true })
	}
	for _, tail := range []string{strings.Repeat("\n", 64), "%%EOF\n", "% " + strings.Repeat("x", 1000) + "\n", "\nstartxref\n0\n%%EOF\n"} {
		add("append-bytes", fmt.Sprintf("n=%d", len(tail)), func() ([]byte, bool) { return append(clone(tg.File), tail...), true })
	}
	// B. appended incremental updates
	for _, kind := range []string{"object", "info"} {
		add("append-increment-"+kind, "hand-written", func() ([]byte, bool) {
			b, err := sigkit.AppendIncrement(tg.File, kind)
			return b, err == nil
		})
	}
	add("append-increment-pdfcpu-annotation", "api.AddAnnotationsAsIncrement", func() ([]byte, bool) {
		p := filepath.Join(t.Scratch(), fmt.Sprintf("incr-%d.pdf", ti))
		if err := os.WriteFile(p, tg.File, 0o644); err != nil {
			return nil, false
		}
		defer os.Remove(p)
		f, err := os.OpenFile(p, os.O_RDWR, 0o644)
		if err != nil {
			return nil, false
		}
		ann := model.NewTextAnnotation(*types.NewRectangle(10, 10, 60, 40), 0, "added after signing", "verif-1", "", 0,
			&color.Gray, "verif", nil, nil, "", "", 0, 0, 0, true, "Note")
		conf := env.Conf(false)
		err = func() (err error) {
			defer func() {
				if r := recover(); r != nil {
					err = fmt.Errorf("panic: %v", r)
				}
			}()
			return api.AddAnnotationsAsIncrement(f, []string{"1"}, ann, conf)
		}()
		f.Close()
		if err != nil {
			t.Count("pdfcpu_increment_failed", 1)
			return nil, false
		}
		b, err := os.ReadFile(p)
		return b, err == nil && len(b) > len(tg.File)
	})

	// C..G. /ByteRange manipulations on the signature that covers the whole file (the last one)
	if len(tg.Sigs) == 0 {
		return out
	}
	si := len(tg.Sigs) - 1
	s := tg.Sigs[si]
	if !fullTracked(tg.File, &s) {
		return out
	}
	type brm struct {
		name string
		f    func(br [4]int64, k int64) [4]int64
		ks   []int64
	}
	ks16 := []int64{}
	for k := int64(1); k <= 16; k++ {
		ks16 = append(ks16, k)
	}
	pm16 := append([]int64{}, ks16...)
	for _, k := range ks16 {
		pm16 = append(pm16, -k)
	}
	ms := []brm{
		{"br1-shift", func(br [4]int64, k int64) [4]int64 { br[1] += k; return br }, pm16},
		{"br2-shift", func(br [4]int64, k int64) [4]int64 { br[2] += k; return br }, pm16},
		{"br3-shift", func(br [4]int64, k int64) [4]int64 { br[3] += k; return br }, pm16},
		{"br2-shift-br3-compensates", func(br [4]int64, k int64) [4]int64 { br[2] += k; br[3] -= k; return br }, pm16},
		{"gap-moved", func(br [4]int64, k int64) [4]int64 { br[1] += k; br[2] += k; br[3] -= k; return br }, pm16},
		{"gap-widened-both-sides", func(br [4]int64, k int64) [4]int64 { br[1] -= k; br[2] += k; br[3] -= k; return br }, ks16},
		{"gap-narrowed-both-sides", func(br [4]int64, k int64) [4]int64 { br[1] += k; br[2] -= k; br[3] += k; return br }, []int64{1, 2, 3}},
		{"br0-nonzero", func(br [4]int64, k int64) [4]int64 { br[0] = k; br[1] -= k; return br }, ks16},
		{"br0-nonzero-br1-unchanged", func(br [4]int64, k int64) [4]int64 { br[0] = k; return br }, []int64{1, 8}},
		{"overlap", func(br [4]int64, k int64) [4]int64 { return [4]int64{0, br[2] + k, br[1], br[2] + br[3] - br[1]} }, []int64{0, 1, 16}},
		{"range2-empty", func(br [4]int64, k int64) [4]int64 { br[3] = 0; return br }, []int64{0}},
		{"range1-whole-file", func(br [4]int64, k int64) [4]int64 { n := br[2] + br[3]; return [4]int64{0, n, n, 0} }, []int64{0}},
	}
	for _, m := range ms {
		for _, k := range m.ks {
			br := m.f(s.BR, k)
			neg := false
			for _, v := range br {
				neg = neg || v < 0
			}
			if neg {
				continue
			}
			note := fmt.Sprintf("k=%+d", k)
			add("stale/"+m.name, note, func() ([]byte, bool) {
				b := clone(tg.File)
				ss := s
				return b, sigkit.SetByteRange(b, &ss, br)
			})
			if tg.PKI != nil && strings.HasPrefix(tg.Name, "harness/") {
				add("resigned/"+m.name, note, func() ([]byte, bool) {
					b := clone(tg.File)
					ss := s
					return b, sigkit.Resign(b, &ss, br, tg.PKI, tg.Opts, now)
				})
			}
		}
	}
	// appended bytes that the signer then covers: full coverage again (positive control)
	if tg.PKI != nil && strings.HasPrefix(tg.Name, "harness/") {
		add("resigned/append-then-cover", "n=7", func() ([]byte, bool) {
			b := append(clone(tg.File), []byte("\n% tail\n")...)
			ss := s
			br := s.BR
			br[3] = int64(len(b)) - br[2]
			return b, sigkit.Resign(b, &ss, br, tg.PKI, tg.Opts, now)
		})
		add("resigned/append-not-covered", "n=7", func() ([]byte, bool) {
			b := append(clone(tg.File), []byte("\n% tail\n")...)
			ss := s
			return b, sigkit.Resign(b, &ss, s.BR, tg.PKI, tg.Opts, now)
		})
	}
	return out
}

var (
	redefTypes = []string{"absent", "Sig", "DocTimeStamp", "SigX"}
	redefSFs   = []string{sigkit.SFDetached, sigkit.SFCAdES, sigkit.SFSHA1, sigkit.SFX509, sigkit.SFDTS}
)

// addRedefinitions: family H (see the file comment), for every signature of the target.
func addRedefinitions(out *[]mcase, ti int, tg *target, now time.Time) {
	harnessSigned := tg.PKI != nil
	for si := range tg.Sigs {
		s := tg.Sigs[si]
		if s.CEnd <= s.CStart || s.BREnd <= s.BRStart {
			continue
		}
		note := fmt.Sprintf("sig=%d", si)
		mk := func(spec sigkit.RedefSpec, resign bool) func() ([]byte, map[int]sigkit.SigInfo, bool) {
			return func() ([]byte, map[int]sigkit.SigInfo, bool) {
				if spec.SubFilter == sigkit.SFX509 && tg.PKI != nil {
					spec.Cert = tg.PKI.LeafCert.Raw
				}
				r, err := sigkit.AppendRedefinition(tg.File, s.FieldObj, s.SigObj, s.BRStart, s.BREnd, s.CStart, s.CEnd, spec)
				if err != nil {
					return nil, nil, false
				}
				if resign && !sigkit.ResignRedefined(r, spec.BR, tg.PKI, tg.Opts, now) {
					return nil, nil, false
				}
				return r.Bytes, map[int]sigkit.SigInfo{si: r.Sig}, true
			}
		}
		*out = append(*out, mcase{T: ti, Manip: "redef-stale/" + sigkit.RedefFieldVerbatim, Note: note,
			Make: mk(sigkit.RedefSpec{Mode: sigkit.RedefFieldVerbatim, Type: "keep", BR: sigkit.BRVerbatim}, false)})
		for _, mode := range []string{sigkit.RedefSameObj, sigkit.RedefFieldNewObj} {
			for _, typ := range redefTypes {
				for _, sf := range redefSFs {
					for _, br := range []string{sigkit.BRVerbatim, sigkit.BRNewContents, sigkit.BROldGapToEOF} {
						spec := sigkit.RedefSpec{Mode: mode, Type: typ, SubFilter: sf, BR: br}
						vm := fmt.Sprintf("redef/%s/type=%s/br=%s", mode, typ, br)
						*out = append(*out, mcase{T: ti, Manip: "redef-stale/" + spec.Key(), Note: note, Make: mk(spec, false), VSub: sf, VManip: vm})
						if harnessSigned && br != sigkit.BROldGapToEOF {
							*out = append(*out, mcase{T: ti, Manip: "redef-resigned/" + spec.Key(), Note: note, Make: mk(spec, true), VSub: sf, VManip: vm})
						}
					}
				}
			}
		}
	}
}
