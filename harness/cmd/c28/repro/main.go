// repro for the observation reported with C28 (not a violation of C28's text, it makes C28 vacuous
// for every non-timestamp signature): pdfcpu's reader numbers cross-reference sections from 1
// (newest = 1, pkg/pdfcpu/read.go buildXRefTableStartingAt: "incr := 0; for ... { incr++"), while
// pkg/pdfcpu/sign.go treats increment 0 as the current revision (collectSignedRevisionBoundaryEvidence:
// currentRevision = increment == 0 || documentTimestamp; applyHistoricalRevisionReporting: increment <= 0
// = current; the unit tests in sign_error_handling_test.go use 0 = current, 1 = historical).
// Effect: (1) an intact signature that covers the whole file is reported Status Valid but
// DocModified Unknown / Reason "no reason" instead of False / "document has not been modified";
// (2) the signed-revision-boundary check (byte range end == file size) never runs for ordinary
// signatures: with bytes appended behind the signed range the signature stays Status Valid.
//
//	. /verif/env.sh; cd /verif/harness; $GO125 run -tags verif ./cmd/c28/repro
package main

import (
	"bytes"
	"fmt"
	"os"
	"time"

	"github.com/pdfcpu/pdfcpu/pkg/api"
	"github.com/pdfcpu/pdfcpu/pkg/pdfcpu/model"
	"verif/harness/internal/sigenv"
	"verif/harness/internal/sigkit"
)

func main() {
	scratch, _ := os.MkdirTemp("/verif/.cache/run", "c28repro-")
	defer os.RemoveAll(scratch)
	env, err := sigenv.Start(scratch)
	if err != nil {
		panic(err)
	}
	now := time.Now()
	pki, _ := sigkit.NewPKI(sigkit.PKIOptions{CRLURL: env.Base + "/ca.crl"}, now)
	env.Serve("/ca.crl", pki.CRL)
	_ = env.Trust("ca", pki.CAPEM())
	s, err := sigkit.BuildSigned(pki, sigkit.DocOptions{SubFilters: []string{sigkit.SFDetached}}, now)
	if err != nil {
		panic(err)
	}
	conf := model.NewDefaultConfiguration()
	conf.Offline = true
	ctx, err := api.ReadContext(bytes.NewReader(s.Bytes), conf)
	if err != nil {
		panic(err)
	}
	e, _ := ctx.XRefTable.Find(s.Sigs[0].FieldObj)
	fmt.Printf("single-revision file: XRefTableEntry.Incr of the signature field = %d (sign.go expects 0 for the current revision)\n", e.Incr)
	sig := s.Sigs[0]
	fmt.Printf("byte range %v, /Contents at [%d,%d), file size %d: full coverage\n", sig.BR, sig.CStart, sig.CEnd, len(s.Bytes))
	fmt.Println("untampered:            ", sigenv.Describe(env.Validate(s.Bytes, true).Find(sig.FieldObj)))
	tail := append(append([]byte(nil), s.Bytes...), []byte("\n% 20 bytes appended\n")...)
	r := env.Validate(tail, true).Find(sig.FieldObj)
	fmt.Println("bytes appended:        ", sigenv.Describe(r), r.Problems)
	d, _ := sigkit.BuildSigned(pki, sigkit.DocOptions{SubFilters: []string{sigkit.SFDTS}}, now)
	fmt.Println("document time-stamp:   ", sigenv.Describe(env.Validate(d.Bytes, true).Find(d.Sigs[0].FieldObj)), "(time-stamps are exempt from the increment test)")
}
