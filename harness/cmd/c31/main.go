// C31 — page selections mean exactly what the selection syntax says.
//
// Reference: harness/internal/ref/pagesel (hand-written recogniser + interval evaluator written
// from the "pdfcpu selectedpages" usage text and the property text).
// Compared with api.ParsePageSelection (accept/reject, term split), api.PagesForPageSelection,
// api.RemainingPagesForPageRemoval and api.PagesForPageCollection.
//
// Layer 1: exhaustive bounded enumeration (page counts 0..40 x all expressions of <= 2 terms in the
// quick tier, <= 3 terms in the thorough tier, over every documented term shape with numbers from
// {0,1,2,3,N-1,N,N+1,99}, negation prefixes '!' and 'n').
// Layer 2: seeded random strings and grammar-mutated strings for the syntax check (and, for strings
// the grammar accepts, the evaluators at a seeded page count).
package main

import (
	"encoding/json"
	"fmt"
	"sort"
	"strings"
	"sync"
	"sync/atomic"

	"github.com/pdfcpu/pdfcpu/pkg/api"
	"verif/harness/internal/ref/pagesel"
	"verif/harness/internal/vk"
)

const maxN = 40

var readings = pagesel.Readings()

// termRec is one enumerated term at a fixed page count.
type termRec struct {
	t         pagesel.Term
	s         string
	key       string // shape key ("#-#", "!l-#-", ...)
	ambiguous bool   // its denotation differs between the accepted readings at this page count
	oor       bool   // carries a number outside 1..N
	probe     bool   // the "-l" prefix used to observe a negated term on its own
	// class of the single-term violation per API ("" = single term evaluates correctly)
	badSel, badRem, badCol string
}

func numberSet(n int) []int {
	set := map[int]bool{}
	for _, v := range []int{0, 1, 2, 3, n - 1, n, n + 1, 99} {
		if v >= 0 {
			set[v] = true
		}
	}
	out := make([]int, 0, len(set))
	for v := range set {
		out = append(out, v)
	}
	sort.Ints(out)
	return out
}

func newRec(n int, t pagesel.Term) *termRec {
	r := &termRec{t: t, s: t.String(), key: t.ShapeKey()}
	switch t.Shape.Numbers() {
	case 1:
		r.oor = t.A < 1 || t.A > n
	case 2:
		r.oor = t.A < 1 || t.A > n || t.B < 1 || t.B > n
	}
	if t.Shape != pagesel.Even && t.Shape != pagesel.Odd {
		lo0, hi0, ok0 := t.Interval(n, readings[0])
		for _, rd := range readings[1:] {
			lo, hi, ok := t.Interval(n, rd)
			if lo != lo0 || hi != hi0 || ok != ok0 {
				r.ambiguous = true
			}
		}
	}
	return r
}

func enumTerms(n int) []*termRec {
	nums := numberSet(n)
	var out []*termRec
	add := func(t pagesel.Term) { out = append(out, newRec(n, t)) }
	add(pagesel.Term{Shape: pagesel.Even})
	add(pagesel.Term{Shape: pagesel.Odd})
	for _, neg := range []byte{0, '!', 'n'} {
		for _, sh := range pagesel.RangeShapes {
			switch sh.Numbers() {
			case 0:
				add(pagesel.Term{Shape: sh, Neg: neg})
			case 1:
				for _, a := range nums {
					add(pagesel.Term{Shape: sh, Neg: neg, A: a})
				}
			case 2:
				for _, a := range nums {
					for _, b := range nums {
						add(pagesel.Term{Shape: sh, Neg: neg, A: a, B: b})
					}
				}
			}
		}
	}
	return out
}

// stats are per-goroutine-batch counters merged under a mutex.
type stats struct {
	exprs, nontrivial              int64
	parseCalls, selCalls, remCalls int64
	colCalls                       int64
	nonPlain                       int64 // expressions that matched only under a non-plain reading
	falseOutside                   int64 // decided-false map entries outside 1..N (e.g. "!0"): observed, not judged
	colEmptyErr                    int64 // collection "no page selected" where the reference list is empty
	rawViolations                  int64
	readingHits                    [8]int64
	pdfcpuPanics                   int64
	evalOfAcceptedFromStrings      int64
	selOnlyExprs                   int64
	lastSel, lastRem, lastCol      string           // classes of the most recent checkExpr (to record per-term behaviour)
	vio                            map[string]int64 // raw violating observations per key
}

type checker struct {
	t  *vk.T
	mu sync.Mutex
	st stats
	// per shape-key count of term occurrences in evaluated expressions
	shapeSeen map[string]int64
	vioClass  map[string]int64
	reported  sync.Map
}

func (c *checker) merge(s *stats, shapes map[string]int64) {
	c.mu.Lock()
	c.st.exprs += s.exprs
	c.st.nontrivial += s.nontrivial
	c.st.parseCalls += s.parseCalls
	c.st.selCalls += s.selCalls
	c.st.remCalls += s.remCalls
	c.st.colCalls += s.colCalls
	c.st.nonPlain += s.nonPlain
	c.st.falseOutside += s.falseOutside
	c.st.colEmptyErr += s.colEmptyErr
	c.st.rawViolations += s.rawViolations
	c.st.pdfcpuPanics += s.pdfcpuPanics
	for i := range s.readingHits {
		c.st.readingHits[i] += s.readingHits[i]
	}
	c.st.selOnlyExprs += s.selOnlyExprs
	for k, v := range shapes {
		c.shapeSeen[k] += v
	}
	for k, v := range s.vio {
		c.vioClass[k] += v
	}
	c.mu.Unlock()
}

type replayCase struct {
	N    int    `json:"page_count"`
	Expr string `json:"expression"`
	API  string `json:"api"`
	Got  string `json:"got"`
	Want string `json:"want_plain_reading"`
}

// violate counts every violating observation per key and hands the first one of each key
// (per task) to vk; vk keeps the first per run.
func (c *checker) violate(st *stats, key string, what func() string, rc func() replayCase) {
	st.rawViolations++
	if st.vio == nil {
		st.vio = map[string]int64{}
	}
	st.vio[key]++
	if st.vio[key] > 1 {
		return
	}
	if _, seen := c.reported.LoadOrStore(key, true); seen {
		return
	}
	c.t.Violate(key, what(), rc())
}

func maskString(m uint64, outside []int) string {
	var pp []string
	for p := 0; p < 64; p++ {
		if m&(1<<uint(p)) != 0 {
			pp = append(pp, fmt.Sprint(p))
		}
	}
	for _, p := range outside {
		pp = append(pp, fmt.Sprint(p))
	}
	return "{" + strings.Join(pp, ",") + "}"
}

// trueMask turns pdfcpu's IntSet into bits; pages outside 0..63 are listed separately.
func trueMask(m map[int]bool, n int, st *stats) (mask uint64, outside []int) {
	for k, v := range m {
		if !v {
			if k < 1 || k > n {
				st.falseOutside++
			}
			continue
		}
		if k < 0 || k > 63 {
			outside = append(outside, k)
			continue
		}
		mask |= 1 << uint(k)
	}
	sort.Ints(outside)
	return mask, outside
}

func eqInts(a, b []int) bool {
	if len(a) != len(b) {
		return false
	}
	for i := range a {
		if a[i] != b[i] {
			return false
		}
	}
	return true
}

func strip0(l []int) []int {
	out := make([]int, 0, len(l))
	for _, p := range l {
		if p != 0 {
			out = append(out, p)
		}
	}
	return out
}

// result of checking one expression against one API
type verdict struct {
	class   string // "" = agrees with an accepted reading
	reading int    // index of the matching reading when class == ""
	got     string
	mask    uint64 // set results: rendered lazily (violations are dense on an unfixed tree)
	outside []int
	isSet   bool
}

func (v verdict) gotString() string {
	if v.isSet {
		return maskString(v.mask, v.outside)
	}
	return v.got
}

func anyAmbiguous(recs []*termRec) bool {
	for _, r := range recs {
		if r.ambiguous {
			return true
		}
	}
	return false
}

func (c *checker) judgeSet(n int, tt []pagesel.Term, amb bool, got uint64, outside []int, remaining bool) verdict {
	all := pagesel.AllMask(n)
	want := func(rd pagesel.Reading) uint64 {
		w := pagesel.SelectionMask(n, tt, rd)
		if remaining {
			w = all &^ w
		}
		return w
	}
	nr := 1
	if amb {
		nr = len(readings)
	}
	if len(outside) == 0 {
		for i := 0; i < nr; i++ {
			if got == want(readings[i]) {
				return verdict{reading: i}
			}
		}
	}
	v := verdict{mask: got, outside: outside, isSet: true}
	switch {
	case len(outside) > 0 || got&^(all|1) != 0:
		v.class = "beyond-pagecount"
	case got&1 != 0:
		v.class = "page0-selected+wrong-pages"
		for i := 0; i < len(readings); i++ {
			if got&^1 == want(readings[i]) {
				v.class = "page0-selected"
				break
			}
		}
	default:
		v.class = "wrong-pages"
	}
	return v
}

func (c *checker) judgeList(n int, tt []pagesel.Term, amb bool, got []int, err error, st *stats) verdict {
	nr := 1
	if amb {
		nr = len(readings)
	}
	if err != nil {
		for i := 0; i < nr; i++ {
			if len(pagesel.Collection(n, tt, readings[i])) == 0 {
				st.colEmptyErr++
				return verdict{reading: i}
			}
		}
		return verdict{class: "error-on-valid", got: "error: " + err.Error()}
	}
	for i := 0; i < nr; i++ {
		if eqInts(got, pagesel.Collection(n, tt, readings[i])) {
			return verdict{reading: i}
		}
	}
	v := verdict{got: fmt.Sprint(got)}
	has0, beyond := false, false
	for _, p := range got {
		if p == 0 {
			has0 = true
		}
		if p < 0 || p > n {
			beyond = true
		}
	}
	switch {
	case beyond:
		v.class = "beyond-pagecount"
	case has0:
		v.class = "page0-listed+wrong-list"
		g0 := strip0(got)
		for i := 0; i < len(readings); i++ {
			if eqInts(g0, pagesel.Collection(n, tt, readings[i])) {
				v.class = "page0-listed"
				break
			}
		}
	default:
		v.class = "wrong-list"
	}
	return v
}

// attribute builds the violation key. A term that shows the same class when evaluated alone (negated
// terms: after "-l") is named: <api>/<class>/term=<shape>. Otherwise the defect only shows in
// composition; the key then names the last term of the shortest prefix of the expression that already
// violates, i.e. the term whose arrival breaks the evaluation: <api>/<class>/compose/last=<shape>.
// One compositional defect so yields a handful of keys (at most one per term shape) instead of one per
// combination of shapes (a "negation removes only the first occurrence" mutant produced 2544 keys).
var termKeyCache sync.Map // [3]string{api, class, term shape} -> key

func termKey(api, class, shape string) string {
	id := [3]string{api, class, shape}
	if k, ok := termKeyCache.Load(id); ok {
		return k.(string)
	}
	k := fmt.Sprintf("%s/%s/term=%s", api, class, shape)
	termKeyCache.Store(id, k)
	return k
}

func composeKey(api, class, shape string) string {
	id := [3]string{api + "\x00compose", class, shape}
	if k, ok := termKeyCache.Load(id); ok {
		return k.(string)
	}
	k := fmt.Sprintf("%s/%s/compose/last=%s", api, class, shape)
	termKeyCache.Store(id, k)
	return k
}

func (c *checker) attribute(apiName, class string, n int, recs []*termRec, tt []pagesel.Term, bad func(*termRec) string) string {
	if len(recs) == 1 {
		return termKey(apiName, class, recs[0].key)
	}
	if len(recs) == 2 && recs[0].probe {
		return termKey(apiName, class, recs[1].key)
	}
	if apiName == "syntax" {
		for _, r := range recs {
			if c.classOf(apiName, n, []*termRec{r}, []pagesel.Term{r.t}) != "" {
				return termKey(apiName, class, r.key)
			}
		}
	} else {
		for _, r := range recs {
			if b := bad(r); b != "" && (b == class || strings.HasPrefix(class, b) || strings.HasPrefix(b, class)) {
				return termKey(apiName, class, r.key)
			}
		}
	}
	last := recs[len(recs)-1]
	for k := 2; k < len(recs); k++ {
		if c.classOf(apiName, n, recs[:k], tt[:k]) != "" {
			last = recs[k-1]
			break
		}
	}
	return composeKey(apiName, class, last.key)
}

// classOf evaluates one expression with one API ("syntax", "selection", "removal", "collection") and
// returns the violation class ("" = agrees with the reference). Used for key attribution only.
func (c *checker) classOf(apiName string, n int, recs []*termRec, tt []pagesel.Term) string {
	parts := make([]string, len(recs))
	for i, r := range recs {
		parts[i] = r.s
	}
	st := &stats{}
	amb := anyAmbiguous(recs)
	switch apiName {
	case "syntax":
		var got []string
		var err error
		if p := guard(st, func() { got, err = api.ParsePageSelection(strings.Join(parts, ",")) }); p != nil {
			return "panic"
		}
		if err != nil {
			return "rejected-valid"
		}
		if !eqStrings(got, parts) {
			return "wrong-split"
		}
	case "selection", "removal":
		var m map[int]bool
		var err error
		if p := guard(st, func() {
			if apiName == "selection" {
				m, err = api.PagesForPageSelection(n, parts, false, false)
			} else {
				m, err = api.RemainingPagesForPageRemoval(n, parts, false)
			}
		}); p != nil {
			return "panic"
		}
		if err != nil {
			return "error-on-valid"
		}
		got, outside := trueMask(m, n, st)
		return c.judgeSet(n, tt, amb, got, outside, apiName == "removal").class
	case "collection":
		var l []int
		var err error
		if p := guard(st, func() { l, err = api.PagesForPageCollection(n, parts) }); p != nil {
			return "panic"
		}
		return c.judgeList(n, tt, amb, l, err, st).class
	}
	return ""
}

func eqStrings(a, b []string) bool {
	if len(a) != len(b) {
		return false
	}
	for i := range a {
		if a[i] != b[i] {
			return false
		}
	}
	return true
}

func guard(st *stats, f func()) (panicked any) {
	defer func() {
		if r := recover(); r != nil {
			st.pdfcpuPanics++
			panicked = r
		}
	}()
	f()
	return nil
}

func exprOf(recs []*termRec) string {
	ss := make([]string, len(recs))
	for i, r := range recs {
		ss[i] = r.s
	}
	return strings.Join(ss, ",")
}

// checkExpr runs the APIs on one grammar-valid expression. record=true stores the single-term
// classes into recs[0]. full=false (thorough tier, 3-term expressions outside the sample) runs
// PagesForPageSelection only, on the terms as ParsePageSelection would split them.
func (c *checker) checkExpr(n int, recs []*termRec, tt []pagesel.Term, st *stats, record, full bool) {
	st.exprs++
	st.lastSel, st.lastRem, st.lastCol = "", "", ""
	amb := anyAmbiguous(recs)
	plainSel := pagesel.SelectionMask(n, tt, readings[0])
	nontriv := plainSel != 0 && plainSel != pagesel.AllMask(n)
	for _, r := range recs {
		if r.oor {
			nontriv = true
		}
	}
	if nontriv {
		st.nontrivial++
	}
	rc := func(apiName, got string, want any) func() replayCase {
		return func() replayCase {
			return replayCase{N: n, Expr: exprOf(recs), API: apiName, Got: got, Want: fmt.Sprint(want)}
		}
	}
	rcf := func(f func() replayCase) func() replayCase { return f }
	noBad := func(*termRec) string { return "" }

	// 1. syntax: must be accepted and split into exactly these terms
	var parts []string
	if !full {
		st.selOnlyExprs++
		parts = make([]string, len(recs))
		for i, r := range recs {
			parts[i] = r.s
		}
	} else {
		expr := exprOf(recs)
		var perr error
		st.parseCalls++
		if p := guard(st, func() { parts, perr = api.ParsePageSelection(expr) }); p != nil {
			c.violate(st, "syntax/panic", func() string { return fmt.Sprintf("ParsePageSelection(%q) panics: %v", expr, p) }, rc("ParsePageSelection", "panic", "accept"))
			return
		}
		if perr != nil {
			c.violate(st, c.attribute("syntax", "rejected-valid", n, recs, tt, noBad),
				func() string {
					return fmt.Sprintf("ParsePageSelection(%q) rejects an expression of the documented grammar: %v", expr, perr)
				}, rc("ParsePageSelection", "reject", "accept"))
			parts = strings.Split(expr, ",")
		} else {
			ok := len(parts) == len(recs)
			for i := 0; ok && i < len(parts); i++ {
				ok = parts[i] == recs[i].s
			}
			if !ok {
				got := fmt.Sprintf("%q", parts)
				c.violate(st, c.attribute("syntax", "wrong-split", n, recs, tt, noBad),
					func() string {
						return fmt.Sprintf("ParsePageSelection(%q) = %s, want the comma separated terms", expr, got)
					}, rc("ParsePageSelection", got, "terms"))
				parts = strings.Split(expr, ",")
			}
		}
	}

	// 2. selection
	{
		var m map[int]bool
		var err error
		st.selCalls++
		badSel := func(r *termRec) string { return r.badSel }
		if p := guard(st, func() { m, err = api.PagesForPageSelection(n, parts, false, false) }); p != nil {
			c.violate(st, c.attribute("selection", "panic", n, recs, tt, badSel),
				func() string { return fmt.Sprintf("PagesForPageSelection(%d, [%s]) panics: %v", n, exprOf(recs), p) }, rc("PagesForPageSelection", "panic", ""))
		} else if err != nil {
			st.lastSel = "error-on-valid"
			if record {
				recs[0].badSel = "error-on-valid"
			}
			c.violate(st, c.attribute("selection", "error-on-valid", n, recs, tt, badSel),
				func() string {
					return fmt.Sprintf("PagesForPageSelection(%d, [%s]) fails on a valid expression: %v", n, exprOf(recs), err)
				}, rc("PagesForPageSelection", "error: "+err.Error(), maskString(plainSel, nil)))
		} else {
			got, outside := trueMask(m, n, st)
			v := c.judgeSet(n, tt, amb, got, outside, false)
			if v.class == "" {
				st.readingHits[v.reading]++
				if v.reading != 0 {
					st.nonPlain++
				}
			} else {
				st.lastSel = v.class
				if record {
					recs[0].badSel = v.class
				}
				c.violate(st, c.attribute("selection", v.class, n, recs, tt, badSel),
					func() string {
						return fmt.Sprintf("PagesForPageSelection(%d, [%s]) selects %s; reference (plain reading) %s; selected pages must lie within 1..%d",
							n, exprOf(recs), v.gotString(), maskString(plainSel, nil), n)
					}, rcf(func() replayCase {
						return replayCase{N: n, Expr: exprOf(recs), API: "PagesForPageSelection", Got: v.gotString(), Want: maskString(plainSel, nil)}
					}))
			}
		}
	}
	if !full {
		return
	}

	// 3. remaining pages for removal
	{
		var m map[int]bool
		var err error
		st.remCalls++
		plainRem := pagesel.AllMask(n) &^ plainSel
		badRem := func(r *termRec) string { return r.badRem }
		if p := guard(st, func() { m, err = api.RemainingPagesForPageRemoval(n, parts, false) }); p != nil {
			c.violate(st, c.attribute("removal", "panic", n, recs, tt, badRem),
				func() string {
					return fmt.Sprintf("RemainingPagesForPageRemoval(%d, [%s]) panics: %v", n, exprOf(recs), p)
				}, rc("RemainingPagesForPageRemoval", "panic", ""))
		} else if err != nil {
			st.lastRem = "error-on-valid"
			if record {
				recs[0].badRem = "error-on-valid"
			}
			c.violate(st, c.attribute("removal", "error-on-valid", n, recs, tt, badRem),
				func() string {
					return fmt.Sprintf("RemainingPagesForPageRemoval(%d, [%s]) fails on a valid expression: %v", n, exprOf(recs), err)
				}, rc("RemainingPagesForPageRemoval", "error: "+err.Error(), maskString(plainRem, nil)))
		} else {
			got, outside := trueMask(m, n, st)
			v := c.judgeSet(n, tt, amb, got, outside, true)
			if v.class != "" {
				st.lastRem = v.class
				if record {
					recs[0].badRem = v.class
				}
				c.violate(st, c.attribute("removal", v.class, n, recs, tt, badRem),
					func() string {
						return fmt.Sprintf("RemainingPagesForPageRemoval(%d, [%s]) keeps %s; reference (plain reading) %s", n, exprOf(recs), v.gotString(), maskString(plainRem, nil))
					}, rcf(func() replayCase {
						return replayCase{N: n, Expr: exprOf(recs), API: "RemainingPagesForPageRemoval", Got: v.gotString(), Want: maskString(plainRem, nil)}
					}))
			}
		}
	}

	// 4. collection
	{
		var l []int
		var err error
		st.colCalls++
		badCol := func(r *termRec) string { return r.badCol }
		if p := guard(st, func() { l, err = api.PagesForPageCollection(n, parts) }); p != nil {
			c.violate(st, c.attribute("collection", "panic", n, recs, tt, badCol),
				func() string { return fmt.Sprintf("PagesForPageCollection(%d, [%s]) panics: %v", n, exprOf(recs), p) }, rc("PagesForPageCollection", "panic", ""))
		} else {
			v := c.judgeList(n, tt, amb, l, err, st)
			if v.class != "" {
				st.lastCol = v.class
				if record {
					recs[0].badCol = v.class
				}
				c.violate(st, c.attribute("collection", v.class, n, recs, tt, badCol),
					func() string {
						return fmt.Sprintf("PagesForPageCollection(%d, [%s]) = %s; reference (plain reading) %v; listed pages must lie within 1..%d",
							n, exprOf(recs), v.got, pagesel.Collection(n, tt, readings[0]), n)
					}, rc("PagesForPageCollection", v.got, pagesel.Collection(n, tt, readings[0])))
			}
		}
	}
}

func callSel(n int, parts []string) (m map[int]bool, err error, p any) {
	defer func() {
		if r := recover(); r != nil {
			p = r
		}
	}()
	m, err = api.PagesForPageSelection(n, parts, false, false)
	return
}

// fastSel is the lean form of checkExpr(full=false) for the 3-term enumeration: it reports true when
// PagesForPageSelection agrees with an accepted reading; everything else is left to checkExpr (which
// repeats the call and does the classification and reporting).
func (c *checker) fastSel(n int, recs []*termRec, tt []pagesel.Term, parts []string, st *stats) bool {
	for i, r := range recs {
		parts[i] = r.s
	}
	m, err, p := callSel(n, parts)
	if p != nil || err != nil {
		return false
	}
	var got uint64
	var falseOutside int64
	for k, v := range m {
		if !v {
			if k < 1 || k > n {
				falseOutside++
			}
			continue
		}
		if k < 0 || k > 63 {
			return false
		}
		got |= 1 << uint(k)
	}
	plain := pagesel.SelectionMask(n, tt, readings[0])
	hit := -1
	if got == plain {
		hit = 0
	} else if anyAmbiguous(recs) {
		for i := 1; i < len(readings); i++ {
			if got == pagesel.SelectionMask(n, tt, readings[i]) {
				hit = i
				break
			}
		}
	}
	if hit < 0 {
		return false
	}
	st.exprs++
	st.selOnlyExprs++
	st.selCalls++
	st.falseOutside += falseOutside
	st.readingHits[hit]++
	if hit != 0 {
		st.nonPlain++
	}
	nontriv := plain != 0 && plain != pagesel.AllMask(n)
	for _, r := range recs {
		if r.oor {
			nontriv = true
		}
	}
	if nontriv {
		st.nontrivial++
	}
	return true
}

// probeNegated observes a negated term after "-l" and records its classes.
func (c *checker) probeNegated(n int, allRec, r *termRec, st *stats) {
	if r.t.Neg == 0 {
		return
	}
	c.checkExpr(n, []*termRec{allRec, r}, []pagesel.Term{allRec.t, r.t}, st, false, true)
	if r.badSel == "" {
		r.badSel = st.lastSel
	}
	if r.badRem == "" {
		r.badRem = st.lastRem
	}
	if r.badCol == "" {
		r.badCol = st.lastCol
	}
}

// refSelfCheck cross-checks the two evaluators of the reference (list form and bit form).
func refSelfCheck(t *vk.T, n int, tt []pagesel.Term) {
	for _, rd := range readings {
		a := pagesel.MaskOf(pagesel.Selection(n, tt, rd))
		b := pagesel.SelectionMask(n, tt, rd)
		if a != b {
			t.Broken("reference model disagrees with itself: n=%d expr=%s reading=%+v list=%x mask=%x", n, pagesel.Format(tt), rd, a, b)
		}
		rem := pagesel.MaskOf(pagesel.Remaining(n, tt, rd))
		if rem != pagesel.AllMask(n)&^b {
			t.Broken("reference model Remaining disagrees: n=%d expr=%s", n, pagesel.Format(tt))
		}
	}
	// round trip through the recogniser
	s := pagesel.Format(tt)
	back, v := pagesel.Parse(s)
	if v != pagesel.Valid || pagesel.Format(back) != s {
		t.Broken("reference recogniser does not accept its own rendering %q (%v)", s, v)
	}
}

// canonical corner cases run first so that they become the recorded example of their key.
var canonical = []struct {
	n    int
	expr string
}{{5, "0-2"}, {5, "0"}, {5, "0-"}, {5, "0-l"}, {5, "0-l-1"}, {0, "l"}, {5, "l-7-"}, {5, "l-3-"}, {5, "3-99"}, {5, "4-2"}, {5, "!2,even"}, {5, "1-,!3,odd"}}

const sampleStride = 64 // thorough tier: every 64th 3-term expression runs all four APIs

func (c *checker) enumerate(maxTerms int) {
	t := c.t
	{
		st := &stats{}
		for ci, cc := range canonical {
			tt, v := pagesel.Parse(cc.expr)
			if v != pagesel.Valid {
				t.Broken("canonical case %q not valid for the reference recogniser", cc.expr)
			}
			recs := make([]*termRec, len(tt))
			for i := range tt {
				recs[i] = newRec(cc.n, tt[i])
				if len(tt) > 1 {
					c.checkExpr(cc.n, recs[i:i+1], tt[i:i+1], st, true, true)
				}
			}
			c.checkExpr(cc.n, recs, tt, st, len(tt) == 1, true)
			if ci%3 == 0 {
				t.Sample(map[string]any{"page_count": cc.n, "expression": cc.expr, "reference_selection": pagesel.Selection(cc.n, tt, readings[0]),
					"reference_collection": pagesel.Collection(cc.n, tt, readings[0])})
			}
		}
		t.Count("canonical_cases", st.exprs)
		for i := int64(0); i < st.exprs; i++ {
			t.Eval("")
		}
		st.exprs, st.nontrivial = 0, 0
		c.merge(st, nil)
	}
	perN := make([][]*termRec, maxN+1)
	var termCount, negProbes int64
	// pass 1: the empty selection and all 1-term expressions (records the per-term classes)
	for n := 0; n <= maxN; n++ {
		st := &stats{}
		shapes := map[string]int64{}
		perN[n] = enumTerms(n)
		termCount += int64(len(perN[n]))
		for _, ensure := range []bool{false, true} {
			m, err := api.PagesForPageSelection(n, nil, ensure, false)
			got, outside := trueMask(m, n, st)
			want := uint64(0)
			if ensure {
				want = pagesel.AllMask(n)
			}
			st.exprs++
			if err != nil || got != want || len(outside) > 0 {
				c.violate(st, fmt.Sprintf("selection/empty-expression/ensureAll=%v", ensure),
					func() string {
						return fmt.Sprintf("PagesForPageSelection(%d, nil, %v) = %s, %v", n, ensure, maskString(got, outside), err)
					}, func() replayCase { return replayCase{N: n, API: "PagesForPageSelection"} })
			}
		}
		allRec := newRec(n, pagesel.Term{Shape: pagesel.UpToLast})
		allRec.probe = true
		for _, r := range perN[n] {
			tt := []pagesel.Term{r.t}
			refSelfCheck(t, n, tt)
			c.checkExpr(n, []*termRec{r}, tt, st, true, true)
			shapes[r.key]++
		}
		// a negated term alone selects nothing whatever it denotes: its own behaviour is observed after
		// "-l" (all pages) and recorded for the attribution of violations in longer expressions
		pre := st.exprs
		for _, r := range perN[n] {
			c.probeNegated(n, allRec, r, st)
		}
		negProbes += st.exprs - pre
		st.exprs = pre // these expressions are enumerated again in pass 2: not counted twice
		c.merge(st, shapes)
	}
	t.Count("enumerated_terms_summed_over_page_counts", termCount)
	t.Count("negated_term_probes_after_-l", negProbes)
	if maxTerms < 2 {
		return
	}
	// pass 2: all 2-term (and 3-term) expressions, one task per (page count, first term)
	type task struct{ n, i int }
	var tasks []task
	for n := maxN; n >= 0; n-- { // expensive page counts first (better load balance)
		for i := range perN[n] {
			tasks = append(tasks, task{n, i})
		}
	}
	var selfChecks int64
	offset := int(t.Seed % sampleStride)
	if offset < 0 {
		offset += sampleStride
	}
	vk.Parallel(len(tasks), func(k int) {
		n, i := tasks[k].n, tasks[k].i
		terms := perN[n]
		st := &stats{}
		shapes := map[string]int64{}
		recs2 := make([]*termRec, 2)
		tt2 := make([]pagesel.Term, 2)
		recs3 := make([]*termRec, 3)
		tt3 := make([]pagesel.Term, 3)
		parts3 := make([]string, 3)
		a := terms[i]
		for j, b := range terms {
			recs2[0], recs2[1] = a, b
			tt2[0], tt2[1] = a.t, b.t
			if (i+j)%97 == 0 {
				refSelfCheck(t, n, tt2)
				atomic.AddInt64(&selfChecks, 1)
			}
			c.checkExpr(n, recs2, tt2, st, false, true)
			shapes[a.key]++
			shapes[b.key]++
			if maxTerms < 3 {
				continue
			}
			for l, d := range terms {
				recs3[0], recs3[1], recs3[2] = a, b, d
				tt3[0], tt3[1], tt3[2] = a.t, b.t, d.t
				full := (i*31+j*7+l+offset)%sampleStride == 0
				if !full && c.fastSel(n, recs3, tt3, parts3, st) {
					continue
				}
				c.checkExpr(n, recs3, tt3, st, false, full)
			}
			shapes[a.key] += int64(len(terms))
			shapes[b.key] += int64(len(terms))
			for _, d := range terms {
				shapes[d.key]++
			}
		}
		c.merge(st, shapes)
	})
	t.Count("reference_self_checks_2term", selfChecks)
}

// replay re-runs the single case of a replay file.
func (c *checker) replay() {
	var rc replayCase
	if err := json.Unmarshal(c.t.Replay.Case, &rc); err != nil {
		c.t.Broken("replay case: %v", err)
	}
	st := &stats{}
	tt, v := pagesel.Parse(rc.Expr)
	if v != pagesel.Valid || strings.HasPrefix(c.t.Replay.Key, "syntax/") {
		c.checkString(rc.Expr, c.t.RNG("replay"), st, map[string]int64{})
		return
	}
	recs := make([]*termRec, len(tt))
	for i := range tt {
		recs[i] = newRec(rc.N, tt[i])
		if len(tt) > 1 {
			c.checkExpr(rc.N, recs[i:i+1], tt[i:i+1], st, true, true)
		}
	}
	c.checkExpr(rc.N, recs, tt, st, len(tt) == 1, true)
}

func main() {
	vk.Run("C31", "exploration", func(t *vk.T) {
		api.DisableConfigDir()
		c := &checker{t: t, shapeSeen: map[string]int64{}, vioClass: map[string]int64{}}
		if t.Replay != nil {
			c.replay()
			return
		}
		maxTerms := t.Pick(2, 3)
		t.Rule(fmt.Sprintf("layer 1: page counts 0..%d x every expression of <= %d terms over the shapes #, -#, #-, #-#, l, l-#, l-#-, -l, -l-#, #-l, #-l-#, even, odd, "+
			"range shapes plain and negated with '!' and 'n', numbers from {0,1,2,3,N-1,N,N+1,99} (distinct by construction); each expression goes through ParsePageSelection, "+
			"PagesForPageSelection, RemainingPagesForPageRemoval, PagesForPageCollection and is compared with ref/pagesel; non-trivial = the reference selection is a proper non-empty "+
			"subset of 1..N or a term carries a number outside 1..N. layer 2: seeded random strings over the grammar alphabet (+ noise) and mutated valid expressions: "+
			"recogniser verdict vs ParsePageSelection; strings the grammar accepts are also evaluated at a seeded page count", maxN, maxTerms))
		t.Assume("documentation ambiguity 1: 'l-3-' is glossed 'include last 3 pages' in the usage text but composes as 'page last-3 up to the last page'; both readings are accepted (consistently within one expression)")
		t.Assume("documentation ambiguity 2: 'l-#-' whose start page last-# is < 1 may either be clipped to page 1 or select nothing; both accepted")
		t.Assume("documentation ambiguity 3: a range term with explicit start page 0 (0, 0-, 0-#, 0-l, 0-l-#) may either be clipped to 1.. or select nothing; both accepted — but page 0 itself may never be selected/listed (property: always within 1..page count)")
		t.Assume("every other range term denotes its integer interval intersected with 1..N (numbers beyond N are clipped, reversed ranges are empty), as DESIGN §C31 states")
		t.Assume("the returned IntSet is read as: selected = keys with value true; keys with value false (decided, deselected) are not judged, only counted when outside 1..N")
		t.Assume("page collections: a negated term removes the earlier occurrences of its pages (only reading under which 'deselects' is meaningful for a list; pdfcpu's own test table agrees); even/odd append their pages regardless of earlier terms; an empty collection may be reported as error 'no page selected'")
		t.Assume("syntax check: the empty string (= no selection), white space inside an otherwise valid expression and negated even/odd are not specified by the usage text: either verdict accepted; numbers that do not fit int are syntactically valid but not evaluated; in the strings layer expressions with a number > 1 000 000 are checked for syntax only (an evaluator without clamping would need O(number) memory)")
		t.Assume("RemainingPagesForPageRemoval result = 1..N minus the selection")

		c.enumerate(maxTerms)
		exhaustive := true

		// layer 2
		c.stringsLayer()

		st := c.st
		t.EvalBulk(st.exprs, st.nontrivial)
		t.Count("expressions_enumerated", st.exprs)
		t.Count("calls_ParsePageSelection", st.parseCalls)
		t.Count("calls_PagesForPageSelection", st.selCalls)
		t.Count("calls_RemainingPagesForPageRemoval", st.remCalls)
		t.Count("calls_PagesForPageCollection", st.colCalls)
		t.Count("matched_only_under_nonplain_reading", st.nonPlain)
		for i, h := range st.readingHits {
			if h > 0 {
				t.Count(fmt.Sprintf("selection_matched_reading_%d", i), h)
			}
		}
		t.Count("deselected_map_entries_outside_1..N_observed", st.falseOutside)
		t.Count("collection_empty_reported_as_error", st.colEmptyErr)
		t.Count("raw_violating_observations", st.rawViolations)
		t.Count("pdfcpu_panics", st.pdfcpuPanics)
		if st.selOnlyExprs > 0 {
			t.Count("expressions_checked_with_PagesForPageSelection_only", st.selOnlyExprs)
			t.Assume(fmt.Sprintf("thorough tier: every 3-term expression is enumerated and evaluated by PagesForPageSelection; ParsePageSelection, RemainingPagesForPageRemoval and PagesForPageCollection "+
				"see all <= 2-term expressions and every %dth 3-term expression (seed-dependent offset) — four APIs on all 6.4e9 expressions would take > 1 h", sampleStride))
		}
		for k, v := range c.shapeSeen {
			if strings.HasPrefix(k, "strings/") {
				t.Count(k, v) // string layer: reference verdict x pdfcpu verdict
				continue
			}
			t.Count("term_occurrences/"+k, v)
		}
		for k, v := range c.vioClass {
			t.Count("violations/"+k, v)
		}
		t.Exhaustive(exhaustive)
		t.Extra("max_terms", maxTerms)
		t.Extra("terms_at_N=5", len(enumTerms(5)))
	})
}
