package main

import (
	"fmt"
	"math/rand/v2"
	"strings"

	"github.com/pdfcpu/pdfcpu/pkg/api"
	"verif/harness/internal/ref/pagesel"
	"verif/harness/internal/vk"
)

const grammarAlphabet = "0123456789-l,!nevod"

var units = []string{"0", "1", "2", "3", "4", "5", "7", "9", "10", "12", "99", "-", "-", "-", "l", "l", ",", ",", ",", "!", "n", "even", "odd"}
var noise = []string{" ", "x", "L", "E", ";", ".", "\n", "\t", "+", "e", "o", "d", "v", "N", "١", "00", "99999999999999999999"}

func randomString(rng *rand.Rand) string {
	var b strings.Builder
	k := 1 + rng.IntN(9)
	for i := 0; i < k; i++ {
		if rng.IntN(40) == 0 {
			b.WriteString(noise[rng.IntN(len(noise))])
		} else {
			b.WriteString(units[rng.IntN(len(units))])
		}
	}
	return b.String()
}

func randomNumber(rng *rand.Rand) int {
	switch rng.IntN(10) {
	case 0:
		return 0
	case 1:
		return 99
	case 2:
		return 100000
	}
	return rng.IntN(14)
}

func randomValidExpr(rng *rand.Rand) string {
	k := 1 + rng.IntN(4)
	tt := make([]pagesel.Term, k)
	for i := range tt {
		switch rng.IntN(8) {
		case 0:
			tt[i] = pagesel.Term{Shape: pagesel.Even}
		case 1:
			tt[i] = pagesel.Term{Shape: pagesel.Odd}
		default:
			t := pagesel.Term{Shape: pagesel.RangeShapes[rng.IntN(len(pagesel.RangeShapes))], A: randomNumber(rng), B: randomNumber(rng)}
			switch rng.IntN(4) {
			case 0:
				t.Neg = '!'
			case 1:
				t.Neg = 'n'
			}
			tt[i] = t
		}
	}
	return pagesel.Format(tt)
}

func mutate(rng *rand.Rand, s string) string {
	b := []byte(s)
	for m := 1 + rng.IntN(2); m > 0; m-- {
		pool := grammarAlphabet
		if rng.IntN(6) == 0 {
			pool = " xLE;.\n+N"
		}
		ch := pool[rng.IntN(len(pool))]
		switch op := rng.IntN(8); {
		case op == 0 && len(b) > 0: // delete
			i := rng.IntN(len(b))
			b = append(b[:i], b[i+1:]...)
		case op == 1: // insert
			i := rng.IntN(len(b) + 1)
			b = append(b[:i], append([]byte{ch}, b[i:]...)...)
		case op == 2 && len(b) > 0: // replace
			b[rng.IntN(len(b))] = ch
		case op == 3 && len(b) > 0: // duplicate a byte
			i := rng.IntN(len(b))
			b = append(b[:i], append([]byte{b[i]}, b[i:]...)...)
		case op == 4 && len(b) > 1: // swap neighbours
			i := rng.IntN(len(b) - 1)
			b[i], b[i+1] = b[i+1], b[i]
		case op == 5: // append
			b = append(b, ch)
		case op == 6: // prepend
			b = append([]byte{ch}, b...)
		case op == 7 && len(b) > 0: // truncate
			b = b[:rng.IntN(len(b))]
		}
	}
	return string(b)
}

// evalNumberCap bounds the numbers in expressions of the strings layer that are handed to the evaluators.
const evalNumberCap = 1_000_000

func maxNumber(tt []pagesel.Term) int {
	m := 0
	for _, t := range tt {
		switch t.Shape.Numbers() {
		case 2:
			m = max(m, t.B)
			fallthrough
		case 1:
			m = max(m, t.A)
		}
	}
	return m
}

// invalidClass names the structural class of a string outside the grammar that was accepted.
func invalidClass(s string) string {
	switch {
	case strings.HasPrefix(s, "even"):
		return "even-prefix"
	case strings.Contains(s, "odd"):
		return "contains-odd"
	}
	for i := 1; i < len(s); i++ {
		if _, v := pagesel.Parse(s[i:]); v == pagesel.Valid {
			return "valid-suffix"
		}
	}
	return "other"
}

func onlyGrammarAlphabet(s string) bool {
	for i := 0; i < len(s); i++ {
		if !strings.ContainsRune(grammarAlphabet, rune(s[i])) {
			return false
		}
	}
	return true
}

type strCase struct {
	S       string `json:"string"`
	Verdict string `json:"reference_verdict"`
	Got     string `json:"pdfcpu"`
	N       int    `json:"page_count,omitempty"`
}

func (c *checker) checkString(s string, rng *rand.Rand, st *stats, cls map[string]int64) {
	t := c.t
	tt, v := pagesel.Parse(s)
	var parts []string
	var err error
	st.parseCalls++
	if p := guard(st, func() { parts, err = api.ParsePageSelection(s) }); p != nil {
		c.violate(st, "syntax/panic", func() string { return fmt.Sprintf("ParsePageSelection(%q) panics: %v", s, p) }, func() replayCase { return replayCase{Expr: s, API: "ParsePageSelection"} })
		return
	}
	accepted := err == nil
	key := ""
	if s != "" && onlyGrammarAlphabet(s) {
		key = s
	}
	t.Eval(key)
	cls[fmt.Sprintf("strings/%s/accepted=%v", v, accepted)]++
	switch v {
	case pagesel.Unspecified:
		return
	case pagesel.Valid:
		if !accepted {
			recs := make([]*termRec, len(tt))
			for i, x := range tt {
				recs[i] = newRec(0, x)
			}
			c.violate(st, c.attribute("syntax", "rejected-valid", 0, recs, tt, func(*termRec) string { return "" }),
				func() string {
					return fmt.Sprintf("ParsePageSelection(%q) rejects an expression of the documented grammar: %v", s, err)
				},
				func() replayCase {
					return replayCase{Expr: s, API: "ParsePageSelection", Got: "reject", Want: "accept"}
				})
			return
		}
		if pagesel.HasBig(tt) {
			cls["strings/valid-with-number-beyond-int-not-evaluated"]++
			return
		}
		// A correct evaluator costs O(page count) whatever the numbers are; one that lost a clamp costs
		// O(number) in time and memory ("1-1000000000" from a duplicated digit took the worker to 25 GB on a
		// mutated tree). Numbers up to evalNumberCap are far beyond every page count used and still evaluated.
		if maxNumber(tt) > evalNumberCap {
			cls["strings/valid-with-number-beyond-cap-not-evaluated"]++
			return
		}
		n := rng.IntN(maxN + 1)
		recs := make([]*termRec, len(tt))
		allRec := newRec(n, pagesel.Term{Shape: pagesel.UpToLast})
		allRec.probe = true
		for i, x := range tt {
			recs[i] = newRec(n, x)
			if len(tt) > 1 {
				c.checkExpr(n, recs[i:i+1], tt[i:i+1], st, true, true)
				c.probeNegated(n, allRec, recs[i], st)
			}
		}
		c.checkExpr(n, recs, tt, st, len(tt) == 1, true)
		cls["strings/valid-evaluated"]++
	case pagesel.Invalid:
		if !accepted {
			return
		}
		ic := invalidClass(s)
		c.violate(st, "syntax/accepted-outside-grammar/class="+ic,
			func() string {
				return fmt.Sprintf("ParsePageSelection(%q) accepts a string outside the documented grammar (returns %q)", s, parts)
			},
			func() replayCase {
				return replayCase{Expr: s, API: "ParsePageSelection", Got: "accept", Want: "reject"}
			})
		// second line of defence: do the evaluators refuse it?
		var m map[int]bool
		var e2 error
		if p := guard(st, func() { m, e2 = api.PagesForPageSelection(10, parts, false, false) }); p != nil {
			c.violate(st, "syntax/invalid-evaluated/panic/class="+ic,
				func() string {
					return fmt.Sprintf("PagesForPageSelection(10, %q) panics on an invalid expression accepted by ParsePageSelection: %v", parts, p)
				},
				func() replayCase { return replayCase{N: 10, Expr: s, API: "PagesForPageSelection"} })
		} else if e2 == nil {
			cls["strings/invalid-accepted-and-evaluated-without-error"]++
			c.violate(st, "syntax/invalid-evaluated/class="+ic,
				func() string {
					return fmt.Sprintf("%q is outside the grammar, ParsePageSelection accepts it and PagesForPageSelection(10, %q) evaluates it without error to %v", s, parts, pagesel.SortedKeysTrue(m))
				},
				func() replayCase {
					return replayCase{N: 10, Expr: s, API: "PagesForPageSelection", Got: fmt.Sprint(pagesel.SortedKeysTrue(m)), Want: "error"}
				})
		} else {
			cls["strings/invalid-accepted-but-evaluator-errors"]++
		}
	}
}

func (c *checker) stringsLayer() {
	t := c.t
	total := t.Pick(400_000, 8_000_000)
	chunks := 64
	per := total / chunks
	vk.Parallel(chunks, func(ci int) {
		rng := t.RNGi("strings", ci)
		st := &stats{}
		cls := map[string]int64{}
		for i := 0; i < per; i++ {
			var s string
			switch i % 3 {
			case 0:
				s = randomString(rng)
			case 1:
				s = mutate(rng, randomValidExpr(rng))
			default:
				s = randomValidExpr(rng)
				if i%2 == 0 {
					s = mutate(rng, mutate(rng, s))
				}
			}
			c.checkString(s, rng, st, cls)
			if ci == 0 && i < 6 {
				_, v := pagesel.Parse(s)
				t.Sample(strCase{S: s, Verdict: v.String()})
			}
		}
		// the expressions evaluated here are counted by checkExpr into st.exprs; they may repeat, so they are
		// not added to the distinct count
		c.mu.Lock()
		c.st.evalOfAcceptedFromStrings += st.exprs
		c.mu.Unlock()
		st.exprs, st.nontrivial = 0, 0
		c.merge(st, cls)
	})
	// fixed corner strings (documented examples must be accepted; classic malformed ones rejected)
	st := &stats{}
	cls := map[string]int64{}
	rng := t.RNG("corner")
	for _, s := range []string{"-3,5,7-", "4-7,!6", "1-,!5", "odd,n1", "l-3-", "l-3", "-l-3", "2-l-1", "1-,n4", "!3,1-5", "1-5,!3",
		"1,", ",1", "1,,2", "-", "--1", "1--2", "1-2-3", "l-l", "l-", "-l-", "1-l-", "n", "!", "!!1", "nn1", "evenx", "xodd", "oddity", "even,", "Even", "L", "1-L", "1;2", "1.5", "+1", "0x1"} {
		c.checkString(s, rng, st, cls)
	}
	st.exprs, st.nontrivial = 0, 0
	c.merge(st, cls)
	t.Count("strings_checked", int64(per*chunks))
	t.Count("expressions_evaluated_from_accepted_strings", c.st.evalOfAcceptedFromStrings)
}
