// Stand-alone reproducer for the C31 findings (run: `. /verif/env.sh; cd /verif/harness;
// VERIF_REPO=<tree> is honoured through the module replace of the build, see /verif/check`).
//
//	$GO125 run -tags verif ./cmd/c31/repro [scratch-dir]
//
// A: page 0 selected / listed by the evaluators, and what operations do with it.
// B: ParsePageSelection accepts strings outside the documented grammar.
// C: such strings are evaluated without error.
package main

import (
	"bytes"
	"fmt"
	"os"
	"path/filepath"
	"sort"

	"github.com/pdfcpu/pdfcpu/pkg/api"
	"github.com/pdfcpu/pdfcpu/pkg/pdfcpu/model"
	"verif/harness/internal/pdfgen"
)

func keys(m map[int]bool) []int {
	var out []int
	for k, v := range m {
		if v {
			out = append(out, k)
		}
	}
	sort.Ints(out)
	return out
}

func guard(name string, f func() error) {
	defer func() {
		if r := recover(); r != nil {
			fmt.Printf("  %-34s PANIC: %v\n", name, r)
		}
	}()
	err := f()
	fmt.Printf("  %-34s err=%v\n", name, err)
}

func conf() *model.Configuration {
	c := model.NewDefaultConfiguration()
	c.Offline = true
	return c
}

func pageCount(f string) string {
	n, err := api.PageCountFile(f)
	if err != nil {
		return "unreadable: " + err.Error()
	}
	return fmt.Sprint(n, " pages")
}

func main() {
	api.DisableConfigDir()

	fmt.Println("== A: page 0")
	for _, c := range []struct {
		n int
		s string
	}{{5, "0-2"}, {5, "0"}, {5, "0-"}, {5, "0-l"}, {5, "0-l-1"}, {0, "l"}, {5, "0-0"}, {5, "-l,!0-2"}} {
		parts, perr := api.ParsePageSelection(c.s)
		m, err := api.PagesForPageSelection(c.n, parts, false, false)
		l, cerr := api.PagesForPageCollection(c.n, parts)
		r, rerr := api.RemainingPagesForPageRemoval(c.n, parts, false)
		fmt.Printf("  N=%d %-8q parse=%v selection=%v (%v) collection=%v (%v) remaining=%v (%v)\n", c.n, c.s, perr, keys(m), err, l, cerr, keys(r), rerr)
	}

	dir := "."
	if len(os.Args) > 1 {
		dir = os.Args[1]
	}
	in := filepath.Join(dir, "five.pdf")
	b := pdfgen.Build(pdfgen.DocSpec{Seed: 7, Pages: 5})
	if err := os.WriteFile(in, b.Bytes, 0o644); err != nil {
		panic(err)
	}
	fmt.Println("  input:", pageCount(in))
	for _, sel := range []string{"0-2", "0"} {
		parts, _ := api.ParsePageSelection(sel)
		fmt.Printf("  -- operations with pages %q\n", sel)
		out := func(op string) string { return filepath.Join(dir, op+"-"+sel+".pdf") }
		guard("TrimFile", func() error { return api.TrimFile(in, out("trim"), parts, conf()) })
		fmt.Println("     ->", pageCount(out("trim")))
		guard("CollectFile", func() error { return api.CollectFile(in, out("collect"), parts, conf()) })
		fmt.Println("     ->", pageCount(out("collect")))
		guard("RemovePagesFile", func() error { return api.RemovePagesFile(in, out("remove"), parts, conf()) })
		fmt.Println("     ->", pageCount(out("remove")))
		guard("RotateFile", func() error { return api.RotateFile(in, out("rotate"), 90, parts, conf()) })
		guard("ExtractPagesFile", func() error {
			d := filepath.Join(dir, "extract-"+sel)
			os.MkdirAll(d, 0o755)
			err := api.ExtractPagesFile(in, d, parts, conf())
			ee, _ := os.ReadDir(d)
			for _, e := range ee {
				fmt.Printf("     extracted %s\n", e.Name())
			}
			return err
		})
		guard("InsertPagesFile(before)", func() error { return api.InsertPagesFile(in, out("insert"), parts, true, nil, conf()) })
		fmt.Println("     ->", pageCount(out("insert")))
		guard("Trim (stream)", func() error {
			var w bytes.Buffer
			return api.Trim(bytes.NewReader(b.Bytes), &w, parts, conf())
		})
	}

	fmt.Println("== B/C: strings outside the documented grammar")
	for _, s := range []string{"99.10", "odd,50l,0-6", "evenv,nl-10,n0", "x1", "even02even-9,-!", "oddity", "1;2", "foo odd bar", "even,n8,!99-ol-6", "odd,odd,nl-5,!13-v", "1,x,99-q",
		// what the test suite pins
		" 1", "1 ", " -", " !", "1,", "-"} {
		parts, err := api.ParsePageSelection(s)
		if err != nil {
			fmt.Printf("  %-22q rejected: %v\n", s, err)
			continue
		}
		m, e2 := api.PagesForPageSelection(10, parts, false, false)
		fmt.Printf("  %-22q ACCEPTED -> %q; PagesForPageSelection(10) = %v, err=%v\n", s, parts, keys(m), e2)
	}
}
