#!/usr/bin/env python3
"""tools/addcheck.py CNN level <<< 'text\n---\nnote\n---\ntechnique'  : add/replace a registry entry in tools/checks.json"""
import json,sys
pid,level=sys.argv[1],sys.argv[2]
text,note,tech=[x.strip().replace("\n"," ") for x in sys.stdin.read().split("\n---\n")]
p='/verif/tools/checks.json'; c=json.load(open(p))
c[pid]={"level":level,"text":text,"note":note,"technique":tech}
json.dump(c,open(p,'w'),indent=1)
