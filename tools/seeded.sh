#!/bin/bash
# tools/seeded.sh <seeded-id> [tier] [extra property ids...]
# Runs the check(s) of the property a seeded change breaks against a scratch worktree of /repo with
# seeded/<id>/patch.diff applied (VERIF_REPO), records the outcome in seeded/<id>/result.txt and
# removes the worktree. Exit 0 iff the primary property's check reported a VIOLATION.
ID=$1; TIER=${2:-quick}; shift 2 2>/dev/null
D=/verif/seeded/$ID
[ -f "$D/patch.diff" ] || { echo "no $D/patch.diff"; exit 2; }
PROP=$(jq -r .property "$D/meta.json" | sed "s/b$//")
WT=/tmp/seedrun-$ID-$$
git -C /repo worktree add --detach "$WT" HEAD >/dev/null 2>&1 || exit 2
trap 'git -C /repo worktree remove --force "$WT" >/dev/null 2>&1; rm -f /verif/.cache/bin/*-$(echo "$WT" | cksum | cut -d" " -f1)' EXIT
git -C "$WT" apply "$D/patch.diff" || { echo "patch does not apply"; exit 2; }
rc_primary=1
: > "$D/result.txt"
for P in $PROP "$@"; do
  out=$(VERIF_REPO=$WT VERIF_EVIDENCE_DIR=/verif/.cache/run/ev-$$ /verif/check $P $TIER 2>&1); rc=$?
  keys=$(echo "$out" | grep -A1 '^VIOLATION' | grep 'key=' | sed 's/^ *//' | sort -u | head -8 | tr '\n' ' ')
  echo "check=$P tier=$TIER exit=$rc violations=$(echo "$out" | grep -c '^VIOLATION') keys: $keys" | tee -a "$D/result.txt"
  [ "$P" = "$PROP" ] && [ $rc -eq 1 ] && rc_primary=0
done
rm -rf /verif/.cache/run/ev-$$
exit $rc_primary
