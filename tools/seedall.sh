#!/bin/bash
# tools/seedall.sh <ID> <slug> <demo path> <pkg> <run regex>: confirm a delivered seeded change, then run the property's quick check against it
cd /verif
tools/seedconfirm.sh "$1" "$2" "$3" "$4" "$5" nosuite | tail -1
[ -d seeded/$1-$2 ] && tools/seeded.sh $1-$2 quick | cut -c1-420
