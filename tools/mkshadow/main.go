// mkshadow builds the shadow GOROOT used by the osmon / netmon interposers:
// a tree of symlinks to the real go1.25.0 toolchain in which src/os and
// src/net are real directories holding patched copies (the hooked functions
// are renamed verifOrig<Name>; wrappers come from the embedded templates).
// It fails loudly if any target function is missing.
//
//	mkshadow <real GOROOT> <shadow dir>
package main

import (
	_ "embed"
	"fmt"
	"go/ast"
	"go/parser"
	"go/token"
	"os"
	"path/filepath"
	"sort"
)

//go:embed os_hook.go.txt
var osHook []byte

//go:embed os_envmon.go.txt
var osEnvMon []byte

//go:embed net_hook.go.txt
var netHook []byte

type target struct{ file, recv, name string }

var osTargets = []target{
	{"file.go", "", "OpenFile"}, {"file.go", "", "Mkdir"}, {"file.go", "", "Rename"}, {"file.go", "", "Chmod"},
	{"file_unix.go", "", "Remove"}, {"file_unix.go", "", "Truncate"}, {"file_unix.go", "", "Link"}, {"file_unix.go", "", "Symlink"},
	{"path.go", "", "RemoveAll"}, {"stat.go", "", "Stat"}, {"stat.go", "", "Lstat"}, {"dir.go", "", "ReadDir"},
	{"file.go", "File", "Read"}, {"file.go", "File", "ReadAt"}, {"file.go", "File", "Write"}, {"file.go", "File", "WriteAt"},
	{"file.go", "File", "Chmod"}, {"file_posix.go", "File", "Close"}, {"file_posix.go", "File", "Sync"},
	{"file_posix.go", "File", "Truncate"}, {"stat_unix.go", "File", "Stat"},
	{"zero_copy_linux.go", "File", "readFrom"}, {"zero_copy_linux.go", "File", "writeTo"},
}

var netTargets = []target{
	{"dial.go", "Dialer", "DialContext"}, {"dial.go", "sysDialer", "dialSingle"}, {"lookup.go", "Resolver", "lookupIPAddr"},
}

func die(f string, a ...any) { fmt.Fprintf(os.Stderr, "mkshadow: "+f+"\n", a...); os.Exit(1) }

func recvName(fd *ast.FuncDecl) string {
	if fd.Recv == nil || len(fd.Recv.List) == 0 {
		return ""
	}
	t := fd.Recv.List[0].Type
	if s, ok := t.(*ast.StarExpr); ok {
		t = s.X
	}
	if id, ok := t.(*ast.Ident); ok {
		return id.Name
	}
	return "?"
}

func patchPkg(realDir, shadowDir string, targets []target) {
	ents, err := os.ReadDir(realDir)
	if err != nil {
		die("%v", err)
	}
	if err := os.MkdirAll(shadowDir, 0o755); err != nil {
		die("%v", err)
	}
	byFile := map[string][]target{}
	for _, t := range targets {
		byFile[t.file] = append(byFile[t.file], t)
	}
	for _, e := range ents {
		src := filepath.Join(realDir, e.Name())
		dst := filepath.Join(shadowDir, e.Name())
		os.RemoveAll(dst)
		ts := byFile[e.Name()]
		if e.IsDir() || len(ts) == 0 {
			if err := os.Symlink(src, dst); err != nil {
				die("%v", err)
			}
			continue
		}
		b, err := os.ReadFile(src)
		if err != nil {
			die("%v", err)
		}
		fset := token.NewFileSet()
		af, err := parser.ParseFile(fset, src, b, parser.SkipObjectResolution)
		if err != nil {
			die("%v", err)
		}
		type edit struct{ off int; name string }
		var edits []edit
		for _, t := range ts {
			found := false
			for _, d := range af.Decls {
				fd, ok := d.(*ast.FuncDecl)
				if !ok || fd.Name.Name != t.name || recvName(fd) != t.recv {
					continue
				}
				edits = append(edits, edit{fset.Position(fd.Name.Pos()).Offset, t.name})
				found = true
			}
			if !found {
				die("target %s.%s not found in %s", t.recv, t.name, src)
			}
		}
		sort.Slice(edits, func(i, j int) bool { return edits[i].off > edits[j].off })
		for _, ed := range edits {
			if string(b[ed.off:ed.off+len(ed.name)]) != ed.name {
				die("offset mismatch for %s in %s", ed.name, src)
			}
			b = append(b[:ed.off:ed.off], append([]byte("verifOrig"+ed.name), b[ed.off+len(ed.name):]...)...)
		}
		if err := os.WriteFile(dst, b, 0o644); err != nil {
			die("%v", err)
		}
		delete(byFile, e.Name())
	}
	for f := range byFile {
		die("target file %s not found in %s", f, realDir)
	}
}

func linkTree(real, shadow string, realDirs map[string]bool) {
	ents, err := os.ReadDir(real)
	if err != nil {
		die("%v", err)
	}
	if err := os.MkdirAll(shadow, 0o755); err != nil {
		die("%v", err)
	}
	for _, e := range ents {
		if realDirs[e.Name()] {
			continue
		}
		dst := filepath.Join(shadow, e.Name())
		os.RemoveAll(dst)
		if err := os.Symlink(filepath.Join(real, e.Name()), dst); err != nil {
			die("%v", err)
		}
	}
}

func main() {
	if len(os.Args) != 3 {
		die("usage: mkshadow <real GOROOT> <shadow dir>")
	}
	real, shadow := os.Args[1], os.Args[2]
	linkTree(real, shadow, map[string]bool{"src": true})
	linkTree(filepath.Join(real, "src"), filepath.Join(shadow, "src"), map[string]bool{"os": true, "net": true})
	patchPkg(filepath.Join(real, "src", "os"), filepath.Join(shadow, "src", "os"), osTargets)
	patchPkg(filepath.Join(real, "src", "net"), filepath.Join(shadow, "src", "net"), netTargets)
	w := func(p string, b []byte) {
		if err := os.WriteFile(p, b, 0o644); err != nil {
			die("%v", err)
		}
	}
	w(filepath.Join(shadow, "src", "os", "verif_hook.go"), osHook)
	w(filepath.Join(shadow, "src", "os", "verif_envmon.go"), osEnvMon)
	w(filepath.Join(shadow, "src", "net", "verif_hook.go"), netHook)
	fmt.Printf("mkshadow: %d os targets, %d net targets patched in %s\n", len(osTargets), len(netTargets), shadow)
}
