module verif/tools/mkshadow

go 1.25.0
