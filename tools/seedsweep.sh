#!/bin/bash
# tools/seedsweep.sh [tier] [parallel]: runs tools/seeded.sh for every seeded change; summary on stdout
cd /verif
ls seeded | xargs -P ${2:-1} -I{} sh -c 'out=$(tools/seeded.sh {} '${1:-quick}' 2>&1 | tail -1); echo "{}: $(echo "$out" | cut -c1-160)"'
