#!/bin/bash
# tools/seedsweep.sh [tier]: runs tools/seeded.sh for every seeded change (sequentially); summary on stdout
cd /verif
for s in $(ls seeded); do
  out=$(tools/seeded.sh $s ${1:-quick} 2>&1 | tail -1); echo "$s: $(echo "$out" | cut -c1-160)"
done
