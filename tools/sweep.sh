#!/bin/bash
# tools/sweep.sh [tier] : runs every registered check's command once (VERIF_SEED from env), one after the other; summary on stdout
TIER=${1:-quick}
cd /verif
mkdir -p .cache/logs/sweep
for id in $(jq -r '.checks[].property_id' MANIFEST.json); do
  s=$(date +%s)
  ./check $id $TIER > .cache/logs/sweep/$id.$TIER.s${VERIF_SEED:-1}.log 2>&1; rc=$?
  e=$(( $(date +%s) - s ))
  echo "$id rc=$rc ${e}s $(grep ^SUMMARY .cache/logs/sweep/$id.$TIER.s${VERIF_SEED:-1}.log | sed 's/SUMMARY property=[A-Z0-9]* //' | cut -c1-150)"
done
