#!/bin/bash
# validates MANIFEST.json and every evidence file against the schemas
python3-vt - <<'PY'
import json,jsonschema,glob,sys
ok=True
jsonschema.validate(json.load(open('/verif/MANIFEST.json')), json.load(open('/root/.vp/MANIFEST.schema.json')))
es=json.load(open('/root/.vp/EVIDENCE.schema.json'))
for f in sorted(glob.glob('/verif/evidence/*.json')):
    try: jsonschema.validate(json.load(open(f)), es)
    except Exception as e: ok=False; print('INVALID',f,str(e)[:300])
print('ok' if ok else 'FAILED'); sys.exit(0 if ok else 1)
PY
