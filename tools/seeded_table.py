#!/usr/bin/env python3
"""Regenerates the table of seeded changes in DESIGN.md (between the markers) from seeded/*/meta.json and result.txt."""
import json,glob,os,re
rows=[]
for d in sorted(glob.glob('/verif/seeded/*/')):
    sid=os.path.basename(d.rstrip('/'))
    try: m=json.load(open(d+'meta.json'))
    except Exception: continue
    res=open(d+'result.txt').read().strip().splitlines() if os.path.exists(d+'result.txt') else []
    out=[]
    for l in res:
        mm=re.match(r'check=(\S+) tier=(\S+) exit=(\d+) violations=(\d+) keys: (.*)',l)
        if not mm: continue
        chk,tier,rc,nv,keys=mm.groups()
        ks=[k.replace('key=','') for k in keys.split() if k.startswith('key=')]
        if rc=='1': out.append(f"{chk} {tier}: **caught**, {nv} keys, e.g. `{ks[0] if ks else ''}`")
        else: out.append(f"{chk} {tier}: missed (exit {rc})")
    note=open(d+'note.txt').read().strip() if os.path.exists(d+'note.txt') else ''
    def cell(s,n): 
        s=' '.join(str(s).split()).replace('|','/'); return s if len(s)<=n else s[:n-1]+'…'
    rows.append(f"| `{sid}` | {m.get('property')} | {cell(m.get('summary',''),260)} | {cell(m.get('needs',''),220)} | {'; '.join(out)}{(' — '+note) if note else ''} |")
n=len(rows); caught=sum(1 for r in rows if '**caught**' in r); noted=len(glob.glob('/verif/seeded/*/note.txt'))
summary=f"Summary: {n} seeded changes kept; {caught} are reported by the quick tier of the property's check on the current tree; {noted} of them were missed when first tried and led to a wider workload or a corrected oracle (see the note in the last column); {n-caught} are not reported (each explained in its row).\n\n"
tbl=summary+"| seeded change | property | what it does | what it needs to manifest | result |\n|---|---|---|---|---|\n"+"\n".join(rows)
p='/verif/DESIGN.md'; s=open(p).read()
a='<!-- SEEDED-TABLE-BEGIN -->'; b='<!-- SEEDED-TABLE-END -->'
if a not in s:
    s+=f"\n### 7.4 Seeded changes (independent sub-agents) and which checks catch them\n\nEach change below was written by a fresh sub-agent that was given only the property text and its own scratch worktree (nothing from /verif). It was kept only after the orchestrator confirmed, in that worktree, that the demonstration fails with the change and passes without it and that pdfcpu's own suite still passes; patch, demonstration and meta.json are under `seeded/<id>/`. `tools/seeded.sh <id> quick` applies the patch to a scratch worktree of /repo's HEAD, runs the property's check against it (VERIF_REPO) and records the outcome in `seeded/<id>/result.txt`; `note.txt` says what was changed in the check when a change was first missed.\n\n{a}\n{b}\n"
s=s[:s.index(a)+len(a)]+"\n"+tbl+"\n"+s[s.index(b):]
open(p,'w').write(s); print(len(rows),"rows")
