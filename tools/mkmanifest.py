#!/usr/bin/env python3
"""Regenerates /verif/MANIFEST.json from tools/checks.json (one entry per claimed property).
Every property in properties.jsonl that has no entry is listed under not_applicable with a reason."""
import json, os, sys
root = os.path.dirname(os.path.dirname(os.path.abspath(__file__)))
props = [json.loads(l) for l in open(os.path.join(root, "properties.jsonl"))]
checks = json.load(open(os.path.join(root, "tools", "checks.json")))
na_reasons = checks.get("_not_applicable", {})
out = {
    "version": 1,
    "setup_cmd": "./setup.sh",
    "hooks": {
        "guard": "verif",
        "enable": "go build -tags verif (./check does this for every worker; hook files are new *_verif.go / verif_export.go files with //go:build verif)",
        "baseline_off_cmd": "cd /repo && go test -mod=mod -vet=off -count=1 -timeout 25m ./...",
        "source_commits": checks.get("_hook_commits", []),
        "add_only": True,
    },
    "engines": checks.get("_engines", []),
    "checks": [],
    "notes": "All checks are runtime monitors: the real pdfcpu code (module replace => /repo, rebuilt on every run) is executed under generated, hostile and fault-injected workloads while oracles observe the executions. See DESIGN.md.",
    "not_applicable": [],
}
for p in props:
    pid = p["id"]
    c = checks.get(pid)
    if not c:
        out["not_applicable"].append({"property_id": pid, "reason": na_reasons.get(pid, "no check registered yet: worker not built (DESIGN.md section 6 build order); not claimed")})
        continue
    out["checks"].append({
        "property_id": pid,
        "quick_cmd": f"./check {pid} quick",
        "thorough_cmd": f"./check {pid} thorough",
        "evidence_file": f"/verif/evidence/{pid}.json",
        "replay_cmd_template": f"./check {pid} --replay {{path}}",
        "engine": c.get("engine", "harness/cmd/" + pid.lower()),
        "level_claimed": {"category": c["level"], "text": c["text"], "design_ref": f"DESIGN.md section 3, {pid}"},
        "level_note": c["note"],
        "technique": c["technique"],
    })
json.dump(out, open(os.path.join(root, "MANIFEST.json"), "w"), indent=1)
print(f"MANIFEST.json: {len(out['checks'])} checks, {len(out['not_applicable'])} not claimed")
