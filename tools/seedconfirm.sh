#!/bin/bash
# tools/seedconfirm.sh <ID> <slug> <demo path in repo> <go package> <-run regex> [nosuite]
# Confirms a seeded change delivered in /tmp/mut/<ID>/{wt,out}: demo fails with the patch, passes
# without it, pdfcpu's own suite (baseline comparison) still passes with it. On success copies
# patch.diff, the demonstration and meta.json to /verif/seeded/<ID>-<slug>/ and writes confirm.txt.
ID=$1; SLUG=$2; DEMO=$3; PKG=$4; RUN=$5; NOSUITE=$6
. /verif/env.sh
M=/tmp/mut/$ID; WT=$M/wt; OUT=$M/out
cd "$WT" || exit 2
git checkout -q -- . ; git clean -fdq
git apply "$OUT/patch.diff" || { echo "patch does not apply on base"; exit 2; }
mkdir -p "$(dirname "$DEMO")"; cp "$OUT/demo_test.go" "$DEMO"
$GO125 test -vet=off -count=1 -run "$RUN" "$PKG" > $M/confirm-with.log 2>&1; with=$?
git apply -R "$OUT/patch.diff"
$GO125 test -vet=off -count=1 -run "$RUN" "$PKG" > $M/confirm-without.log 2>&1; without=$?
git apply "$OUT/patch.diff"
rm -f "$DEMO"
suite="skipped"
if [ -z "$NOSUITE" ]; then /verif/tools/suite.sh "$WT" > $M/confirm-suite.log 2>&1 && suite=pass || suite="FAIL: $(head -5 $M/confirm-suite.log | tr '\n' ' ')"; fi
echo "demo with patch: exit $with (expect non-zero); without: exit $without (expect 0); suite with patch: $suite"
if [ $with -ne 0 ] && [ $without -eq 0 ] && [ "$suite" != "${suite#FAIL}" ]; then echo "NOT CONFIRMED (suite)"; exit 1; fi
if [ $with -ne 0 ] && [ $without -eq 0 ]; then
  S=/verif/seeded/$ID-$SLUG; mkdir -p "$S"
  cp "$OUT/patch.diff" "$OUT/demo_test.go" "$S/"
  jq --arg demo "$DEMO" --arg pkg "$PKG" --arg run "$RUN" --arg suite "$suite" '. + {confirmed: {demo_copied_to: $demo, cmd: ("go test -vet=off -count=1 -run " + $run + " " + $pkg), with_patch: "fails", without_patch: "passes", suite_with_patch: $suite}}' "$OUT/meta.json" > "$S/meta.json"
  echo "CONFIRMED -> $S"; exit 0
fi
echo "NOT CONFIRMED"; exit 1
