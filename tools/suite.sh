#!/bin/bash
# tools/suite.sh [repo-dir]: runs pdfcpu's own test suite (build tag off) in repo-dir (default /repo)
# and compares with the pinned baseline (/root/.vp/BASELINE.json stable_pass). Exit 0 iff every
# stable_pass test passes. Output: one line summary + list of missing tests.
DIR=${1:-/repo}
. /verif/env.sh
OUT=$(mktemp -p /verif/.cache/run suite.XXXXXX.json)
( cd "$DIR" && $GO125 test -json -vet=off -count=1 -timeout 25m ./... ) > "$OUT" 2>/dev/null
python3 - "$OUT" <<'PY'
import json,sys
passed=set()
for l in open(sys.argv[1]):
    try: e=json.loads(l)
    except: continue
    if e.get("Action")=="pass" and e.get("Test"): passed.add(e["Package"]+"::"+e["Test"])
base=json.load(open("/root/.vp/BASELINE.json"))["stable_pass"]
missing=[t for t in base if t not in passed]
print(f"suite: {len(passed)} passed, baseline {len(base)}, missing {len(missing)}")
for t in missing[:40]: print("  MISSING", t)
sys.exit(1 if missing else 0)
PY
rc=$?
rm -f "$OUT"
exit $rc
