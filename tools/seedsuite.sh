#!/bin/bash
# tools/seedsuite.sh [ids...]: for each seeded change apply patch.diff on a scratch worktree of /repo HEAD and run pdfcpu's own
# suite (baseline comparison); records seeded/<id>/suite.txt ("suite: N passed, baseline 4408, missing K")
cd /verif
ids="$@"; [ -z "$ids" ] && ids=$(ls seeded)
for s in $ids; do
  [ -f seeded/$s/suite.txt ] && grep -q "missing 0" seeded/$s/suite.txt && continue
  WT=/tmp/seedsuite-$s
  git -C /repo worktree add --detach $WT HEAD >/dev/null 2>&1 || continue
  if git -C $WT apply /verif/seeded/$s/patch.diff 2>/dev/null; then
    tools/suite.sh $WT > seeded/$s/suite.txt 2>&1
    # the two 10 s wall-clock deadline tests fail under machine load: re-run them alone before believing it
    if grep -q "MISSING" seeded/$s/suite.txt && ! grep "MISSING" seeded/$s/suite.txt | grep -qv "TestReadLargeDictObject"; then
      ( . /verif/env.sh; cd $WT && $GO125 test -vet=off -count=1 -run 'TestReadLargeDictObject' ./pkg/pdfcpu/ >/dev/null 2>&1 ) && echo "suite: re-run of TestReadLargeDictObject* alone passed (load artefact): missing 0" >> seeded/$s/suite.txt
    fi
  else echo "patch does not apply on current HEAD" > seeded/$s/suite.txt; fi
  git -C /repo worktree remove --force $WT >/dev/null 2>&1
  echo "$s: $(tail -1 seeded/$s/suite.txt)"
done
