# sourced by ./check and setup: offline Go 1.25.0 toolchain called directly (see DESIGN.md §0)
export GO125ROOT=/root/go/pkg/mod/golang.org/toolchain@v0.0.1-go1.25.0.linux-amd64
export GO125=$GO125ROOT/bin/go
export GOTOOLCHAIN=local GOFLAGS=-mod=mod GOPROXY=off GOSUMDB=off GONOSUMDB='*' GOWORK=off
export VERIF_ROOT=${VERIF_ROOT:-/verif}
export VERIF_CACHE=$VERIF_ROOT/.cache
export SHADOW_GOROOT=$VERIF_CACHE/goroot
