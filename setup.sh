#!/bin/bash
# MANIFEST.setup_cmd: build the shadow GOROOT (std interposers) and warm the build cache. Offline.
set -e
ROOT=$(cd "$(dirname "$0")" && pwd)
export VERIF_ROOT=$ROOT
. "$ROOT/env.sh"
mkdir -p "$VERIF_CACHE/bin" "$VERIF_CACHE/run"
( cd "$ROOT/tools/mkshadow" && $GO125 build -o "$VERIF_CACHE/bin/mkshadow" . )
rm -rf "$SHADOW_GOROOT"
"$VERIF_CACHE/bin/mkshadow" "$GO125ROOT" "$SHADOW_GOROOT"
# bin/ must be a real directory holding a real go binary path (GOROOT is passed explicitly)
( cd "$ROOT/harness" && GOROOT=$SHADOW_GOROOT "$SHADOW_GOROOT/bin/go" build std )


( cd "$ROOT/harness" && GOROOT=$SHADOW_GOROOT "$SHADOW_GOROOT/bin/go" build -tags verifshadow -o "$VERIF_CACHE/bin/osmonprobe" ./cmd/osmonprobe && VERIF_CACHE=$VERIF_CACHE "$VERIF_CACHE/bin/osmonprobe" )
touch "$VERIF_CACHE/setup.ok"
echo "setup: ok"
